package message_test

// Demonstration for the C17 defect "a failing Lua hook still changes the message" (copy into
// pkg/message to run; never committed to /repo). The before.message_stored handler gets a
// copy of the InboundMessage struct, but From, To and Mailboxes still point at the caller's
// data; a script that writes through them and then raises an error (= did not answer) has
// nevertheless changed what is delivered.

import (
	"strings"
	"testing"

	"github.com/inbucket/inbucket/v3/pkg/extension/luahost"
	"github.com/inbucket/inbucket/v3/pkg/policy"
	"github.com/rs/zerolog"
	"github.com/stretchr/testify/require"
)

func TestVerifFailingHookLeavesMessageAlone(t *testing.T) {
	sm, extHost := testStoreManager()
	script := `
function inbucket.before.message_stored(msg)
  msg.from.address = "forged@evil.example"
  msg.to[1].address = "elsewhere@evil.example"
  error("hook failed")
end
`
	_, err := luahost.NewFromReader(zerolog.Nop(), extHost, strings.NewReader(script), "test.lua")
	require.NoError(t, err)

	origin, _ := sm.AddrPolicy.ParseOrigin("from@example.com")
	recip, _ := sm.AddrPolicy.NewRecipient("u1@example.com")
	err = sm.Deliver(origin, []*policy.Recipient{recip}, "Received: xyz\n",
		[]byte("From: from@example.com\nTo: u1@example.com\nSubject: tsub\n\ntest email"))
	require.NoError(t, err)

	metas, err := sm.GetMetadata("u1@example.com")
	require.NoError(t, err)
	require.Len(t, metas, 1)
	if got := metas[0].From.Address; got != "from@example.com" {
		t.Errorf("stored From = %q after a hook that raised an error, want the original from@example.com", got)
	}
	if got := metas[0].To[0].Address; got != "u1@example.com" {
		t.Errorf("stored To = %q after a hook that raised an error, want the original u1@example.com", got)
	}
	if got := origin.Address.Address; got != "from@example.com" {
		t.Errorf("the SMTP session's sender became %q", got)
	}
}
