package extension

// Demonstration for C16/ORDER/async (copy into pkg/extension to run; never committed to
// /repo): one listener, two consecutive events; the second invocation starts while the
// first is still running, so the listener observes them overlapped / out of order.

import (
	"sync/atomic"
	"testing"
	"time"
)

func TestVerifAsyncOrder(t *testing.T) {
	var eb AsyncEventBroker[int]
	var running, overlapped atomic.Int32
	done := make(chan int, 2)
	eb.AddListener("l", func(e int) {
		if running.Add(1) > 1 {
			overlapped.Store(1)
		}
		if e == 1 {
			time.Sleep(100 * time.Millisecond)
		}
		running.Add(-1)
		done <- e
	})
	one, two := 1, 2
	eb.Emit(&one)
	eb.Emit(&two)
	first := <-done
	<-done
	if overlapped.Load() == 1 || first != 1 {
		t.Fatalf("listener invoked for event 2 before its invocation for event 1 finished (first completed=%d, overlapped=%d)", first, overlapped.Load())
	}
}
