// Demonstration for the C14 defect fixed in /repo (attachment number wraps on 32-bit builds): copy to
// pkg/webui/ and run with GOARCH=386. Written by a seeding sub-agent for seed C14-3; on the tree
// before the fix it fails for attachment number 4294967295 under GOARCH=386.
package webui

import (
	"fmt"
	"io"
	"net/http"
	"net/http/httptest"
	"sync"
	"testing"

	"github.com/inbucket/inbucket/v3/pkg/config"
	"github.com/inbucket/inbucket/v3/pkg/extension"
	"github.com/inbucket/inbucket/v3/pkg/message"
	"github.com/inbucket/inbucket/v3/pkg/msghub"
	"github.com/inbucket/inbucket/v3/pkg/policy"
	"github.com/inbucket/inbucket/v3/pkg/server/web"
	"github.com/inbucket/inbucket/v3/pkg/storage"
	"github.com/inbucket/inbucket/v3/pkg/storage/file"
	"github.com/inbucket/inbucket/v3/pkg/storage/mem"
)

const seededSource = "From: sender@example.com\r\n" +
	"To: box@example.com\r\n" +
	"Subject: with attachment\r\n" +
	"MIME-Version: 1.0\r\n" +
	"Content-Type: multipart/mixed; boundary=\"XYZ\"\r\n" +
	"\r\n" +
	"--XYZ\r\n" +
	"Content-Type: text/plain\r\n" +
	"\r\n" +
	"body text\r\n" +
	"--XYZ\r\n" +
	"Content-Type: application/octet-stream\r\n" +
	"Content-Disposition: attachment; filename=\"a.bin\"\r\n" +
	"\r\n" +
	"ATTACHMENT-PAYLOAD\r\n" +
	"--XYZ--\r\n"

var seededRoutes sync.Once

// TestSeededAttachmentNumberNeverDropsConnection runs the real web UI handlers behind a real HTTP
// server, on both storage back-ends, and asks for attachment numbers that do not exist.  Every such
// request must be answered with an HTTP error status; none may panic the handler, which the client
// observes as a dropped connection (transport error instead of a response).
func TestSeededAttachmentNumberNeverDropsConnection(t *testing.T) {
	backends := map[string]func(*extension.Host) (storage.Store, error){
		"mem": func(h *extension.Host) (storage.Store, error) {
			return mem.New(config.Storage{}, h)
		},
		"file": func(h *extension.Host) (storage.Store, error) {
			return file.New(config.Storage{Params: map[string]string{"path": t.TempDir()}}, h)
		},
	}

	for name, mk := range backends {
		t.Run(name, func(t *testing.T) {
			conf := &config.Root{
				MailboxNaming: config.LocalNaming,
				SMTP:          config.SMTP{DefaultAccept: true, DefaultStore: true},
				Web:           config.Web{UIDir: "../ui"},
			}
			extHost := extension.NewHost()
			store, err := mk(extHost)
			if err != nil {
				t.Fatal(err)
			}
			addrPolicy := &policy.Addressing{Config: conf}
			mm := &message.StoreManager{AddrPolicy: addrPolicy, Store: store, ExtHost: extHost}

			seededRoutes.Do(func() {
				SetupRoutes(web.Router.PathPrefix("/serve/").Subrouter())
			})
			web.NewServer(conf, mm, msghub.New(10, extHost))
			srv := httptest.NewServer(web.Router)
			defer srv.Close()

			// Deliver one message carrying exactly one attachment.
			origin, err := addrPolicy.ParseOrigin("sender@example.com")
			if err != nil {
				t.Fatal(err)
			}
			recip, err := addrPolicy.NewRecipient("box@example.com")
			if err != nil {
				t.Fatal(err)
			}
			err = mm.Deliver(origin, []*policy.Recipient{recip}, "Received: from test", []byte(seededSource))
			if err != nil {
				t.Fatal(err)
			}
			metas, err := mm.GetMetadata("box")
			if err != nil || len(metas) != 1 {
				t.Fatalf("GetMetadata = %v, %v; want one message", metas, err)
			}
			id := metas[0].ID

			get := func(num string) (int, string, error) {
				url := fmt.Sprintf("%s/serve/mailbox/box/%s/attach/%s/a.bin", srv.URL, id, num)
				resp, err := http.Get(url)
				if err != nil {
					return 0, "", err
				}
				defer resp.Body.Close()
				body, err := io.ReadAll(resp.Body)
				return resp.StatusCode, string(body), err
			}

			// The attachment that exists is served intact.
			code, body, err := get("0")
			if err != nil || code != http.StatusOK || body != "ATTACHMENT-PAYLOAD" {
				t.Fatalf("attachment 0: code=%v body=%q err=%v; want 200 with the stored payload",
					code, body, err)
			}

			// Attachment numbers that do not exist: an error status, never a dropped connection.
			for _, num := range []string{
				"1",
				"7",
				"4294967295",
				"4294967296",
				"9223372036854775807",
				"9223372036854775808",
				"18446744073709551615",
				"18446744073709551616",
				"-1",
				"x",
			} {
				code, _, err := get(num)
				if err != nil {
					t.Errorf("attachment %s: connection dropped, handler panicked: %v", num, err)
					continue
				}
				if code < 400 {
					t.Errorf("attachment %s: status %v, want an HTTP error status", num, code)
				}
			}
		})
	}
}
