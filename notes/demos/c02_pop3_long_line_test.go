package pop3

// Demonstration for C02/POP3/lines (copy into pkg/server/pop3 to run; never committed):
// RETR of a message with a 70 000 byte line. On the unrepaired tree the Scanner fails, the
// response is ".", "-ERR ..." and the body line is lost.

import (
	"bufio"
	"io"
	"net"
	"net/mail"
	"strings"
	"testing"
	"time"

	"github.com/inbucket/inbucket/v3/pkg/config"
	"github.com/rs/zerolog/log"
)

type longMsg struct{ body string }

func (m longMsg) Mailbox() string                { return "box" }
func (m longMsg) ID() string                     { return "1" }
func (m longMsg) From() *mail.Address            { return &mail.Address{} }
func (m longMsg) To() []*mail.Address            { return nil }
func (m longMsg) Date() time.Time                { return time.Now() }
func (m longMsg) Subject() string                { return "" }
func (m longMsg) Source() (io.ReadCloser, error) { return io.NopCloser(strings.NewReader(m.body)), nil }
func (m longMsg) Size() int64                    { return int64(len(m.body)) }
func (m longMsg) Seen() bool                     { return false }

func TestVerifLongLine(t *testing.T) {
	server, client := net.Pipe()
	srv := &Server{config: config.POP3{Timeout: 5 * time.Second}}
	ssn := NewSession(srv, 1, server, log.Logger)
	long := strings.Repeat("x", 70000)
	go func() {
		ssn.sendMessage(longMsg{body: "Subject: t\r\n\r\n" + long + "\r\nend\r\n"})
		server.Close()
	}()
	rd := bufio.NewReaderSize(client, 1<<20)
	var lines []string
	for {
		l, err := rd.ReadString('\n')
		if err != nil {
			break
		}
		lines = append(lines, strings.TrimRight(l, "\r\n"))
	}
	found := false
	for _, l := range lines {
		if l == long {
			found = true
		}
	}
	if !found || lines[len(lines)-1] != "." {
		t.Fatalf("long line lost: got %d lines, last=%q", len(lines), lines[len(lines)-1])
	}
}
