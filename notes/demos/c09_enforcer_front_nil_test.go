package mem

import (
	"bytes"
	"io"
	"net/mail"
	"strconv"
	"sync"
	"sync/atomic"
	"testing"
	"time"

	"github.com/inbucket/inbucket/v3/pkg/config"
	"github.com/inbucket/inbucket/v3/pkg/extension"
	"github.com/inbucket/inbucket/v3/pkg/extension/event"
	"github.com/inbucket/inbucket/v3/pkg/message"
	"github.com/inbucket/inbucket/v3/pkg/storage"
)

func baselineDeliver(t *testing.T, s storage.Store, mailbox string, size int) {
	body := bytes.Repeat([]byte{'x'}, size)
	d := &message.Delivery{
		Meta: event.MessageMetadata{
			Mailbox: mailbox,
			To:      []*mail.Address{{Address: mailbox + "@host"}},
			From:    &mail.Address{Address: "sender@host"},
			Subject: "s",
			Date:    time.Now(),
		},
		Reader: io.NopCloser(bytes.NewReader(body)),
	}
	if _, err := s.AddMessage(d); err != nil {
		t.Errorf("AddMessage: %v", err)
	}
}

// TestBaselineEnforcerFrontNil uses nothing but AddMessage and PurgeMessages.  The store is limited
// to 1 KiB and every message is 600 bytes, so each message fits on its own and any two together do
// not.  One goroutine per mailbox delivers, one goroutine per mailbox purges.  The size enforcer
// goroutine must survive this; on the unmodified tree it dies with a nil pointer dereference in
// all.Remove(all.Front()) (maxsize.go), which takes the whole process down.
func TestBaselineEnforcerFrontNil(t *testing.T) {
	s, err := New(config.Storage{Params: map[string]string{"maxkb": "1"}}, extension.NewHost())
	if err != nil {
		t.Fatal(err)
	}
	const size = 600
	const nboxes = 4
	const maxDeliveries = 500000

	var stop atomic.Bool
	var delivered atomic.Int64
	wg := &sync.WaitGroup{}
	for i := 0; i < nboxes; i++ {
		b := "box" + strconv.Itoa(i)
		wg.Add(2)
		go func() {
			defer wg.Done()
			for !stop.Load() {
				baselineDeliver(t, s, b, size)
				if delivered.Add(1) >= maxDeliveries {
					stop.Store(true)
				}
			}
		}()
		go func() {
			defer wg.Done()
			for !stop.Load() {
				if err := s.PurgeMessages(b); err != nil {
					t.Errorf("PurgeMessages: %v", err)
					return
				}
			}
		}()
	}
	deadline := time.Now().Add(10 * time.Second)
	for !stop.Load() && time.Now().Before(deadline) {
		time.Sleep(10 * time.Millisecond)
	}
	stop.Store(true)
	wg.Wait()

	// The enforcer is still alive if a delivery still completes (it would block forever otherwise,
	// had the goroutine died without taking the process with it).
	done := make(chan struct{})
	go func() {
		baselineDeliver(t, s, "final", size)
		close(done)
	}()
	select {
	case <-done:
	case <-time.After(5 * time.Second):
		t.Fatal("size enforcer no longer answers")
	}
	t.Logf("enforcer survived %d deliveries racing with purges", delivered.Load())
}
