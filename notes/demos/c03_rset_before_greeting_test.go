package smtp

// Demonstration for the C03 defect "MAIL accepted without a greeting" (copy into
// pkg/server/smtp to run; never committed to /repo). RSET is handled in every state and its
// reset() enters READY, so RSET as the first command takes the session from GREET to READY
// and MAIL/RCPT/DATA are accepted although the client never sent HELO/EHLO.

import (
	"testing"

	"github.com/inbucket/inbucket/v3/pkg/extension"
	"github.com/inbucket/inbucket/v3/pkg/test"
)

func TestVerifMailRequiresGreeting(t *testing.T) {
	ds := test.NewStore()
	server := setupSMTPServer(ds, extension.NewHost())
	// control: without RSET the un-greeted MAIL is refused
	playSession(t, server, []scriptStep{
		{"MAIL FROM:<john@gmail.com>", 503},
		{"QUIT", 221}})
	// RSET must not stand in for a greeting
	playSession(t, server, []scriptStep{
		{"RSET", 250},
		{"MAIL FROM:<john@gmail.com>", 503},
		{"QUIT", 221}})
}
