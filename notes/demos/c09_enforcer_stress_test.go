package mem

// Demonstration for C09/NIL/el (copy into pkg/storage/mem to run; never committed to /repo):
// concurrent add/remove on one mailbox with cap 1 and a size limit. On the unrepaired tree
// the enforcer goroutine dereferences a nil *list.Element and the process dies.

import (
	"sync"
	"testing"

	"github.com/inbucket/inbucket/v3/pkg/config"
	"github.com/inbucket/inbucket/v3/pkg/extension"
	"github.com/inbucket/inbucket/v3/pkg/message"
	"github.com/inbucket/inbucket/v3/pkg/extension/event"
	"strings"
	"io"
)

func TestVerifEnforcerStress(t *testing.T) {
	s, _ := New(config.Storage{Params: map[string]string{"maxkb": "1"}}, extension.NewHost())
	var wg sync.WaitGroup
	for g := 0; g < 8; g++ {
		wg.Add(1)
		go func() {
			defer wg.Done()
			for i := 0; i < 2000; i++ {
				d := &message.Delivery{Meta: event.MessageMetadata{Mailbox: "box"}, Reader: io.NopCloser(strings.NewReader("0123456789"))}
				id, err := s.AddMessage(d)
				if err != nil {
					t.Error(err)
					return
				}
				_ = s.RemoveMessage("box", id)
				_ = s.PurgeMessages("box")
			}
		}()
	}
	wg.Wait()
}
