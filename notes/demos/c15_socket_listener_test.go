package rest

// Demonstrations for the C15 known findings (copy into pkg/rest to run; never committed to
// /repo). They drive the real WebSocket listeners (without a network peer) against a real
// hub.

import (
	"context"
	"testing"
	"time"

	"github.com/inbucket/inbucket/v3/pkg/extension"
	"github.com/inbucket/inbucket/v3/pkg/extension/event"
	"github.com/inbucket/inbucket/v3/pkg/msghub"
)

type countListener struct{ n chan int }

func (c *countListener) Receive(msg event.MessageMetadata) error { c.n <- 1; return nil }
func (c *countListener) Delete(mailbox, id string) error          { return nil }

func startHub(t *testing.T) (*msghub.Hub, context.CancelFunc) {
	hub := msghub.New(10, extension.NewHost())
	ctx, cancel := context.WithCancel(context.Background())
	go hub.Start(ctx)
	return hub, cancel
}

// NOBLOCK: a listener nobody reads from stalls the hub after 100 events.
func TestVerifSlowListenerStallsHub(t *testing.T) {
	hub, cancel := startHub(t)
	defer cancel()
	_ = newMsgListenerV2(hub, "", 0) // no writer goroutine: nobody drains ml.c
	for i := 0; i < 101; i++ {
		hub.Dispatch(event.MessageMetadata{Mailbox: "m", ID: "x"})
	}
	synced := make(chan struct{})
	go func() { hub.Sync(); close(synced) }()
	select {
	case <-synced:
	case <-time.After(2 * time.Second):
		t.Fatal("hub is blocked inside msgListenerV2.Receive: Sync did not return")
	}
}

// CLOSED-TEST: Close with an event still buffered must still unregister the listener. (Before
// the fix Close consumed the buffered event, concluded "already closed" and left the listener
// registered: the following dispatches fill its buffer and wedge the hub.)
func TestVerifCloseWithBufferedEvent(t *testing.T) {
	hub, cancel := startHub(t)
	defer cancel()
	ml := newMsgListenerV2(hub, "", 0)
	hub.Dispatch(event.MessageMetadata{Mailbox: "m", ID: "1"})
	hub.Sync()
	ml.Close()
	for i := 0; i < 150; i++ {
		hub.Dispatch(event.MessageMetadata{Mailbox: "m", ID: "x"})
	}
	synced := make(chan struct{})
	go func() { hub.Sync(); close(synced) }()
	select {
	case <-synced:
	case <-time.After(2 * time.Second):
		t.Fatal("Close() with a buffered event left the listener registered: the hub is blocked on its full buffer")
	}
	if n := len(ml.c); n > 1 {
		t.Fatalf("closed listener still received %d events", n)
	}
}

// CLOSE-RACE: an event dispatched before the listener's removal is processed is sent on the
// closed channel; the panic aborts the broadcast, so another listener misses the event.
func TestVerifSendOnClosedAbortsBroadcast(t *testing.T) {
	for attempt := 0; attempt < 50; attempt++ {
		hub, cancel := startHub(t)
		other := &countListener{n: make(chan int, 10)}
		hub.AddListener(other)
		mls := make([]*msgListenerV1, 0, 8)
		for i := 0; i < 8; i++ {
			mls = append(mls, newMsgListenerV1(hub, "", 0))
		}
		hub.Sync()
		// Block the hub so that Dispatch is queued before the RemoveListener ops.
		gate := make(chan struct{})
		blocker := &gateListener{gate: gate}
		hub.AddListener(blocker)
		hub.Dispatch(event.MessageMetadata{Mailbox: "m", ID: "gate"}) // hub blocks in blocker.Receive
		hub.Dispatch(event.MessageMetadata{Mailbox: "m", ID: "victim"})
		for _, ml := range mls {
			ml.Close() // queues RemoveListener after the victim dispatch, closes c now
		}
		close(gate)
		hub.Sync()
		cancel()
		got := len(other.n)
		if got < 2 {
			t.Fatalf("attempt %d: well-behaved listener received %d of 2 events: broadcast aborted by send on closed channel", attempt, got)
		}
	}
}

type gateListener struct{ gate chan struct{} }

func (g *gateListener) Receive(msg event.MessageMetadata) error {
	if msg.ID == "gate" {
		<-g.gate
	}
	return nil
}
func (g *gateListener) Delete(mailbox, id string) error { return nil }

// History length 0 (INBUCKET_WEB_MONITORHISTORY=0): ring.New(0) is nil and Dispatch/Delete
// skipped the broadcast altogether, so monitors never saw a live event.
func TestVerifZeroHistoryStillBroadcasts(t *testing.T) {
	hub := msghub.New(0, extension.NewHost())
	ctx, cancel := context.WithCancel(context.Background())
	defer cancel()
	go hub.Start(ctx)
	l := &countListener{n: make(chan int, 10)}
	hub.AddListener(l)
	hub.Dispatch(event.MessageMetadata{Mailbox: "m", ID: "1"})
	hub.Sync()
	if got := len(l.n); got != 1 {
		t.Fatalf("listener received %d of 1 live events with history length 0", got)
	}
}

// A history longer than the listener's fixed queue: joining must deliver the whole retained
// history (the queue is sized from the configured history length).
func TestVerifJoinWithLongHistory(t *testing.T) {
	const history = 150
	hub := msghub.New(history, extension.NewHost())
	ctx, cancel := context.WithCancel(context.Background())
	defer cancel()
	go hub.Start(ctx)
	for i := 0; i < history; i++ {
		hub.Dispatch(event.MessageMetadata{Mailbox: "m", ID: "x"})
	}
	hub.Sync()
	ml := newMsgListenerV2(hub, "", history) // no writer yet: the replay must fit the queue
	hub.Sync()
	select {
	case <-ml.done:
		t.Fatalf("listener was dropped while the history was replayed to it (%d of %d events queued)", len(ml.c), history)
	default:
	}
	if got := len(ml.c); got != history {
		t.Fatalf("joined listener holds %d of %d history events", got, history)
	}
}
