package mem

// Demonstration for the C08 defect "cap eviction accounted after the new delivery" (copy into
// pkg/storage/mem to run; never committed to /repo). With a mailbox cap AND a size limit,
// AddMessage told the size enforcer about the new message before telling it about the
// messages the cap had just evicted. The enforcer, over its limit only because of the
// not-yet-subtracted evicted message, then evicted a live message that fitted.

import (
	"strings"
	"testing"
	"time"

	"github.com/inbucket/inbucket/v3/pkg/config"
	"github.com/inbucket/inbucket/v3/pkg/extension"
	"github.com/inbucket/inbucket/v3/pkg/message"
	"github.com/inbucket/inbucket/v3/pkg/extension/event"
)

func TestVerifCapAndSizeEvictOnlyWhatIsNecessary(t *testing.T) {
	s, err := New(config.Storage{MailboxMsgCap: 2, Params: map[string]string{"maxkb": "1"}}, extension.NewHost())
	if err != nil {
		t.Fatal(err)
	}
	body := strings.Repeat("x", 400) // 3 × 400 > 1024 ≥ 2 × 400
	for i, subj := range []string{"m1", "m2", "m3"} {
		_, err := s.AddMessage(&message.Delivery{
			Meta:   event.MessageMetadata{Mailbox: "box", Subject: subj, Date: time.Now().Add(time.Duration(i) * time.Second)},
			Reader: strings.NewReader(body),
		})
		if err != nil {
			t.Fatal(err)
		}
	}
	msgs, err := s.GetMessages("box")
	if err != nil {
		t.Fatal(err)
	}
	var got []string
	for _, m := range msgs {
		got = append(got, m.Subject())
	}
	if len(got) != 2 || got[0] != "m2" || got[1] != "m3" {
		t.Fatalf("mailbox holds %v, want [m2 m3]: 800 bytes fit the 1024 byte limit, the cap of 2 is met", got)
	}
}
