// ibcheck decides structural clauses of the inbucket properties C01..C19 from the source in
// the repository's working tree (go/packages + go/ssa + VTA call graph). It never runs
// inbucket code.
package main

import (
	"flag"
	"fmt"
	"os"
	"strings"
	"time"

	"ibcheck/eng"
	"ibcheck/rep"
	"ibcheck/rules"
	"ibcheck/selftest"
)

func main() {
	prop := flag.String("prop", "", "property id (C01..C19), or 'all'")
	tier := flag.String("tier", "quick", "quick|thorough")
	repo := flag.String("repo", "/repo", "repository working tree")
	verif := flag.String("verif", "/verif", "verification directory (evidence, known findings)")
	outDir := flag.String("out", "", "directory that receives evidence/ (default: the -verif directory)")
	dump := flag.String("dump", "", "debug: dump SSA of functions whose name contains this")
	mutant := flag.String("mutant", "", "selftest worker: run one overlay mutant by id and print its result")
	flag.Parse()
	if *mutant != "" {
		os.Exit(selftest.RunMutantWorker(*repo, *verif, *mutant))
	}
	props := []string{*prop}
	if *prop == "all" {
		props = rules.Props()
	}
	if *prop == "" && *dump == "" {
		fmt.Fprintln(os.Stderr, "usage: ibcheck -prop Cxx [-tier quick|thorough]")
		os.Exit(2)
	}
	t0 := time.Now()
	p, err := eng.Load(eng.LoadOpts{Dir: *repo})
	if *dump != "" {
		if err != nil {
			fmt.Fprintln(os.Stderr, err)
			os.Exit(2)
		}
		for _, fn := range p.Funcs {
			if strings.Contains(fn.String(), *dump) {
				fn.WriteTo(os.Stdout)
			}
		}
		return
	}
	nCan, canFail := selftest.Canaries(*verif)
	if len(canFail) > 0 {
		for _, f := range canFail {
			fmt.Printf("SELFTEST-FAILED canary %s\n", f)
		}
		fmt.Println("the analysis engines do not behave as expected on the canary fixture; no property verdict is given")
		os.Exit(1)
	}
	exit := 0
	for _, id := range props {
		r := rep.New(id, *tier, *verif, t0)
		r.OutDir = *outDir
		if err != nil {
			r.Fatal("LOAD-FAILED %v", err)
			if r.Finish() != 0 {
				exit = 1
			}
			continue
		}
		r.Selftest["canaries_passed"] = nCan
		c := &rules.Ctx{P: p, R: r, Tier: *tier}
		if !rules.Run(id, c) {
			fmt.Fprintf(os.Stderr, "unknown property %q\n", id)
			os.Exit(2)
		}
		if *tier == "thorough" {
			crossCheckPlatform(c, id, *repo, *verif)
		}
		selftest.Run(c, id, *repo, *verif)
		if r.Finish() != 0 {
			exit = 1
		}
	}
	os.Exit(exit)
}

// crossCheckPlatform (thorough tier) re-loads the repository for another GOOS/GOARCH and
// requires the same obligation keys with the same outcomes: a build-tagged or
// platform-specific file must not hide a writer, a call site or a handler from the rules.
func crossCheckPlatform(c *rules.Ctx, id, repo, verif string) {
	p2, err := eng.Load(eng.LoadOpts{Dir: repo, Env: []string{"GOOS=windows", "GOARCH=386", "CGO_ENABLED=0"}})
	if err != nil {
		c.R.Undecided(id+"/PLATFORM", "windows-386", "", "cannot load the repository for GOOS=windows GOARCH=386: %v", err)
		return
	}
	r2 := rep.New(id, "quick", verif, time.Now())
	r2.Quiet = true
	c2 := &rules.Ctx{P: p2, R: r2, Tier: "quick"}
	rules.Run(id, c2)
	a := map[string]rep.Outcome{}
	for _, o := range c.R.Obs {
		a[o.Key] = o.Outcome
	}
	var diffs []string
	b := map[string]bool{}
	for _, o := range r2.Obs {
		b[o.Key] = true
		if oo, ok := a[o.Key]; !ok {
			diffs = append(diffs, "only on windows/386: "+o.Key)
		} else if oo != o.Outcome {
			diffs = append(diffs, fmt.Sprintf("%s: %s here, %s on windows/386", o.Key, oo, o.Outcome))
		}
	}
	for k := range a {
		if !b[k] {
			diffs = append(diffs, "missing on windows/386: "+k)
		}
	}
	c.R.Rule(id+"/PLATFORM", "the obligation set and every outcome are identical when the repository is loaded for GOOS=windows GOARCH=386 (no platform-specific file hides a construct from the rules)")
	c.R.Analysed["platform cross-check: obligations compared"] = len(r2.Obs)
	if len(diffs) > 0 {
		c.R.Undecided(id+"/PLATFORM", "windows-386", "", "obligations differ between build configurations: %s", strings.Join(diffs, "; "))
	} else {
		c.R.Ok(id+"/PLATFORM", "windows-386", "", "%d obligations identical under GOOS=windows GOARCH=386", len(r2.Obs))
	}
}
