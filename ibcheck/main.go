// ibcheck decides structural clauses of the inbucket properties C01..C19 from the source in
// the repository's working tree (go/packages + go/ssa + VTA call graph). It never runs
// inbucket code.
package main

import (
	"flag"
	"fmt"
	"os"
	"strings"
	"time"

	"ibcheck/eng"
	"ibcheck/rep"
	"ibcheck/rules"
	"ibcheck/selftest"
)

func main() {
	prop := flag.String("prop", "", "property id (C01..C19), or 'all'")
	tier := flag.String("tier", "quick", "quick|thorough")
	repo := flag.String("repo", "/repo", "repository working tree")
	verif := flag.String("verif", "/verif", "verification directory (evidence, known findings)")
	dump := flag.String("dump", "", "debug: dump SSA of functions whose name contains this")
	mutant := flag.String("mutant", "", "selftest worker: run one overlay mutant by id and print its result")
	flag.Parse()
	if t := os.Getenv("VERIF_TIER"); t != "" && (t == "quick" || t == "thorough") {
		*tier = t
	}
	if *mutant != "" {
		os.Exit(selftest.RunMutantWorker(*repo, *verif, *mutant))
	}
	props := []string{*prop}
	if *prop == "all" {
		props = rules.Props()
	}
	if *prop == "" && *dump == "" {
		fmt.Fprintln(os.Stderr, "usage: ibcheck -prop Cxx [-tier quick|thorough]")
		os.Exit(2)
	}
	t0 := time.Now()
	p, err := eng.Load(eng.LoadOpts{Dir: *repo})
	if *dump != "" {
		if err != nil {
			fmt.Fprintln(os.Stderr, err)
			os.Exit(2)
		}
		for _, fn := range p.Funcs {
			if strings.Contains(fn.String(), *dump) {
				fn.WriteTo(os.Stdout)
			}
		}
		return
	}
	exit := 0
	for _, id := range props {
		r := rep.New(id, *tier, *verif, t0)
		if err != nil {
			r.Fatal("LOAD-FAILED %v", err)
			if r.Finish() != 0 {
				exit = 1
			}
			continue
		}
		c := &rules.Ctx{P: p, R: r, Tier: *tier}
		if !rules.Run(id, c) {
			fmt.Fprintf(os.Stderr, "unknown property %q\n", id)
			os.Exit(2)
		}
		selftest.Run(c, id, *repo, *verif)
		if r.Finish() != 0 {
			exit = 1
		}
	}
	os.Exit(exit)
}
