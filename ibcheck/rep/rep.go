// Package rep collects obligations of one property check and writes the evidence file,
// VIOLATION / KNOWN-FINDING lines and the exit status.
package rep

import (
	"encoding/json"
	"fmt"
	"os"
	"path/filepath"
	"sort"
	"strconv"
	"strings"
	"time"
)

// Outcome of an obligation.
type Outcome string

const (
	Discharged Outcome = "discharged"
	Violated   Outcome = "violated"
	Undecided  Outcome = "undecided"
)

// Ob is one decided rule instance.
type Ob struct {
	Key     string  `json:"key"`  // Cxx/RULE/<construct> — never a line number
	Rule    string  `json:"rule"` // the rule applied, in words
	Site    string  `json:"site"` // file:line (diagnostic only)
	Outcome Outcome `json:"outcome"`
	Detail  string  `json:"detail,omitempty"`
	Known   bool    `json:"known_finding,omitempty"`
}

// Report accumulates the obligations of one (property, tier) run.
type Report struct {
	Prop        string
	Tier        string
	Seed        int64
	Explanation string
	Assumptions []string
	NotDecided  []string // clauses of the property not decided by this check
	Obs         []Ob
	Analysed    map[string]int
	Selftest    map[string]interface{}
	rules       map[string]string
	start       time.Time
	VerifDir    string
	OutDir      string // where evidence is written (default: VerifDir)
	Quiet       bool
	fatal       []string
	keyCount    map[string]int
}

// New starts a report.
func New(prop, tier, verifDir string, start time.Time) *Report {
	seed, _ := strconv.ParseInt(os.Getenv("VERIF_SEED"), 10, 64)
	return &Report{Prop: prop, Tier: tier, Seed: seed, Analysed: map[string]int{}, rules: map[string]string{},
		start: start, VerifDir: verifDir, Selftest: map[string]interface{}{}}
}

// Rule registers the text of a rule id (e.g. "C06/SIZE/data").
func (r *Report) Rule(id, text string) { r.rules[id] = text }

func (r *Report) add(o Outcome, ruleID, construct, site, detail string) {
	key := ruleID
	if construct != "" {
		key = ruleID + "/" + construct
	}
	// same (rule, construct) decided more than once (e.g. two accesses in one function):
	// number the later ones so that keys stay unique and order-stable
	if r.keyCount == nil {
		r.keyCount = map[string]int{}
	}
	r.keyCount[key]++
	if n := r.keyCount[key]; n > 1 {
		key = fmt.Sprintf("%s#%d", key, n)
	}
	r.Obs = append(r.Obs, Ob{Key: key, Rule: r.rules[ruleID], Site: site, Outcome: o, Detail: detail})
}

// Ok records a discharged obligation.
func (r *Report) Ok(ruleID, construct, site, format string, a ...interface{}) {
	r.add(Discharged, ruleID, construct, site, fmt.Sprintf(format, a...))
}

// Bad records a violated obligation.
func (r *Report) Bad(ruleID, construct, site, format string, a ...interface{}) {
	r.add(Violated, ruleID, construct, site, fmt.Sprintf(format, a...))
}

// Undecided records an obligation the rule could not classify (fails the check).
func (r *Report) Undecided(ruleID, construct, site, format string, a ...interface{}) {
	r.add(Undecided, ruleID, construct, site, fmt.Sprintf(format, a...))
}

// Check is Ok when cond holds, Bad otherwise.
func (r *Report) Check(cond bool, ruleID, construct, site, okDetail, badDetail string) bool {
	if cond {
		r.Ok(ruleID, construct, site, "%s", okDetail)
	} else {
		r.Bad(ruleID, construct, site, "%s", badDetail)
	}
	return cond
}

// Floor is a vacuity floor: the rule must have inspected at least min instances.
func (r *Report) Floor(ruleID, what string, got, min int) {
	r.Analysed[ruleID+":"+what] = got
	if got < min {
		r.add(Undecided, ruleID, "vacuity:"+what, "", fmt.Sprintf("rule matched %d %s, fewer than the %d confirmed by hand on the reference tree: the rule would pass vacuously", got, what, min))
	}
}

// Fatal records an infrastructure failure (unresolved anchor, load failure).
func (r *Report) Fatal(format string, a ...interface{}) {
	msg := fmt.Sprintf(format, a...)
	r.fatal = append(r.fatal, msg)
	r.Obs = append(r.Obs, Ob{Key: r.Prop + "/INFRA/" + msg, Rule: "every anchor the rules name must resolve in the type-checked program and the program must load without errors; otherwise nothing can be decided", Outcome: Undecided, Detail: msg})
}

// Count adds to an analysed counter.
func (r *Report) Count(what string, n int) { r.Analysed[what] += n }

// KnownFindings is the committed file of recorded findings.
type KnownFindings struct {
	Findings []struct {
		Property       string `json:"property"`
		Key            string `json:"key"`
		What           string `json:"what"`
		DemonstratedBy string `json:"demonstrated_by"`
	} `json:"findings"`
	Fixed []string `json:"fixed"`
}

func loadKnown(dir string) (*KnownFindings, error) {
	b, err := os.ReadFile(filepath.Join(dir, "known_findings.json"))
	if err != nil {
		if os.IsNotExist(err) {
			return &KnownFindings{}, nil
		}
		return nil, err
	}
	kf := &KnownFindings{}
	if err := json.Unmarshal(b, kf); err != nil {
		return nil, fmt.Errorf("known_findings.json: %w", err)
	}
	return kf, nil
}

// Finish writes the evidence and replay files, prints verdict lines and returns the exit code.
func (r *Report) Finish() int {
	kf, err := loadKnown(r.VerifDir)
	if err != nil {
		r.Fatal("%v", err)
		kf = &KnownFindings{}
	}
	known := map[string]string{}
	for _, f := range kf.Findings {
		if f.Property == r.Prop {
			known[f.Key] = f.What
		}
	}
	sort.SliceStable(r.Obs, func(i, j int) bool { return r.Obs[i].Key < r.Obs[j].Key })
	var unlisted []Ob
	nViol, nUndec, nDis, nKnown := 0, 0, 0, 0
	distinct := map[string]bool{}
	for i := range r.Obs {
		o := &r.Obs[i]
		distinct[o.Key] = true
		switch o.Outcome {
		case Discharged:
			nDis++
		case Violated:
			nViol++
			if what, ok := known[o.Key]; ok {
				o.Known = true
				nKnown++
				fmt.Printf("KNOWN-FINDING: property=%s %s %s\n", r.Prop, o.Key, what)
			} else {
				unlisted = append(unlisted, *o)
			}
		case Undecided:
			nUndec++
			unlisted = append(unlisted, *o)
		}
	}
	out := r.OutDir
	if out == "" {
		out = r.VerifDir
	}
	evDir := filepath.Join(out, "evidence")
	_ = os.MkdirAll(evDir, 0o755)
	replay := filepath.Join(evDir, r.Prop+".violations.json")
	_ = os.Remove(replay)

	samples := make([]interface{}, 0, len(r.Obs))
	for _, o := range r.Obs {
		samples = append(samples, o)
	}
	ev := map[string]interface{}{
		"property_id": r.Prop,
		"tier":        r.Tier,
		"seed":        r.Seed,
		"level":       "other",
		"coverage": map[string]interface{}{
			"explanation":         r.Explanation,
			"obligations":         len(r.Obs),
			"discharged":          nDis,
			"violated":            nViol,
			"known_findings":      nKnown,
			"undecided":           nUndec,
			"evaluations":         len(r.Obs),
			"distinct_nontrivial": len(distinct),
			"rule":                "one obligation per (rule, construct) instance found in /repo's current source; distinct = distinct obligation keys, each of which inspected at least one construct of the type-checked program",
			"rules":               r.rules,
			"samples":             samples,
			"analysed":            r.Analysed,
			"selftest":            r.Selftest,
			"not_decided":         r.NotDecided,
			"exhaustive":          false,
		},
		"assumptions": r.Assumptions,
		"wall_s":      time.Since(r.start).Seconds(),
		"violations":  len(unlisted),
	}
	if len(r.fatal) > 0 {
		ev["coverage"].(map[string]interface{})["fatal"] = r.fatal
	}
	b, _ := json.MarshalIndent(ev, "", " ")
	if err := os.WriteFile(filepath.Join(evDir, r.Prop+".json"), append(b, '\n'), 0o644); err != nil {
		fmt.Fprintf(os.Stderr, "cannot write evidence: %v\n", err)
		return 2
	}
	if !r.Quiet {
		fmt.Printf("%s tier=%s obligations=%d discharged=%d violated=%d (known=%d) undecided=%d wall=%.1fs\n",
			r.Prop, r.Tier, len(r.Obs), nDis, nViol, nKnown, nUndec, time.Since(r.start).Seconds())
	}
	for _, f := range r.fatal {
		fmt.Printf("CHECK-FAILED property=%s %s\n", r.Prop, f)
	}
	if len(unlisted) > 0 {
		rb, _ := json.MarshalIndent(map[string]interface{}{"property_id": r.Prop, "violations": unlisted}, "", " ")
		_ = os.WriteFile(replay, append(rb, '\n'), 0o644)
		for _, o := range unlisted {
			fmt.Printf("  %s %s at %s\n    rule: %s\n    %s\n", strings.ToUpper(string(o.Outcome)), o.Key, o.Site, o.Rule, o.Detail)
		}
		fmt.Printf("VIOLATION property=%s replay=%s\n", r.Prop, replay)
		return 1
	}
	if len(r.fatal) > 0 {
		return 1
	}
	return 0
}
