package eng

import (
	"go/token"

	"golang.org/x/tools/go/ssa"
)

// CellOf resolves an address value to the local variable cell (Alloc) it denotes, looking
// through closure free variables back to the defining function. nil if addr is not a
// local cell.
func CellOf(addr ssa.Value) *ssa.Alloc {
	for depth := 0; depth < 8; depth++ {
		switch x := addr.(type) {
		case *ssa.Alloc:
			return x
		case *ssa.FreeVar:
			g := x.Parent()
			idx := -1
			for i, fv := range g.FreeVars {
				if fv == x {
					idx = i
				}
			}
			par := g.Parent()
			if idx < 0 || par == nil {
				return nil
			}
			var bound ssa.Value
			EachInstr(par, func(in ssa.Instruction) {
				if mc, ok := in.(*ssa.MakeClosure); ok && mc.Fn == ssa.Value(g) && idx < len(mc.Bindings) {
					bound = mc.Bindings[idx]
				}
			})
			if bound == nil {
				return nil
			}
			addr = bound
		default:
			return nil
		}
	}
	return nil
}

// addrsOfCell returns every value (the Alloc itself and the FreeVars bound to it in nested
// closures) that denotes cell a.
func addrsOfCell(a *ssa.Alloc) []ssa.Value {
	out := []ssa.Value{a}
	var walk func(fn *ssa.Function, addr ssa.Value)
	walk = func(fn *ssa.Function, addr ssa.Value) {
		EachInstr(fn, func(in ssa.Instruction) {
			mc, ok := in.(*ssa.MakeClosure)
			if !ok {
				return
			}
			g := mc.Fn.(*ssa.Function)
			for i, b := range mc.Bindings {
				if b == addr && i < len(g.FreeVars) {
					out = append(out, g.FreeVars[i])
					walk(g, g.FreeVars[i])
				}
			}
		})
	}
	walk(a.Parent(), a)
	return out
}

// CellStores returns every store into cell a, in its function and nested closures.
func CellStores(a *ssa.Alloc) []*ssa.Store {
	var out []*ssa.Store
	addrs := addrsOfCell(a)
	isAddr := func(v ssa.Value) bool {
		for _, x := range addrs {
			if x == v {
				return true
			}
		}
		return false
	}
	for _, addr := range addrs {
		for _, ref := range *addr.Referrers() {
			if st, ok := ref.(*ssa.Store); ok && st.Addr == addr {
				// `return namedResult` spills a self-assignment (*c = *c): not a writer
				if la := LoadAddr(st.Val); la != nil && isAddr(la) {
					continue
				}
				out = append(out, st)
			}
		}
	}
	return out
}

// ReturnResults returns the values returned by ret, looking through the spill that go/ssa
// inserts in functions with defers (results are stored to locals before rundefers and
// re-loaded for the return).
func ReturnResults(ret *ssa.Return) []ssa.Value {
	out := make([]ssa.Value, len(ret.Results))
	b := ret.Block()
	for i, r := range ret.Results {
		out[i] = r
		ad := LoadAddr(r)
		if ad == nil {
			continue
		}
		al, ok := ad.(*ssa.Alloc)
		if !ok {
			continue
		}
		// only a cell that is written and read as a whole: a struct local whose fields are
		// updated in place (msg.From = …; return msg) is not the value last stored to it
		whole := true
		if al.Referrers() != nil {
			for _, ref := range *al.Referrers() {
				switch x := ref.(type) {
				case *ssa.Store:
					if x.Addr != ssa.Value(al) {
						whole = false
					}
				case *ssa.UnOp, *ssa.DebugRef, *ssa.MakeClosure:
				default:
					whole = false
				}
			}
		}
		if !whole {
			continue
		}
		// latest store to the local in this block before the load; for heap (captured)
		// cells only if no call intervenes
		li := idxIn(b, r.(ssa.Instruction))
		for j := li - 1; j >= 0; j-- {
			if st, ok := b.Instrs[j].(*ssa.Store); ok && st.Addr == ad {
				out[i] = st.Val
				break
			}
			if al.Heap {
				switch b.Instrs[j].(type) {
				case *ssa.Call, *ssa.Go, *ssa.RunDefers:
					j = -1
				}
			}
		}
	}
	return out
}

// IsRecoverBlock reports whether b is the synthetic recover block of its function (reached
// only when a deferred call recovers from a panic).
func IsRecoverBlock(b *ssa.BasicBlock) bool {
	return b.Parent().Recover == b
}

// DefersMayRecover reports whether any deferred call of fn can call the recover builtin
// (directly, in a deferred closure).
func DefersMayRecover(fn *ssa.Function) bool {
	may := false
	for _, d := range Defers(fn) {
		g := StaticCallee(d.Common())
		if g == nil {
			if !d.Common().IsInvoke() {
				may = true // unknown function value
			}
			continue
		}
		for _, h := range WithAnons(g) {
			EachInstr(h, func(in ssa.Instruction) {
				if c, ok := in.(*ssa.Call); ok && CalleeName(c.Common()) == "builtin.recover" {
					may = true
				}
			})
		}
	}
	return may
}

// CellEscapes reports whether the cell's address is used other than by load/store/closure
// capture (e.g. passed to a call), in which case its stores are not all visible.
func CellEscapes(a *ssa.Alloc) bool {
	for _, addr := range addrsOfCell(a) {
		for _, ref := range *addr.Referrers() {
			switch x := ref.(type) {
			case *ssa.Store:
				if x.Addr != addr {
					return true
				}
			case *ssa.UnOp:
				if x.Op != token.MUL {
					return true
				}
			case *ssa.MakeClosure, *ssa.DebugRef:
			default:
				return true
			}
		}
	}
	return false
}

// LoadAddr returns the address loaded by v if v is a load.
func LoadAddr(v ssa.Value) ssa.Value {
	if u, ok := v.(*ssa.UnOp); ok && u.Op == token.MUL {
		return u.X
	}
	return nil
}

// clobbers: instructions that may change memory (stores, calls, go, defers run).
func clobbers(in ssa.Instruction) bool {
	switch in.(type) {
	case *ssa.Store, *ssa.Call, *ssa.Go, *ssa.RunDefers, *ssa.MapUpdate, *ssa.Send:
		return true
	}
	return false
}

// SameLoad reports whether loads a and b (a dominating b, same function) read the same
// address with no clobbering instruction on any path from a to b.
func SameLoad(a, b ssa.Value) bool {
	if a == b {
		return true
	}
	ia, ok1 := a.(*ssa.UnOp)
	ib, ok2 := b.(*ssa.UnOp)
	if !ok1 || !ok2 || ia.Op != token.MUL || ib.Op != token.MUL {
		return false
	}
	if ia.Parent() != ib.Parent() || !sameAddr(ia.X, ib.X) {
		return false
	}
	if !Dominates(ia, ib) {
		return false
	}
	// collect clobbers reachable from a before b
	var cl []ssa.Instruction
	s := &Search{Target: func(in ssa.Instruction) bool {
		if clobbers(in) {
			cl = append(cl, in)
		}
		return false
	}, Avoid: func(in ssa.Instruction) bool { return in == ssa.Instruction(ib) }}
	s.After(ia)
	for _, c := range cl {
		// a path that re-executes a re-establishes the equivalence, so avoid a
		t := &Search{Target: func(in ssa.Instruction) bool { return in == ssa.Instruction(ib) },
			Avoid: func(in ssa.Instruction) bool { return in == ssa.Instruction(ia) }}
		if t.After(c) != nil {
			return false
		}
	}
	return true
}

// sameAddr: identical address values, or field addresses of the same field on the same
// base (SSA has no CSE, so &s.f appears once per use).
func sameAddr(x, y ssa.Value) bool {
	if x == y {
		return true
	}
	fx, ok1 := x.(*ssa.FieldAddr)
	fy, ok2 := y.(*ssa.FieldAddr)
	if ok1 && ok2 && fx.Field == fy.Field {
		if fx.X == fy.X {
			return true
		}
		// base itself a load of the same address
		if SameLoadNoDom(fx.X, fy.X) {
			return true
		}
		// base itself a field address (a record held by value: &m.acct.el)
		if _, nested := fx.X.(*ssa.FieldAddr); nested && sameAddr(fx.X, fy.X) {
			return true
		}
	}
	return false
}

// SameLoadNoDom is SameLoad in whichever order dominates.
func SameLoadNoDom(a, b ssa.Value) bool {
	if a == b {
		return true
	}
	ia, ok1 := a.(ssa.Instruction)
	ib, ok2 := b.(ssa.Instruction)
	if !ok1 || !ok2 {
		return false
	}
	if ia.Parent() != ib.Parent() {
		return false
	}
	if Dominates(ia, ib) {
		return SameLoad(a, b)
	}
	if Dominates(ib, ia) {
		return SameLoad(b, a)
	}
	return false
}

// CellLoads returns every load of cell a, in its function and nested closures.
func CellLoads(a *ssa.Alloc) []*ssa.UnOp {
	var out []*ssa.UnOp
	for _, addr := range addrsOfCell(a) {
		if addr.Referrers() == nil {
			continue
		}
		for _, ref := range *addr.Referrers() {
			if u, ok := ref.(*ssa.UnOp); ok && u.Op == token.MUL && u.X == addr {
				out = append(out, u)
			}
		}
	}
	return out
}

// ResolveLocalLoad follows a load of a non-escaping local cell back to the value last stored
// into it on the straight-line path that leads to the load: backwards through the load's
// block and, while a block has a single predecessor, through that predecessor. It returns v
// itself when the path forks before a store is found. (Named results that are assigned several
// times — `name, err := f(); if err != nil { return err }` repeated — make every `return err`
// a load of one cell with many stores; which store reaches a given return is decided by the
// path, and on the error edge of a call that path is a straight line.)
func ResolveLocalLoad(v ssa.Value) ssa.Value {
	for depth := 0; depth < 6; depth++ {
		u, ok := v.(*ssa.UnOp)
		if !ok || u.Op != token.MUL {
			return v
		}
		cell, ok := u.X.(*ssa.Alloc)
		if !ok || CellEscapes(cell) {
			return v
		}
		b := u.Block()
		idx := idxIn(b, u)
		var found ssa.Value
		for hops := 0; hops < 8 && found == nil; hops++ {
			for i := idx - 1; i >= 0; i-- {
				if st, ok := b.Instrs[i].(*ssa.Store); ok && st.Addr == ssa.Value(cell) {
					found = st.Val
					break
				}
			}
			if found != nil || len(b.Preds) != 1 {
				break
			}
			b = b.Preds[0]
			idx = len(b.Instrs)
		}
		if found == nil {
			return v
		}
		v = found
	}
	return v
}
