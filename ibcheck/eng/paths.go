package eng

import (
	"go/token"

	"golang.org/x/tools/go/ssa"
)

// PathFacts is what is known on one path prefix: the instructions executed so far, the value
// each phi took (by the predecessor the path came through), and nil facts about values.
type PathFacts struct {
	Trace []ssa.Instruction
	Phi   map[*ssa.Phi]ssa.Value
	Nil   map[ssa.Value]NS
	// stack-allocated locals (named results, variables go/ssa did not lift): the value last
	// stored on this path, and what each executed load of such a local read
	cell map[*ssa.Alloc]ssa.Value
	load map[*ssa.UnOp]ssa.Value
}

// Resolve follows phis to the value they hold on this path.
func (pf *PathFacts) Resolve(v ssa.Value) ssa.Value {
	for i := 0; i < 8; i++ {
		switch x := v.(type) {
		case *ssa.Phi:
			w, has := pf.Phi[x]
			if !has {
				return v
			}
			v = w
		case *ssa.UnOp:
			w, has := pf.load[x]
			if !has {
				return v
			}
			v = w
		default:
			return v
		}
	}
	return v
}

// NilState returns what the path knows about v (after phi resolution); NSMaybe if nothing.
func (pf *PathFacts) NilState(v ssa.Value) NS {
	v = pf.Resolve(v)
	if IsNilConst(v) {
		return NSNil
	}
	if s, ok := pf.Nil[v]; ok {
		return s
	}
	return NSMaybe
}

// Executed reports whether in was executed on this path.
func (pf *PathFacts) Executed(in ssa.Instruction) bool {
	for _, x := range pf.Trace {
		if x == in {
			return true
		}
	}
	return false
}

// PathsTo enumerates the feasible paths of at's function from its entry to at (each CFG edge
// at most once per path) and calls visit with the facts holding just before at. Branches on
// `x == nil` / `x != nil` refine the nil state of the value x holds on the path (phis are
// resolved by the predecessor taken), and an edge that contradicts what the path already
// knows is not taken. This is what makes an error variable that is re-assigned along the way
// (`err = w.Flush()` under `if err == nil`) tractable: after `if err != nil { return }` the
// path knows which assignment err came from and that it was nil.
// It returns false when the path bound was exceeded (the caller must then not conclude).
func PathsTo(at ssa.Instruction, maxPaths int, visit func(pf *PathFacts)) bool {
	return EnumPaths(at.Parent(), maxPaths, func(in ssa.Instruction, pf *PathFacts) bool {
		if in == at {
			visit(pf)
			return true
		}
		return false
	})
}

// EnumPaths enumerates the feasible paths of fn from its entry (each CFG edge at most once per
// path). before is called ahead of every instruction with the facts of the path so far; when
// it returns true the path ends there. The result is false when the path bound was exceeded.
func EnumPaths(fn *ssa.Function, maxPaths int, before func(in ssa.Instruction, pf *PathFacts) bool) bool {
	if len(fn.Blocks) == 0 {
		return true
	}
	type edge struct{ from, to int }
	count := 0
	var walk func(b *ssa.BasicBlock, pf *PathFacts, used map[edge]bool)
	walk = func(b *ssa.BasicBlock, pf *PathFacts, used map[edge]bool) {
		if count > maxPaths {
			return
		}
		n0 := len(pf.Trace)
		for _, in := range b.Instrs {
			if before(in, pf) {
				count++
				pf.Trace = pf.Trace[:n0]
				return
			}
			pf.Trace = append(pf.Trace, in)
			// a value computed again (a later loop iteration) is a new value: what the path
			// knew about the previous one no longer applies
			if v, isV := in.(ssa.Value); isV {
				if _, has := pf.Nil[v]; has {
					nn := make(map[ssa.Value]NS, len(pf.Nil))
					for kk, vv := range pf.Nil {
						if kk != v {
							nn[kk] = vv
						}
					}
					pf.Nil = nn
				}
			}
			switch x := in.(type) {
			case *ssa.Store:
				if al, ok := x.Addr.(*ssa.Alloc); ok && !al.Heap {
					nc := make(map[*ssa.Alloc]ssa.Value, len(pf.cell)+1)
					for kk, vv := range pf.cell {
						nc[kk] = vv
					}
					nc[al] = pf.Resolve(x.Val)
					pf.cell = nc
				}
			case *ssa.UnOp:
				if al, ok := x.X.(*ssa.Alloc); ok && x.Op == token.MUL && !al.Heap {
					if cv, has := pf.cell[al]; has {
						nl := make(map[*ssa.UnOp]ssa.Value, len(pf.load)+1)
						for kk, vv := range pf.load {
							nl[kk] = vv
						}
						nl[x] = cv
						pf.load = nl
					}
				}
			}
		}
		if len(b.Succs) == 0 {
			count++
		}
		for k, s := range b.Succs {
			e := edge{b.Index, s.Index}
			if used[e] {
				continue
			}
			npf := &PathFacts{Trace: pf.Trace, Phi: pf.Phi, Nil: pf.Nil, cell: pf.cell, load: pf.load}
			if len(b.Succs) == 2 {
				if r, ok := EdgeRel(b, k); ok && (r.Op == token.EQL || r.Op == token.NEQ) {
					x, y := r.X, r.Y
					if IsNilConst(x) {
						x, y = y, x
					}
					if IsNilConst(y) {
						want := NSNon
						if r.Op == token.EQL {
							want = NSNil
						}
						xv := pf.Resolve(x)
						cur := pf.NilState(xv)
						if cur&want == 0 {
							continue // contradicts the path
						}
						nn := make(map[ssa.Value]NS, len(pf.Nil)+1)
						for kk, vv := range pf.Nil {
							nn[kk] = vv
						}
						nn[xv] = cur & want
						npf.Nil = nn
					}
				}
			}
			// phis of the successor take the operand of this edge (evaluated simultaneously)
			pi := -1
			for i, p := range s.Preds {
				if p == b {
					pi = i
				}
			}
			var np map[*ssa.Phi]ssa.Value
			for _, in := range s.Instrs {
				ph, ok := in.(*ssa.Phi)
				if !ok {
					break
				}
				if pi < 0 || pi >= len(ph.Edges) {
					continue
				}
				if np == nil {
					np = make(map[*ssa.Phi]ssa.Value, len(pf.Phi)+2)
					for kk, vv := range pf.Phi {
						np[kk] = vv
					}
				}
				np[ph] = pf.Resolve(ph.Edges[pi])
			}
			if np != nil {
				npf.Phi = np
			}
			used[e] = true
			walk(s, npf, used)
			delete(used, e)
		}
		pf.Trace = pf.Trace[:n0]
	}
	walk(fn.Blocks[0], &PathFacts{Phi: map[*ssa.Phi]ssa.Value{}, Nil: map[ssa.Value]NS{}}, map[edge]bool{})
	return count <= maxPaths
}

// SucceededBefore reports whether on every feasible path from the function's entry to at the
// call op was executed and its error result (errv; nil if the call has none) was nil when at
// is reached. A call without error result only needs to have been executed.
func SucceededBefore(op ssa.Instruction, errv ssa.Value, at ssa.Instruction) bool {
	if op.Parent() != at.Parent() {
		return false
	}
	okAll, n := true, 0
	complete := PathsTo(at, 5000, func(pf *PathFacts) {
		n++
		if !pf.Executed(op) {
			okAll = false
			return
		}
		if errv != nil && pf.NilState(errv) != NSNil {
			okAll = false
		}
	})
	return complete && okAll && n > 0
}

// OrderedBefore reports whether on every feasible path to at the instructions seq were all
// executed, their first executions in the given order.
func OrderedBefore(seq []ssa.Instruction, at ssa.Instruction) bool {
	okAll, n := true, 0
	complete := PathsTo(at, 5000, func(pf *PathFacts) {
		n++
		last := -1
		for _, want := range seq {
			pos := -1
			for i, x := range pf.Trace {
				if x == want {
					pos = i
					break
				}
			}
			if pos < 0 || pos < last {
				okAll = false
				return
			}
			last = pos
		}
	})
	return complete && okAll && n > 0
}
