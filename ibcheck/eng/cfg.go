package eng

import (
	"fmt"
	"go/constant"
	"go/token"
	"go/types"
	"sort"
	"strings"

	"golang.org/x/tools/go/callgraph"
	"golang.org/x/tools/go/ssa"
)

// ---------- callee resolution ----------

// StaticCallee returns the statically known callee (looking through generic instantiation
// to keep the instance), or nil for dynamic calls.
func StaticCallee(c *ssa.CallCommon) *ssa.Function {
	if c == nil {
		return nil
	}
	if f := c.StaticCallee(); f != nil {
		return f
	}
	// closure values: MakeClosure called directly
	if mc, ok := c.Value.(*ssa.MakeClosure); ok {
		if f, ok := mc.Fn.(*ssa.Function); ok {
			return f
		}
	}
	return nil
}

// CalleeObj returns the types.Func named by a call: the interface method for invoke-mode
// calls, the (generic-origin) object of the static callee otherwise. nil for closures and
// calls through function values.
func CalleeObj(c *ssa.CallCommon) *types.Func {
	if c == nil {
		return nil
	}
	if c.IsInvoke() {
		return c.Method
	}
	f := StaticCallee(c)
	if f == nil {
		return nil
	}
	return FuncObj(f)
}

// FuncObj returns the declaring object of fn (the generic origin for instantiations).
func FuncObj(f *ssa.Function) *types.Func {
	if f == nil {
		return nil
	}
	if o := f.Origin(); o != nil {
		f = o
	}
	if obj, ok := f.Object().(*types.Func); ok {
		return obj.Origin()
	}
	return nil
}

// CalleeName returns the fully qualified name of the callee ("os.Create",
// "(*bufio.Writer).Flush", "(io.Closer).Close") or "" when unknown.
func CalleeName(c *ssa.CallCommon) string {
	if o := CalleeObj(c); o != nil {
		return o.FullName()
	}
	if b, ok := c.Value.(*ssa.Builtin); ok {
		return "builtin." + b.Name()
	}
	return ""
}

// IsCallTo reports whether the call names obj (same origin object).
func IsCallTo(c *ssa.CallCommon, obj *types.Func) bool {
	if obj == nil {
		return false
	}
	o := CalleeObj(c)
	return o != nil && o.Origin() == obj.Origin()
}

// CallOf returns the CallCommon of an instruction if it is a call/go/defer.
func CallOf(in ssa.Instruction) *ssa.CallCommon {
	if ci, ok := in.(ssa.CallInstruction); ok {
		return ci.Common()
	}
	return nil
}

// ---------- iteration ----------

// EachInstr visits every instruction of fn (not its closures).
func EachInstr(fn *ssa.Function, f func(ssa.Instruction)) {
	for _, b := range fn.Blocks {
		for _, in := range b.Instrs {
			f(in)
		}
	}
}

// WithAnons returns fn and all closures nested in it.
func WithAnons(fn *ssa.Function) []*ssa.Function {
	out := []*ssa.Function{fn}
	for _, a := range fn.AnonFuncs {
		out = append(out, WithAnons(a)...)
	}
	return out
}

// EachCallDeep visits every call instruction in fn and its closures.
func EachCallDeep(fn *ssa.Function, f func(fn *ssa.Function, ci ssa.CallInstruction)) {
	for _, g := range WithAnons(fn) {
		g := g
		EachInstr(g, func(in ssa.Instruction) {
			if ci, ok := in.(ssa.CallInstruction); ok {
				f(g, ci)
			}
		})
	}
}

// ---------- path search ----------

// Pred is a predicate over instructions.
type Pred func(ssa.Instruction) bool

// EdgeOK filters CFG edges: from block b to its succIdx-th successor.
type EdgeOK func(b *ssa.BasicBlock, succIdx int) bool

// Search describes a reach-avoid query. With Deep set, a call of a module function with a
// body is looked into: if a Target is reachable inside the callee (before any Avoid) the
// search succeeds there; if every path through the callee passes an Avoid the call blocks
// the path; otherwise the call is transparent. This makes must-pass-through and
// unreachability rules independent of how the code is split into helper functions.
type Search struct {
	Target Pred
	Avoid  Pred
	Edge   EdgeOK
	Deep   bool // look through calls for Avoid (a callee that always passes an Avoid blocks the path)
	// DeepHit: also look for the Target inside callees. Use a Target that is meaningful
	// anywhere (a specific call or store), never "any return".
	DeepHit bool
	hitM    map[*ssa.Function]*deepRes
	passM   map[*ssa.Function]*deepRes
}

type deepRes struct {
	busy bool
	hit  ssa.Instruction
	ok   bool
}

func idxIn(b *ssa.BasicBlock, in ssa.Instruction) int {
	for i, x := range b.Instrs {
		if x == in {
			return i
		}
	}
	return -1
}

// deepCallee returns the module function a call instruction statically invokes, if the
// search should look into it.
func (s *Search) deepCallees(in ssa.Instruction) []*ssa.Function {
	if !s.Deep {
		return nil
	}
	switch x := in.(type) {
	case *ssa.Call:
		if g := StaticCallee(x.Common()); g != nil && InModule(g) && len(g.Blocks) > 0 {
			return []*ssa.Function{g}
		}
	case *ssa.RunDefers:
		var out []*ssa.Function
		ds := Defers(in.Parent())
		for i := len(ds) - 1; i >= 0; i-- {
			if g := StaticCallee(ds[i].Common()); g != nil && InModule(g) && len(g.Blocks) > 0 {
				out = append(out, g)
			}
		}
		return out
	}
	return nil
}

// hitIn: first Target reachable inside g (deep), avoiding Avoid.
func (s *Search) hitIn(g *ssa.Function) ssa.Instruction {
	if s.hitM == nil {
		s.hitM = map[*ssa.Function]*deepRes{}
	}
	if d, ok := s.hitM[g]; ok {
		return d.hit
	}
	d := &deepRes{busy: true}
	s.hitM[g] = d
	d.hit = s.walk(g.Blocks[0], 0, false)
	d.busy = false
	return d.hit
}

// passable: some return of g is reachable from its entry without meeting an Avoid.
func (s *Search) passable(g *ssa.Function) bool {
	if s.passM == nil {
		s.passM = map[*ssa.Function]*deepRes{}
	}
	if d, ok := s.passM[g]; ok {
		if d.busy {
			return true // recursion: assume passable
		}
		return d.ok
	}
	d := &deepRes{busy: true}
	s.passM[g] = d
	d.ok = s.walk(g.Blocks[0], 0, true) != nil
	d.busy = false
	return d.ok
}

// scan walks instrs[from:] of b. In pass mode the target is "a return of this function".
// Returns (found, blocked).
func (s *Search) scan(b *ssa.BasicBlock, from int, passMode bool) (ssa.Instruction, bool) {
	for i := from; i < len(b.Instrs); i++ {
		in := b.Instrs[i]
		if passMode {
			if _, isRet := in.(*ssa.Return); isRet {
				if IsRecoverBlock(b) && !DefersMayRecover(b.Parent()) {
					return nil, true
				}
				return in, false
			}
		} else if s.Target != nil && s.Target(in) {
			return in, false
		}
		if s.Avoid != nil && s.Avoid(in) {
			return nil, true
		}
		for _, g := range s.deepCallees(in) {
			if !passMode && s.DeepHit {
				if d, seen := s.hitM[g]; !(seen && d.busy) {
					if h := s.hitIn(g); h != nil {
						return h, false
					}
				}
			}
			// a deferred function certainly runs at this RunDefers only if its defer
			// statement was executed on every path leading here
			if rd, isRD := in.(*ssa.RunDefers); isRD && !deferDominates(g, rd) {
				continue
			}
			if !s.passable(g) {
				return nil, true
			}
		}
	}
	return nil, false
}

// After reports the first Target instruction reachable from just after start along a path
// containing no Avoid instruction (Target is tested before Avoid on each instruction).
func (s *Search) After(start ssa.Instruction) ssa.Instruction {
	b := start.Block()
	i := idxIn(b, start)
	return s.walk(b, i+1, false)
}

// FromEntry is After for the function entry.
func (s *Search) FromEntry(fn *ssa.Function) ssa.Instruction {
	if len(fn.Blocks) == 0 {
		return nil
	}
	return s.walk(fn.Blocks[0], 0, false)
}

// FromBlockStart starts at the first instruction of b.
func (s *Search) FromBlockStart(b *ssa.BasicBlock) ssa.Instruction {
	return s.walk(b, 0, false)
}

func (s *Search) from(b *ssa.BasicBlock, idx int) ssa.Instruction { return s.walk(b, idx, false) }

func (s *Search) walk(b *ssa.BasicBlock, idx int, passMode bool) ssa.Instruction {
	if t, blocked := s.scan(b, idx, passMode); t != nil {
		return t
	} else if blocked {
		return nil
	}
	seen := map[*ssa.BasicBlock]bool{}
	work := []*ssa.BasicBlock{}
	push := func(from *ssa.BasicBlock) {
		for k, su := range from.Succs {
			if s.Edge != nil && !s.Edge(from, k) {
				continue
			}
			if !seen[su] {
				seen[su] = true
				work = append(work, su)
			}
		}
	}
	push(b)
	for len(work) > 0 {
		c := work[len(work)-1]
		work = work[:len(work)-1]
		if t, blocked := s.scan(c, 0, passMode); t != nil {
			return t
		} else if blocked {
			continue
		}
		push(c)
	}
	return nil
}

// IsReturnOf matches the (non-recover) returns of fn only; safe as a deep-search target.
func IsReturnOf(fn *ssa.Function) Pred {
	return func(in ssa.Instruction) bool {
		_, ok := in.(*ssa.Return)
		return ok && in.Parent() == fn && !(IsRecoverBlock(in.Block()) && !DefersMayRecover(fn))
	}
}

// IsReturn matches return instructions.
func IsReturn(in ssa.Instruction) bool { _, ok := in.(*ssa.Return); return ok }

// IsExit matches return and panic instructions.
func IsExit(in ssa.Instruction) bool {
	switch in.(type) {
	case *ssa.Return, *ssa.Panic:
		return true
	}
	return false
}

// Or combines predicates.
func Or(ps ...Pred) Pred {
	return func(in ssa.Instruction) bool {
		for _, p := range ps {
			if p != nil && p(in) {
				return true
			}
		}
		return false
	}
}

// CallPred builds a predicate matching call (not go/defer) instructions whose common
// satisfies f. RunDefers instructions match when the function has a matching Defer.
func CallPred(f func(c *ssa.CallCommon) bool) Pred {
	return func(in ssa.Instruction) bool {
		switch x := in.(type) {
		case *ssa.Call:
			return f(x.Common())
		case *ssa.RunDefers:
			for _, d := range Defers(in.Parent()) {
				if f(d.Common()) && Dominates(d, in) {
					return true
				}
			}
		}
		return false
	}
}

// deferDominates: some defer statement of g in rd's function dominates rd.
func deferDominates(g *ssa.Function, rd *ssa.RunDefers) bool {
	for _, d := range Defers(rd.Parent()) {
		if StaticCallee(d.Common()) == g && Dominates(d, rd) {
			return true
		}
	}
	return false
}

// Defers lists the defer instructions of fn.
func Defers(fn *ssa.Function) []*ssa.Defer {
	var out []*ssa.Defer
	EachInstr(fn, func(in ssa.Instruction) {
		if d, ok := in.(*ssa.Defer); ok {
			out = append(out, d)
		}
	})
	return out
}

// Dominates reports whether instruction a dominates instruction b (same function).
func Dominates(a, b ssa.Instruction) bool {
	ba, bb := a.Block(), b.Block()
	if ba == bb {
		return idxIn(ba, a) <= idxIn(bb, b)
	}
	return ba.Dominates(bb)
}

// ---------- value helpers ----------

// ConstString returns the string constant value of v.
func ConstString(v ssa.Value) (string, bool) {
	c, ok := v.(*ssa.Const)
	if !ok || c.Value == nil || c.Value.Kind() != constant.String {
		return "", false
	}
	return constant.StringVal(c.Value), true
}

// ConstInt returns the integer constant value of v.
func ConstInt(v ssa.Value) (int64, bool) {
	c, ok := v.(*ssa.Const)
	if !ok || c.Value == nil || c.Value.Kind() != constant.Int {
		return 0, false
	}
	return c.Int64(), true
}

// ConstBool returns the boolean constant value of v.
func ConstBool(v ssa.Value) (bool, bool) {
	c, ok := v.(*ssa.Const)
	if !ok || c.Value == nil || c.Value.Kind() != constant.Bool {
		return false, false
	}
	return constant.BoolVal(c.Value), true
}

// IsNilConst reports whether v is the nil constant.
func IsNilConst(v ssa.Value) bool {
	c, ok := v.(*ssa.Const)
	return ok && c.IsNil()
}

// FieldOfAddr returns the struct field addressed by a FieldAddr.
func FieldOfAddr(fa *ssa.FieldAddr) *types.Var {
	t := fa.X.Type()
	if pt, ok := t.Underlying().(*types.Pointer); ok {
		t = pt.Elem()
	}
	st, ok := t.Underlying().(*types.Struct)
	if !ok {
		return nil
	}
	return st.Field(fa.Field)
}

// FieldOfField returns the struct field selected by a Field (value) instruction.
func FieldOfField(f *ssa.Field) *types.Var {
	st, ok := f.X.Type().Underlying().(*types.Struct)
	if !ok {
		return nil
	}
	return st.Field(f.Field)
}

// AddrField returns the field if v is the address of a struct field.
func AddrField(v ssa.Value) *types.Var {
	if fa, ok := v.(*ssa.FieldAddr); ok {
		return FieldOfAddr(fa)
	}
	return nil
}

// LoadedField returns the field if v is a load (*) of a struct field address, or a Field
// extraction from a struct value.
func LoadedField(v ssa.Value) *types.Var {
	switch x := v.(type) {
	case *ssa.UnOp:
		if x.Op == token.MUL {
			return AddrField(x.X)
		}
	case *ssa.Field:
		return FieldOfField(x)
	}
	return nil
}

// SameField compares struct fields by origin.
func SameField(a, b *types.Var) bool {
	return a != nil && b != nil && a.Origin() == b.Origin()
}

// FieldStore describes a store into a struct field.
type FieldStore struct {
	Fn    *ssa.Function
	Store *ssa.Store
	Addr  *ssa.FieldAddr
}

// StoresToField finds all stores to field f in the given functions (deep: closures too).
func StoresToField(fns []*ssa.Function, f *types.Var) []FieldStore {
	var out []FieldStore
	for _, fn := range fns {
		fn := fn
		EachInstr(fn, func(in ssa.Instruction) {
			st, ok := in.(*ssa.Store)
			if !ok {
				return
			}
			if fa, ok := st.Addr.(*ssa.FieldAddr); ok && SameField(FieldOfAddr(fa), f) {
				out = append(out, FieldStore{fn, st, fa})
			}
		})
	}
	return out
}

// Unwrap strips conversions, interface makes, type changes, and single-edge phis.
func Unwrap(v ssa.Value) ssa.Value {
	for {
		switch x := v.(type) {
		case *ssa.ChangeType:
			v = x.X
		case *ssa.Convert:
			v = x.X
		case *ssa.MakeInterface:
			v = x.X
		case *ssa.ChangeInterface:
			v = x.X
		case *ssa.Phi:
			if len(x.Edges) == 1 {
				v = x.Edges[0]
				continue
			}
			return v
		default:
			return v
		}
	}
}

// ---------- call graph helpers ----------

// Callees returns the functions a call site may dispatch to according to the call graph.
func (p *Prog) Callees(site ssa.CallInstruction) []*ssa.Function {
	if f := StaticCallee(site.Common()); f != nil {
		return []*ssa.Function{f}
	}
	n := p.CG().Nodes[site.Parent()]
	if n == nil {
		return nil
	}
	var out []*ssa.Function
	seen := map[*ssa.Function]bool{}
	for _, e := range n.Out {
		if e.Site == site && !seen[e.Callee.Func] {
			seen[e.Callee.Func] = true
			out = append(out, e.Callee.Func)
		}
	}
	sort.Slice(out, func(i, j int) bool { return out[i].String() < out[j].String() })
	return out
}

// CallersOf returns the call-graph in-edges of fn from module, non-test-support functions.
func (p *Prog) CallersOf(fn *ssa.Function) []*callgraph.Edge {
	n := p.CG().Nodes[fn]
	if n == nil {
		return nil
	}
	var out []*callgraph.Edge
	for _, e := range n.In {
		if e.Caller.Func == nil || e.Site == nil {
			continue
		}
		if !InModule(e.Caller.Func) || p.IsTestSupport(e.Caller.Func) {
			continue
		}
		out = append(out, e)
	}
	sort.Slice(out, func(i, j int) bool {
		if out[i].Caller.Func.String() != out[j].Caller.Func.String() {
			return out[i].Caller.Func.String() < out[j].Caller.Func.String()
		}
		return out[i].Site.Pos() < out[j].Site.Pos()
	})
	return out
}

// Reach returns the set of functions reachable from the roots through the call graph
// (including closures created inside reachable functions, since a created closure may be
// invoked later by a callee).
func (p *Prog) Reach(roots ...*ssa.Function) map[*ssa.Function]bool {
	seen := map[*ssa.Function]bool{}
	var work []*ssa.Function
	add := func(f *ssa.Function) {
		if f != nil && !seen[f] {
			seen[f] = true
			work = append(work, f)
		}
	}
	for _, r := range roots {
		add(r)
	}
	cg := p.CG()
	for len(work) > 0 {
		f := work[len(work)-1]
		work = work[:len(work)-1]
		if n := cg.Nodes[f]; n != nil {
			for _, e := range n.Out {
				add(e.Callee.Func)
			}
		}
		for _, a := range f.AnonFuncs {
			add(a)
		}
	}
	return seen
}

// ReachModule is Reach restricted (for traversal) to module functions: calls out of the
// module are not followed, which keeps summaries about inbucket's own code.
func (p *Prog) ReachModule(roots ...*ssa.Function) map[*ssa.Function]bool {
	seen := map[*ssa.Function]bool{}
	var work []*ssa.Function
	add := func(f *ssa.Function) {
		if f != nil && !seen[f] && InModule(f) {
			seen[f] = true
			work = append(work, f)
		}
	}
	for _, r := range roots {
		add(r)
	}
	cg := p.CG()
	for len(work) > 0 {
		f := work[len(work)-1]
		work = work[:len(work)-1]
		if n := cg.Nodes[f]; n != nil {
			for _, e := range n.Out {
				add(e.Callee.Func)
			}
		}
		for _, a := range f.AnonFuncs {
			add(a)
		}
	}
	return seen
}

// SitesCalling returns every call instruction in module non-test-support code whose callee
// object matches one of objs (static or interface method), in deterministic order.
func (p *Prog) SitesCalling(objs ...*types.Func) []ssa.CallInstruction {
	var out []ssa.CallInstruction
	for _, fn := range p.Funcs {
		if p.IsTestSupport(fn) {
			continue
		}
		EachInstr(fn, func(in ssa.Instruction) {
			ci, ok := in.(ssa.CallInstruction)
			if !ok {
				return
			}
			for _, o := range objs {
				if IsCallTo(ci.Common(), o) {
					out = append(out, ci)
					return
				}
			}
		})
	}
	return out
}

// SitesMayCall returns every call instruction in module non-test-support code that may
// dispatch (per call graph) to target.
func (p *Prog) SitesMayCall(target *ssa.Function) []ssa.CallInstruction {
	var out []ssa.CallInstruction
	seen := map[ssa.CallInstruction]bool{}
	for _, e := range p.CallersOf(target) {
		if !seen[e.Site] {
			seen[e.Site] = true
			out = append(out, e.Site)
		}
	}
	return out
}

// ShortType renders a type with the module prefix removed.
func ShortType(t types.Type) string {
	return strings.ReplaceAll(t.String(), Mod+"/", "")
}

// ReachPhiAware searches the instructions executed after start (same function, no descent
// into callees) for one satisfying target, not continuing past instructions satisfying avoid.
// Unlike Search it tracks, along each path, the boolean and integer phis whose value is known
// (a constant operand for the predecessor taken, another known phi, known±constant), so that
//   - a branch on a known boolean phi takes only the matching edge: `for running := true;
//     running; { … }` cannot be left before an iteration has set the flag to false;
//   - a loop `for i := range S` / `for i := 0; i < len(S); i++` over a slice of statically
//     known, non-zero length (a composite literal) cannot be skipped.
func ReachPhiAware(start ssa.Instruction, target, avoid Pred) ssa.Instruction {
	sb := start.Block()
	idx := 0
	for i, in := range sb.Instrs {
		if in == start {
			idx = i + 1
		}
	}
	return reachPhiAware(start.Parent(), sb, idx, target, avoid)
}

// ReachPhiAwareFromBlock is ReachPhiAware from the start of block b.
func ReachPhiAwareFromBlock(b *ssa.BasicBlock, target, avoid Pred) ssa.Instruction {
	return reachPhiAware(b.Parent(), b, 0, target, avoid)
}

// ReachPhiAwareFromEntry is ReachPhiAware from the entry of fn.
func ReachPhiAwareFromEntry(fn *ssa.Function, target, avoid Pred) ssa.Instruction {
	if len(fn.Blocks) == 0 {
		return nil
	}
	return reachPhiAware(fn, fn.Blocks[0], 0, target, avoid)
}

// staticLen: the length of v when it is fixed by construction (slice of a local array,
// make with a constant length).
func staticLen(v ssa.Value) (int64, bool) {
	switch x := v.(type) {
	case *ssa.Slice:
		if x.Low != nil || x.High != nil {
			return 0, false
		}
		if al, ok := x.X.(*ssa.Alloc); ok {
			if pt, ok := al.Type().(*types.Pointer); ok {
				if at, ok := pt.Elem().Underlying().(*types.Array); ok {
					return at.Len(), true
				}
			}
		}
	case *ssa.MakeSlice:
		return ConstInt(x.Len)
	}
	return 0, false
}

func reachPhiAware(fn *ssa.Function, sb *ssa.BasicBlock, idx int, target, avoid Pred) ssa.Instruction {
	type node struct {
		b   *ssa.BasicBlock
		env string
	}
	type item struct {
		b     *ssa.BasicBlock
		known map[*ssa.Phi]int64
	}
	var phis []*ssa.Phi
	for _, b := range fn.Blocks {
		for _, in := range b.Instrs {
			if ph, ok := in.(*ssa.Phi); ok {
				if bt, isB := ph.Type().Underlying().(*types.Basic); isB && (bt.Kind() == types.Bool || bt.Info()&types.IsInteger != 0) {
					phis = append(phis, ph)
				}
			}
		}
	}
	envKey := func(k map[*ssa.Phi]int64) string {
		var sbd strings.Builder
		for _, ph := range phis {
			if v, ok := k[ph]; ok {
				fmt.Fprintf(&sbd, "%d,", v)
			} else {
				sbd.WriteString("?,")
			}
		}
		return sbd.String()
	}
	// evalInt: the value of v on the path, if known
	var evalInt func(v ssa.Value, known map[*ssa.Phi]int64, depth int) (int64, bool)
	evalInt = func(v ssa.Value, known map[*ssa.Phi]int64, depth int) (int64, bool) {
		if depth > 4 {
			return 0, false
		}
		if bv, isC := ConstBool(v); isC {
			if bv {
				return 1, true
			}
			return 0, true
		}
		if k, isC := ConstInt(v); isC {
			return k, true
		}
		switch x := v.(type) {
		case *ssa.Phi:
			k, ok := known[x]
			return k, ok
		case *ssa.BinOp:
			a, ok1 := evalInt(x.X, known, depth+1)
			b, ok2 := evalInt(x.Y, known, depth+1)
			if ok1 && ok2 {
				switch x.Op {
				case token.ADD:
					return a + b, true
				case token.SUB:
					return a - b, true
				}
			}
		case *ssa.Call:
			if CalleeName(x.Common()) == "builtin.len" && len(x.Call.Args) == 1 {
				return staticLen(x.Call.Args[0])
			}
		case *ssa.Convert:
			return evalInt(x.X, known, depth+1)
		}
		return 0, false
	}
	seen := map[node]bool{}
	var hit ssa.Instruction
	scan := func(b *ssa.BasicBlock, from int) bool {
		for i := from; i < len(b.Instrs); i++ {
			in := b.Instrs[i]
			if target(in) {
				if hit == nil {
					hit = in
				}
				return false
			}
			if avoid != nil && avoid(in) {
				return false
			}
		}
		return true
	}
	var work []item
	push := func(it item) {
		b := it.b
		iff := IfOf(b)
		for k, s := range b.Succs {
			if iff != nil && len(b.Succs) == 2 {
				cond := iff.Cond
				neg := false
				if u, ok := cond.(*ssa.UnOp); ok && u.Op == token.NOT {
					cond, neg = u.X, true
				}
				decided, truth := false, false
				if ph, ok := cond.(*ssa.Phi); ok {
					if bv, known := it.known[ph]; known {
						decided, truth = true, bv != 0
					}
				}
				if bo, ok := cond.(*ssa.BinOp); ok && !decided {
					a, ok1 := evalInt(bo.X, it.known, 0)
					c, ok2 := evalInt(bo.Y, it.known, 0)
					if ok1 && ok2 {
						switch bo.Op {
						case token.LSS:
							decided, truth = true, a < c
						case token.LEQ:
							decided, truth = true, a <= c
						case token.GTR:
							decided, truth = true, a > c
						case token.GEQ:
							decided, truth = true, a >= c
						}
					}
				}
				if decided {
					if neg {
						truth = !truth
					}
					if (k == 0) != truth {
						continue
					}
				}
			}
			pi := -1
			for i, p := range s.Preds {
				if p == b {
					pi = i
				}
			}
			// phis of the successor, evaluated simultaneously for this edge
			nk := map[*ssa.Phi]int64{}
			for ph, v := range it.known {
				if ph.Block() != s {
					nk[ph] = v
				}
			}
			for _, in := range s.Instrs {
				ph, ok := in.(*ssa.Phi)
				if !ok {
					break
				}
				if pi < 0 || pi >= len(ph.Edges) {
					continue
				}
				if v, ok := evalInt(ph.Edges[pi], it.known, 0); ok {
					// keep the state space small: integers are tracked only near zero
					if v >= -1 && v <= 2 {
						nk[ph] = v
					}
				}
			}
			nn := node{s, envKey(nk)}
			if !seen[nn] {
				seen[nn] = true
				work = append(work, item{s, nk})
			}
		}
	}
	if scan(sb, idx) {
		push(item{sb, map[*ssa.Phi]int64{}})
	}
	for len(work) > 0 && hit == nil {
		it := work[len(work)-1]
		work = work[:len(work)-1]
		if scan(it.b, 0) {
			push(it)
		}
	}
	return hit
}
