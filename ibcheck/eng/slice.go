package eng

import (
	"go/token"

	"golang.org/x/tools/go/ssa"
)

// SliceActuals, when set, maps a parameter to the arguments its callers pass (Prog.ActualsOf).
var SliceActuals func(*ssa.Parameter) ([]ssa.Value, bool)

// BackSlice walks backwards over what a value is computed from — operands, φ edges, the stores
// of a local cell, the elements put into a variadic argument slice, the values a module callee
// returns (its parameters mapped back to this call's arguments) — and reports whether leaf
// holds for anything on the way. Loads of fields and globals are leaves. Bounded.
func BackSlice(v ssa.Value, leaf func(ssa.Value) bool) bool {
	type frame struct {
		call *ssa.Call
		up   *frame
	}
	seen := map[ssa.Value]bool{}
	var walk func(v ssa.Value, fr *frame, depth int) bool
	walk = func(v ssa.Value, fr *frame, depth int) bool {
		if v == nil || depth > 40 {
			return false
		}
		if leaf(v) {
			return true
		}
		if seen[v] {
			return false
		}
		seen[v] = true
		switch x := v.(type) {
		case *ssa.Const, *ssa.Global, *ssa.Function, *ssa.Builtin, *ssa.FreeVar:
			return false
		case *ssa.Parameter:
			if fr != nil && fr.call != nil {
				if a := ArgFor(fr.call, x); a != nil {
					return walk(a, fr.up, depth+1)
				}
			}
			// entered from inside the function: every caller's argument
			if SliceActuals != nil {
				if vals, ok := SliceActuals(x); ok {
					for _, a := range vals {
						if walk(a, nil, depth+1) {
							return true
						}
					}
				}
			}
			return false
		case *ssa.Phi:
			for _, e := range x.Edges {
				if walk(e, fr, depth+1) {
					return true
				}
			}
			return false
		case *ssa.Extract:
			if cl, ok := x.Tuple.(*ssa.Call); ok {
				if rets, g := ReturnedValues(cl, x.Index); g != nil {
					for _, rv := range rets {
						if walk(rv, &frame{cl, fr}, depth+1) {
							return true
						}
					}
					return false
				}
			}
			return walk(x.Tuple, fr, depth+1)
		case *ssa.Call:
			if rets, g := ReturnedValues(x, 0); g != nil {
				for _, rv := range rets {
					if walk(rv, &frame{x, fr}, depth+1) {
						return true
					}
				}
				return false
			}
			for _, a := range x.Call.Args {
				if walk(a, fr, depth+1) {
					return true
				}
			}
			if x.Call.IsInvoke() {
				return walk(x.Call.Value, fr, depth+1)
			}
			return false
		case *ssa.UnOp:
			if x.Op == token.MUL {
				if al, ok := x.X.(*ssa.Alloc); ok && al.Referrers() != nil {
					for _, ref := range *al.Referrers() {
						if st, ok := ref.(*ssa.Store); ok && st.Addr == al {
							if walk(st.Val, fr, depth+1) {
								return true
							}
						}
					}
					return false
				}
				// a load through a field or element address: what the address is computed from
				return walk(x.X, fr, depth+1)
			}
			return walk(x.X, fr, depth+1)
		case *ssa.Slice:
			if al, ok := x.X.(*ssa.Alloc); ok && al.Referrers() != nil {
				for _, ref := range *al.Referrers() {
					if ia, ok := ref.(*ssa.IndexAddr); ok && ia.Referrers() != nil {
						for _, r2 := range *ia.Referrers() {
							if st, ok := r2.(*ssa.Store); ok {
								if walk(st.Val, fr, depth+1) {
									return true
								}
							}
						}
					}
				}
				return false
			}
			return walk(x.X, fr, depth+1)
		}
		if in, ok := v.(ssa.Instruction); ok {
			for _, op := range in.Operands(nil) {
				if op != nil && *op != nil {
					if walk(*op, fr, depth+1) {
						return true
					}
				}
			}
		}
		return false
	}
	return walk(v, nil, 0)
}
