package eng

import (
	"sync"

	"golang.org/x/tools/go/ssa"
)

// LogicalCallers returns the functions from which fn is entered: for a closure its lexical
// parent (where it is created and handed on), otherwise the module call-graph callers.
func (p *Prog) LogicalCallers(fn *ssa.Function) []*ssa.Function {
	if par := fn.Parent(); par != nil {
		return []*ssa.Function{par}
	}
	seen := map[*ssa.Function]bool{}
	var out []*ssa.Function
	for _, e := range p.CallersOf(fn) {
		// a promoted-method wrapper that go/ssa made for an embedding type and that nothing calls
		// ((*Hub).store, because Hub embeds the record whose method store is) is no caller
		if c := e.Caller.Func; c.Synthetic != "" && c.Parent() == nil && len(p.CallersOf(c)) == 0 {
			continue
		}
		if !seen[e.Caller.Func] {
			seen[e.Caller.Func] = true
			out = append(out, e.Caller.Func)
		}
	}
	return out
}

// OnlyReachedFrom reports whether every module call chain into fn passes through a root.
// It returns an offending entry function otherwise (a function outside the roots that has
// no module callers, or a cycle-free chain top).
func (p *Prog) OnlyReachedFrom(fn *ssa.Function, isRoot func(*ssa.Function) bool) (bool, *ssa.Function) {
	seen := map[*ssa.Function]bool{}
	var walk func(f *ssa.Function, depth int) (bool, *ssa.Function)
	walk = func(f *ssa.Function, depth int) (bool, *ssa.Function) {
		if isRoot(f) {
			return true, nil
		}
		if seen[f] {
			return true, nil
		}
		seen[f] = true
		if depth > 12 {
			return false, f
		}
		cs := p.LogicalCallers(f)
		if len(cs) == 0 {
			return false, f
		}
		for _, c := range cs {
			if ok, off := walk(c, depth+1); !ok {
				return false, off
			}
		}
		return true, nil
	}
	return walk(fn, 0)
}

// ParamIndex returns the index of v among fn's parameters, or -1.
func ParamIndex(v ssa.Value) int {
	prm, ok := v.(*ssa.Parameter)
	if !ok {
		return -1
	}
	for i, q := range prm.Parent().Params {
		if q == prm {
			return i
		}
	}
	return -1
}

// CallSite is one static call of a function with its actual arguments.
type CallSite struct {
	Instr ssa.CallInstruction
	Args  []ssa.Value
}

// StaticCallSites lists the module call sites (call/go/defer) that statically invoke fn.
func (p *Prog) StaticCallSites(fn *ssa.Function) []CallSite {
	var out []CallSite
	seen := map[ssa.CallInstruction]bool{}
	for _, e := range p.CallersOf(fn) {
		if StaticCallee(e.Site.Common()) == fn && !seen[e.Site] {
			seen[e.Site] = true
			// a promoted-method wrapper that go/ssa made for an embedding type (Session embeds
			// *Server, so (*Session).acceptNext exists) and that nothing calls is no call site
			if c := e.Caller.Func; c.Synthetic != "" && c.Parent() == nil && len(p.CallersOf(c)) == 0 {
				continue
			}
			out = append(out, CallSite{e.Site, e.Site.Common().Args})
		}
	}
	return out
}

// Lift evaluates f at (site, subject). When the subject is a parameter of the function that
// contains site, f is instead evaluated at every static call site of that function with the
// actual argument as subject (recursively, bounded). All evaluations must hold.
func (p *Prog) Lift(site ssa.Instruction, subject ssa.Value, depth int, f func(site ssa.Instruction, subject ssa.Value) bool) bool {
	if f(site, subject) {
		return true
	}
	i := ParamIndex(StripConv(subject))
	if i < 0 || depth > 3 {
		return false
	}
	fn := site.Parent()
	if StripConv(subject).(*ssa.Parameter).Parent() != fn {
		return false
	}
	sites := p.StaticCallSites(fn)
	if len(sites) == 0 {
		return false
	}
	for _, cs := range sites {
		if i >= len(cs.Args) {
			return false
		}
		if !p.Lift(cs.Instr.(ssa.Instruction), cs.Args[i], depth+1, f) {
			return false
		}
	}
	return true
}

// ReturnedValues returns, for a call (or an extract of a call) of a module function with a
// body, the values that function returns at result index idx, one per (non-recover) return.
// The values live in the callee: parameters among them can be mapped with ArgFor.
func ReturnedValues(call *ssa.Call, idx int) ([]ssa.Value, *ssa.Function) {
	g := StaticCallee(call.Common())
	if g == nil || !InModule(g) || len(g.Blocks) == 0 {
		return nil, nil
	}
	var out []ssa.Value
	EachInstr(g, func(in ssa.Instruction) {
		ret, ok := in.(*ssa.Return)
		if !ok || (IsRecoverBlock(ret.Block()) && !DefersMayRecover(g)) {
			return
		}
		res := ReturnResults(ret)
		if idx < len(res) {
			out = append(out, res[idx])
		}
	})
	// a runner hands back what its callback returns (inMailbox(s, name, mode, func(mb) T {…})):
	// with the callback known at this call, the values are the callback's own
	if pi := RunnerParam(g); pi >= 0 && pi < len(call.Call.Args) {
		if h, _, ok := FuncValueOf(call.Call.Args[pi]); ok && h != nil && len(h.Blocks) > 0 && InModule(h) {
			var hv []ssa.Value
			EachInstr(h, func(in ssa.Instruction) {
				ret, ok := in.(*ssa.Return)
				if !ok || in.Parent() != h || (IsRecoverBlock(ret.Block()) && !DefersMayRecover(h)) {
					return
				}
				if res := ReturnResults(ret); idx < len(res) {
					hv = append(hv, res[idx])
				}
			})
			if len(hv) > 0 {
				return hv, h
			}
		}
	}
	return out, g
}

// CallAndIndex decomposes v into (call, result index) when v is a call result.
func CallAndIndex(v ssa.Value) (*ssa.Call, int) {
	switch x := v.(type) {
	case *ssa.Call:
		return x, 0
	case *ssa.Extract:
		if c, ok := x.Tuple.(*ssa.Call); ok {
			return c, x.Index
		}
	}
	return nil, 0
}

// ArgFor maps a parameter of the callee of call to the actual argument.
func ArgFor(call *ssa.Call, prm *ssa.Parameter) ssa.Value {
	i := ParamIndex(prm)
	if i < 0 || i >= len(call.Call.Args) {
		return nil
	}
	return call.Call.Args[i]
}

var (
	syncReachMu   sync.Mutex
	syncReachMemo = map[*ssa.Function]map[*ssa.Function]bool{}
)

// walkSynthetic visits the static callees of a synthetic wrapper (which itself is outside the
// module's source functions).
func walkSynthetic(g *ssa.Function, walk func(*ssa.Function)) {
	if g == nil {
		return
	}
	for _, b := range g.Blocks {
		for _, in := range b.Instrs {
			if c, ok := in.(*ssa.Call); ok {
				walk(StaticCallee(c.Common()))
			}
		}
	}
}

// SyncReach returns the module functions reachable from the roots through synchronous
// static calls and deferred calls (not go statements), including closures created on the way.
func (p *Prog) SyncReach(roots ...*ssa.Function) map[*ssa.Function]bool {
	seen := map[*ssa.Function]bool{}
	if len(roots) == 1 {
		syncReachMu.Lock()
		m, ok := syncReachMemo[roots[0]]
		syncReachMu.Unlock()
		if ok {
			return m
		}
		defer func() {
			syncReachMu.Lock()
			syncReachMemo[roots[0]] = seen
			syncReachMu.Unlock()
		}()
	}
	var walk func(f *ssa.Function)
	walk = func(f *ssa.Function) {
		if f == nil || seen[f] || !InModule(f) || len(f.Blocks) == 0 {
			return
		}
		seen[f] = true
		for _, a := range f.AnonFuncs {
			walk(a)
		}
		EachInstr(f, func(in ssa.Instruction) {
			switch x := in.(type) {
			case *ssa.Call:
				walk(StaticCallee(x.Common()))
			case *ssa.Defer:
				walk(StaticCallee(x.Common()))
			case *ssa.MakeClosure:
				// a method value (bound-method wrapper): the method runs wherever the value
				// is called; function literals are covered by AnonFuncs
				if g, ok := x.Fn.(*ssa.Function); ok && g.Parent() == nil {
					walkSynthetic(g, walk)
				}
			}
		})
	}
	for _, r := range roots {
		walk(r)
	}
	return seen
}

// Actual resolves a parameter of a function that has exactly one static call site in the
// module to the argument passed there (repeatedly); other values are returned unchanged.
// It lets value patterns look through helpers a refactoring extracted.
func (p *Prog) Actual(v ssa.Value) ssa.Value {
	for depth := 0; depth < 4; depth++ {
		prm, ok := v.(*ssa.Parameter)
		if !ok {
			return v
		}
		fn := prm.Parent()
		if fn.Parent() != nil {
			// a closure parameter is bound dynamically, except for a local function that is
			// only ever called, at one place (deliverTo := func(mb string) error {…}; deliverTo(mb))
			call := soleCallOfClosure(fn)
			i := ParamIndex(prm)
			if call == nil || i < 0 || i >= len(call.Call.Args) {
				return v
			}
			v = call.Call.Args[i]
			continue
		}
		sites := p.StaticCallSites(fn)
		if len(sites) != 1 {
			return v
		}
		i := ParamIndex(prm)
		if i < 0 || i >= len(sites[0].Args) {
			return v
		}
		v = sites[0].Args[i]
	}
	return v
}

// ActualsOf returns, for a parameter of a module function, the argument passed at every call
// site the call graph knows (static calls, and dynamic calls through a function value that the
// VTA graph resolves to this function). ok is false when some caller's argument cannot be
// aligned with the parameter (method values, interface dispatch with bound receivers) or the
// function has no known caller.
func (p *Prog) ActualsOf(prm *ssa.Parameter) (vals []ssa.Value, ok bool) {
	fn := prm.Parent()
	pi := ParamIndex(prm)
	if fn == nil || pi < 0 {
		return nil, false
	}
	edges := p.CallersOf(fn)
	if len(edges) == 0 {
		return nil, false
	}
	for _, e := range edges {
		cc := e.Site.Common()
		args := cc.Args
		switch {
		case cc.IsInvoke():
			// interface method: the receiver is cc.Value, parameters follow
			if pi == 0 {
				vals = append(vals, cc.Value)
				continue
			}
			if pi-1 >= len(args) {
				return nil, false
			}
			vals = append(vals, args[pi-1])
		case len(args) == len(fn.Params):
			vals = append(vals, args[pi])
		default:
			return nil, false
		}
	}
	return vals, true
}

// RunnerParam reports that g is a runner: a function that returns, on every return, the
// results of calling one of its function-typed parameters (possibly with a lock held around
// the call: func (mb *mbox) update(fn func() error) error { mb.Lock(); defer mb.Unlock(); return fn() }).
// It returns the index of that parameter, or -1.
func RunnerParam(g *ssa.Function) int {
	if g == nil || len(g.Blocks) == 0 {
		return -1
	}
	idx := -1
	ok := true
	n := 0
	EachInstr(g, func(in ssa.Instruction) {
		ret, isRet := in.(*ssa.Return)
		if !isRet || in.Parent() != g || IsRecoverBlock(ret.Block()) {
			return
		}
		n++
		res := ReturnResults(ret)
		if len(res) == 0 {
			ok = false
			return
		}
		var call *ssa.Call
		for i, rv := range res {
			var c *ssa.Call
			switch x := rv.(type) {
			case *ssa.Call:
				c = x
			case *ssa.Extract:
				if x.Index != i {
					ok = false
					return
				}
				c, _ = x.Tuple.(*ssa.Call)
			}
			if c == nil || call != nil && c != call {
				ok = false
				return
			}
			call = c
		}
		prm, isP := call.Call.Value.(*ssa.Parameter)
		if !isP || prm.Parent() != g || call.Call.IsInvoke() {
			ok = false
			return
		}
		pi := ParamIndex(prm)
		if idx >= 0 && idx != pi {
			ok = false
			return
		}
		idx = pi
	})
	if !ok || n == 0 {
		return -1
	}
	return idx
}

// soleCallOfClosure: fn is a function literal whose value is used for nothing but being called,
// at exactly one call instruction of the enclosing function; that call, else nil.
func soleCallOfClosure(fn *ssa.Function) *ssa.Call {
	par := fn.Parent()
	if par == nil {
		return nil
	}
	var mcs []*ssa.MakeClosure
	EachInstr(par, func(in ssa.Instruction) {
		if mc, ok := in.(*ssa.MakeClosure); ok && mc.Fn == ssa.Value(fn) {
			mcs = append(mcs, mc)
		}
	})
	if len(mcs) != 1 || mcs[0].Referrers() == nil {
		return nil
	}
	var call *ssa.Call
	for _, ref := range *mcs[0].Referrers() {
		switch x := ref.(type) {
		case *ssa.DebugRef:
		case *ssa.Call:
			if call != nil {
				return nil
			}
			if x.Call.Value == ssa.Value(mcs[0]) {
				call = x
				continue
			}
			// handed to a function of the module that does nothing with it but call it, at one
			// place (storeEach(list, func(mb string) *Delivery {…}) … build(mb)): that call
			g := StaticCallee(x.Common())
			if g == nil || !InModule(g) || len(g.Blocks) == 0 || len(g.Params) != len(x.Call.Args) {
				return nil
			}
			for i, a := range x.Call.Args {
				if a != ssa.Value(mcs[0]) {
					continue
				}
				if g.Params[i].Referrers() == nil {
					return nil
				}
				for _, pr := range *g.Params[i].Referrers() {
					switch y := pr.(type) {
					case *ssa.DebugRef:
					case *ssa.Call:
						if y.Call.Value != ssa.Value(g.Params[i]) || call != nil {
							return nil
						}
						call = y
					default:
						return nil
					}
				}
			}
			if call == nil {
				return nil
			}
		default:
			return nil
		}
	}
	return call
}
