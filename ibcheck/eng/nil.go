package eng

import (
	"fmt"
	"go/token"
	"go/types"
	"strings"

	"golang.org/x/tools/go/ssa"
)

// NS is a nil-state: a subset of {nil, non-nil}. 0 = infeasible.
type NS uint8

const (
	NSNil   NS = 1
	NSNon   NS = 2
	NSMaybe NS = 3
)

func (s NS) String() string {
	switch s {
	case 0:
		return "⊥"
	case NSNil:
		return "nil"
	case NSNon:
		return "non-nil"
	}
	return "maybe-nil"
}

// MayBeNil reports whether nil is possible.
func (s NS) MayBeNil() bool { return s&NSNil != 0 }

// Tuple is the nil-state of each result at one return site (path-sensitively).
type Tuple struct {
	S   []NS
	Ret *ssa.Return
	Via string // callee chain for pass-through tuples
}

func (t Tuple) key() string {
	var sb strings.Builder
	for _, s := range t.S {
		sb.WriteByte('0' + byte(s))
	}
	fmt.Fprintf(&sb, "@%p%s", t.Ret, t.Via)
	return sb.String()
}

// Facts restrict values along a path.
type Facts map[ssa.Value]NS

func (f Facts) clone() Facts {
	g := make(Facts, len(f)+2)
	for k, v := range f {
		g[k] = v
	}
	return g
}

// NilAn is the path-sensitive nil-return analysis.
type NilAn struct {
	P *Prog
	// ElemNonNil: assumption hook — elements of slices/maps of this element type are non-nil.
	ElemNonNil func(t types.Type) bool
	// Impl resolves an interface (invoke) call to the module functions it may dispatch to.
	Impl func(c *ssa.CallCommon) []*ssa.Function
	// ExtNonNil: external single-result constructors known to return non-nil.
	ExtNonNil map[string]bool
	MaxPaths  int
	memo      map[*ssa.Function][]Tuple
	active    map[*ssa.Function]bool
	Truncated []string
	PathsSeen int
	// Fork, when set, is consulted after each instruction of a path: it may return the
	// alternative states in which the path continues (a case split over what a called helper
	// did, with the facts each case implies), or nil to continue unchanged.
	Fork func(in ssa.Instruction, ps *PathState) []*PathState
}

// NewNilAn builds an analysis with defaults.
func NewNilAn(p *Prog) *NilAn {
	return &NilAn{P: p, MaxPaths: 20000, memo: map[*ssa.Function][]Tuple{}, active: map[*ssa.Function]bool{},
		ExtNonNil: map[string]bool{"io.NopCloser": true, "bytes.NewReader": true, "strings.NewReader": true, "bytes.NewBuffer": true,
			"errors.New": true, "fmt.Errorf": true, "bufio.NewReader": true, "bufio.NewWriter": true, "bufio.NewScanner": true}}
}

func isNilable(t types.Type) bool {
	switch t.Underlying().(type) {
	case *types.Pointer, *types.Interface, *types.Slice, *types.Map, *types.Chan, *types.Signature:
		return true
	}
	return false
}

// TuplesOf returns the result nil-state tuples of fn over its (bounded) paths.
func (a *NilAn) TuplesOf(fn *ssa.Function) []Tuple {
	if t, ok := a.memo[fn]; ok {
		return t
	}
	nres := fn.Signature.Results().Len()
	if a.active[fn] || fn.Blocks == nil {
		s := make([]NS, nres)
		for i := range s {
			s[i] = NSMaybe
		}
		return []Tuple{{S: s}}
	}
	a.active[fn] = true
	seen := map[string]bool{}
	var out []Tuple
	a.Paths(fn, func(in ssa.Instruction, ps *PathState) {
		f := ps.Nil
		ret, ok := in.(*ssa.Return)
		if !ok {
			return
		}
		if IsRecoverBlock(ret.Block()) && !DefersMayRecover(fn) {
			return // unreachable: no deferred call recovers
		}
		for _, t := range a.returnTuples(ret, f) {
			if !seen[t.key()] {
				seen[t.key()] = true
				out = append(out, t)
			}
		}
	})
	delete(a.active, fn)
	a.memo[fn] = out
	return out
}

// returnTuples evaluates one return under facts; pass-through of a call tuple keeps the
// callee's correlation.
func (a *NilAn) returnTuples(ret *ssa.Return, f Facts) []Tuple {
	results := ReturnResults(ret)
	n := len(results)
	if n >= 2 {
		// two or more results extracted from one call (in the callee's order, a selection of its
		// results, or mixed with other values: `r, err := sm.Source(); return sm, r, err`): the
		// callee's correlation between those results is kept, the others are evaluated on their own
		count := map[ssa.Value]int{}
		for _, r := range results {
			if e, ok := r.(*ssa.Extract); ok {
				count[e.Tuple]++
			}
		}
		var call *ssa.Call
		for t, k := range count {
			if c, ok := t.(*ssa.Call); ok && k >= 2 && (call == nil || k > count[call]) {
				call = c
			}
		}
		if call != nil {
			if ts, known := a.callTuples(call); known {
				var out []Tuple
				seenK := map[string]bool{}
				for _, t := range a.consistent(call, ts, f) {
					sel := make([]NS, n)
					okSel := true
					for i, r := range results {
						if e, ok := r.(*ssa.Extract); ok && e.Tuple == ssa.Value(call) {
							if e.Index >= len(t.S) {
								okSel = false
								break
							}
							sel[i] = t.S[e.Index]
							continue
						}
						if !isNilable(r.Type()) {
							sel[i] = NSNon
							continue
						}
						sel[i] = a.Eval(r, f, ret.Block())
						if sel[i] == 0 {
							okSel = false
							break
						}
					}
					if !okSel {
						continue
					}
					nt := Tuple{S: sel, Ret: ret, Via: shortName(call) + "←" + t.Via}
					if !seenK[nt.key()] {
						seenK[nt.key()] = true
						out = append(out, nt)
					}
				}
				return out
			}
		}
	}
	// results produced inside a closure that a runner executes:
	//   err = mb.view(func() (err error) { msg, err = mb.getMessage(id); return err }); return msg, err
	// is `return mb.getMessage(id)` as far as the (value, error) correlation goes
	if n >= 2 {
		if c2 := a.viaRunnerClosure(results); c2 != nil {
			if ts, known := a.callTuples(c2); known {
				var out []Tuple
				for _, t := range ts {
					out = append(out, Tuple{S: t.S, Ret: ret, Via: shortName(c2) + "←" + t.Via})
				}
				return out
			}
		}
	}
	s := make([]NS, n)
	for i, r := range results {
		if !isNilable(r.Type()) {
			s[i] = NSNon
			continue
		}
		s[i] = a.Eval(r, f, ret.Block())
		if s[i] == 0 {
			return nil // infeasible path
		}
	}
	return []Tuple{{S: s, Ret: ret}}
}

func shortName(c *ssa.Call) string {
	n := CalleeName(c.Common())
	if i := strings.LastIndex(n, "/"); i >= 0 {
		n = n[i+1:]
	}
	return n
}

// callTuples returns the tuples of a call's callee(s); known=false when nothing is known.
func (a *NilAn) callTuples(c *ssa.Call) ([]Tuple, bool) {
	var fns []*ssa.Function
	if c.Call.IsInvoke() {
		if a.Impl != nil {
			fns = a.Impl(&c.Call)
		}
	} else if f := StaticCallee(&c.Call); f != nil && InModule(f) && f.Blocks != nil {
		fns = []*ssa.Function{f}
	}
	if len(fns) == 0 {
		return nil, false
	}
	var out []Tuple
	for _, f := range fns {
		for _, t := range a.TuplesOf(f) {
			t.Via = FuncName(f) + t.Via
			out = append(out, t)
		}
	}
	return out, true
}

// extracts maps result index -> the Extract values of a call.
func extractsOf(c *ssa.Call) map[int][]ssa.Value {
	m := map[int][]ssa.Value{}
	if c.Referrers() == nil {
		return m
	}
	for _, ref := range *c.Referrers() {
		if e, ok := ref.(*ssa.Extract); ok {
			m[e.Index] = append(m[e.Index], e)
		}
	}
	return m
}

// consistent filters callee tuples by the facts known about the call's extracts.
func (a *NilAn) consistent(c *ssa.Call, ts []Tuple, f Facts) []Tuple {
	ex := extractsOf(c)
	_, isTuple := c.Type().(*types.Tuple)
	var out []Tuple
	for _, t := range ts {
		ns := append([]NS(nil), t.S...)
		if !isTuple {
			if fv, has := f[c]; has && len(ns) > 0 {
				ns[0] &= fv
			}
		} else {
			for j := range ns {
				for _, e := range ex[j] {
					if fv, has := f[e]; has {
						ns[j] &= fv
					}
				}
			}
		}
		ok := true
		for _, s := range ns {
			if s == 0 {
				ok = false
			}
		}
		if ok {
			out = append(out, Tuple{S: ns, Ret: t.Ret, Via: t.Via})
		}
	}
	return out
}

// Eval computes the nil-state of v under path facts, as seen from block at.
func (a *NilAn) Eval(v ssa.Value, f Facts, at *ssa.BasicBlock) NS {
	return a.eval(v, f, at, 0)
}

func (a *NilAn) eval(v ssa.Value, f Facts, at *ssa.BasicBlock, depth int) NS {
	base := a.evalBase(v, f, at, depth)
	if fv, ok := f[v]; ok {
		base &= fv
	}
	// facts on equivalent loads
	if LoadAddr(v) != nil {
		for w, fv := range f {
			if w != v && LoadAddr(w) != nil && SameLoadNoDom(w, v) {
				base &= fv
			}
		}
	}
	return base
}

func (a *NilAn) evalBase(v ssa.Value, f Facts, at *ssa.BasicBlock, depth int) NS {
	if depth > 12 {
		return NSMaybe
	}
	if !isNilable(v.Type()) {
		return NSNon
	}
	switch x := v.(type) {
	case *ssa.Const:
		if x.IsNil() {
			return NSNil
		}
		return NSNon
	case *ssa.MakeInterface:
		if isNilable(x.X.Type()) {
			return a.eval(x.X, f, at, depth+1)
		}
		return NSNon
	case *ssa.ChangeInterface:
		return a.eval(x.X, f, at, depth+1)
	case *ssa.ChangeType:
		return a.eval(x.X, f, at, depth+1)
	case *ssa.Convert:
		return a.eval(x.X, f, at, depth+1)
	case *ssa.Alloc, *ssa.MakeMap, *ssa.MakeSlice, *ssa.MakeChan, *ssa.MakeClosure, *ssa.FieldAddr, *ssa.IndexAddr, *ssa.Function, *ssa.Global:
		return NSNon
	case *ssa.Slice:
		return NSMaybe
	case *ssa.Phi:
		var s NS
		for _, e := range x.Edges {
			s |= a.eval(e, f, at, depth+1)
		}
		return s
	case *ssa.UnOp:
		if x.Op != token.MUL {
			return NSMaybe
		}
		switch ad := x.X.(type) {
		case *ssa.Global:
			if types.Identical(x.Type(), types.Universe.Lookup("error").Type()) {
				return NSNon // assumption: package-level error sentinels are non-nil
			}
			return NSMaybe
		case *ssa.IndexAddr:
			if a.ElemNonNil != nil && a.ElemNonNil(x.Type()) {
				return NSNon
			}
			return NSMaybe
		case *ssa.Alloc, *ssa.FreeVar:
			cell := CellOf(ad)
			if cell == nil || CellEscapes(cell) {
				return NSMaybe
			}
			var s NS
			stores := CellStores(cell)
			dominated := false
			for _, st := range stores {
				s |= a.eval(st.Val, Facts{}, st.Block(), depth+1)
				if st.Parent() == x.Parent() && Dominates(st, x) {
					dominated = true
				}
			}
			if !dominated {
				s |= NSNil // zero value of the variable
			}
			return s
		}
		return NSMaybe
	case *ssa.Lookup:
		return NSMaybe
	case *ssa.Extract:
		switch t := x.Tuple.(type) {
		case *ssa.Call:
			ts, known := a.callTuples(t)
			if !known {
				return a.externalTuple(t, x.Index, f)
			}
			var s NS
			for _, tt := range a.consistent(t, ts, f) {
				s |= tt.S[x.Index]
			}
			return s
		case *ssa.Next:
			if a.ElemNonNil != nil && a.ElemNonNil(x.Type()) {
				return NSNon
			}
			return NSMaybe
		case *ssa.Lookup, *ssa.TypeAssert:
			return NSMaybe
		}
		return NSMaybe
	case *ssa.Call:
		ts, known := a.callTuples(x)
		if !known {
			if a.ExtNonNil[CalleeName(x.Common())] {
				return NSNon
			}
			return NSMaybe
		}
		var s NS
		for _, tt := range a.consistent(x, ts, f) {
			if len(tt.S) > 0 {
				s |= tt.S[0]
			}
		}
		return s
	}
	return NSMaybe
}

// externalTuple: Go convention for library functions returning (T, error): when the error
// is nil the value is usable. Under a fact err==nil the value is non-nil.
func (a *NilAn) externalTuple(c *ssa.Call, idx int, f Facts) NS {
	sig := c.Call.Signature()
	n := sig.Results().Len()
	errT := types.Universe.Lookup("error").Type()
	if n >= 2 && types.Identical(sig.Results().At(n-1).Type(), errT) {
		if idx == n-1 {
			return NSMaybe
		}
		for _, e := range extractsOf(c)[n-1] {
			if fv, ok := f[e]; ok && fv == NSNil {
				return NSNon
			}
		}
	}
	return NSMaybe
}

// SentFact records a comparison of a value with a package-level sentinel on the path.
type SentFact struct {
	Sentinel *ssa.Global
	Eq       bool
}

// PathState is what a path visitor sees: nil facts, sentinel comparisons, and the
// instructions executed so far on this path.
type PathState struct {
	Nil   Facts
	Sent  map[ssa.Value]SentFact
	Trace []ssa.Instruction
	// Bool: boolean values known on this path (set by a Fork hook, e.g. the `done` result of
	// a helper); a branch on such a value takes only the matching edge
	Bool map[ssa.Value]bool
	// Int: integer values known on this path (set by a Fork hook: the constant a classifying
	// helper returned, e.g. storeResultOf(err) == storeMissing)
	Int map[ssa.Value]int64
}

// Paths enumerates the paths of fn (each CFG edge at most once per path), maintaining nil
// facts from branch conditions, and calls visit for each instruction of each feasible path
// prefix. Edges whose condition contradicts the facts are pruned.
func (a *NilAn) Paths(fn *ssa.Function, visit func(in ssa.Instruction, ps *PathState)) {
	if len(fn.Blocks) == 0 {
		return
	}
	type edge struct{ from, to int }
	count := 0
	var pred *ssa.BasicBlock // the block the current path entered b from
	var walk func(b *ssa.BasicBlock, from int, ps *PathState, used map[edge]bool)
	walk = func(b *ssa.BasicBlock, from int, ps *PathState, used map[edge]bool) {
		cameFrom := pred
		if count > a.MaxPaths {
			return
		}
		n0 := len(ps.Trace)
		for i := from; i < len(b.Instrs); i++ {
			in := b.Instrs[i]
			visit(in, ps)
			ps.Trace = append(ps.Trace, in)
			if a.Fork != nil {
				if alts := a.Fork(in, ps); alts != nil {
					for _, alt := range alts {
						pred = cameFrom
						walk(b, i+1, alt, used)
					}
					ps.Trace = ps.Trace[:n0]
					return
				}
			}
		}
		if len(b.Succs) == 0 {
			count++
			a.PathsSeen++
		}
		for k, s := range b.Succs {
			e := edge{b.Index, s.Index}
			if used[e] {
				continue
			}
			nps := &PathState{Nil: ps.Nil, Sent: ps.Sent, Trace: ps.Trace, Bool: ps.Bool, Int: ps.Int}
			if len(b.Succs) == 2 {
				if v, pol, ok := CondTruth(b, k); ok {
					if bv, has := ps.Bool[v]; has && bv != pol {
						continue
					}
				}
				// a comparison of a known integer with a constant
				if r, ok := EdgeRel(b, k); ok && (r.Op == token.EQL || r.Op == token.NEQ) && len(ps.Int) > 0 {
					x, y := r.X, r.Y
					if _, isC := ConstInt(x); isC {
						x, y = y, x
					}
					if kc, isC := ConstInt(y); isC {
						if kv, has := ps.Int[x]; has && (kv == kc) != (r.Op == token.EQL) {
							continue
						}
					}
				}
				// the relation on this edge: the branch condition, or — for a condition that is
				// the value of `x && y` / `x || y` (a phi in this block, as a tagless switch case
				// produces) — the operand this path arrived with
				rel, hasRel := EdgeRel(b, k)
				dead := false
				if !hasRel && cameFrom != nil {
					if v, pol, ok := CondTruth(b, k); ok {
						if ph, isPhi := v.(*ssa.Phi); isPhi && ph.Block() == b {
							for pi, pb := range b.Preds {
								if pb != cameFrom || pi >= len(ph.Edges) {
									continue
								}
								if cv, isC := ConstBool(ph.Edges[pi]); isC {
									if cv != pol {
										dead = true
									}
								} else if r2, ok := CondRel(ph.Edges[pi]); ok {
									if !pol {
										r2 = r2.Neg()
									}
									rel, hasRel = r2, true
								}
							}
						}
					}
				}
				if dead {
					continue
				}
				var feasible bool
				nps.Nil, feasible = a.refineRel(rel, hasRel, b, ps.Nil)
				if !feasible {
					continue
				}
				if v, g, eq, ok := sentinelRel(rel, hasRel); ok {
					if old, has := ps.Sent[v]; has && old.Sentinel == g && old.Eq != eq {
						continue // contradicts an earlier comparison on this path
					}
					ns := make(map[ssa.Value]SentFact, len(ps.Sent)+1)
					for kk, vv := range ps.Sent {
						ns[kk] = vv
					}
					ns[v] = SentFact{g, eq}
					nps.Sent = ns
				}
			}
			used[e] = true
			pred = b
			walk(s, 0, nps, used)
			delete(used, e)
		}
		ps.Trace = ps.Trace[:n0]
	}
	walk(fn.Blocks[0], 0, &PathState{Nil: Facts{}, Sent: map[ssa.Value]SentFact{}}, map[edge]bool{})
	if count > a.MaxPaths {
		a.Truncated = append(a.Truncated, FuncName(fn))
	}
}

// sentinelEdge: edge (b,k) compares value v with a package-level error sentinel.
func sentinelEdge(b *ssa.BasicBlock, k int) (ssa.Value, *ssa.Global, bool, bool) {
	r, ok := EdgeRel(b, k)
	return sentinelRel(r, ok)
}

func sentinelRel(r Rel, ok bool) (ssa.Value, *ssa.Global, bool, bool) {
	if !ok || (r.Op != token.EQL && r.Op != token.NEQ) {
		return nil, nil, false, false
	}
	x, y := r.X, r.Y
	if isSentinelLoad(x) {
		x, y = y, x
	}
	if !isSentinelLoad(y) {
		return nil, nil, false, false
	}
	g := y.(*ssa.UnOp).X.(*ssa.Global)
	return x, g, r.Op == token.EQL, true
}

// refine adds the facts implied by taking the k-th edge out of b.
func (a *NilAn) refine(b *ssa.BasicBlock, k int, f Facts) (Facts, bool) {
	r, ok := EdgeRel(b, k)
	return a.refineRel(r, ok, b, f)
}

func (a *NilAn) refineRel(r Rel, ok bool, b *ssa.BasicBlock, f Facts) (Facts, bool) {
	if !ok || (r.Op != token.EQL && r.Op != token.NEQ) {
		return f, true
	}
	x, y := r.X, r.Y
	if IsNilConst(x) {
		x, y = y, x
	}
	var want NS
	switch {
	case IsNilConst(y):
		if r.Op == token.EQL {
			want = NSNil
		} else {
			want = NSNon
		}
	case isSentinelLoad(y) || isSentinelLoad(x):
		if isSentinelLoad(x) {
			x = y
		}
		if r.Op == token.EQL {
			want = NSNon // equal to a non-nil sentinel
		} else {
			return f, true
		}
	default:
		return f, true
	}
	if !isNilable(x.Type()) {
		return f, true
	}
	cur := a.Eval(x, f, b)
	if cur&want == 0 {
		return f, false
	}
	nf := f.clone()
	nf[x] = cur & want
	// a MakeInterface of a pointer compared as interface: carry to the pointer too
	if mi, ok := x.(*ssa.MakeInterface); ok && isNilable(mi.X.Type()) {
		nf[mi.X] = cur & want
	}
	return nf, true
}

func isSentinelLoad(v ssa.Value) bool {
	u, ok := v.(*ssa.UnOp)
	if !ok || u.Op != token.MUL {
		return false
	}
	_, isG := u.X.(*ssa.Global)
	return isG && types.Identical(u.Type(), types.Universe.Lookup("error").Type())
}

// viaRunnerClosure recognises results that all come from one call made inside a closure that a
// runner executes: the last result is the runner's result (the closure returns result n-1 of
// that call on every return), every other result i is a variable the closure assigns exactly
// once, from result i of the same call. It returns that call, or nil.
func (a *NilAn) viaRunnerClosure(results []ssa.Value) *ssa.Call {
	n := len(results)
	// the runner call behind the last result (directly, or through a single-store local)
	last := results[n-1]
	if ad := LoadAddr(last); ad != nil {
		if cell := CellOf(ad); cell != nil {
			if sts := CellStores(cell); len(sts) == 1 {
				last = sts[0].Val
			}
		}
	}
	rc, ok := last.(*ssa.Call)
	if !ok {
		return nil
	}
	g := StaticCallee(rc.Common())
	pi := RunnerParam(g)
	if pi < 0 || pi >= len(rc.Call.Args) {
		return nil
	}
	h, _, ok := FuncValueOf(rc.Call.Args[pi])
	if !ok || h == nil || len(h.Blocks) == 0 || h.Signature.Results().Len() != 1 {
		return nil
	}
	// every return of the closure yields result n-1 of one and the same call
	var inner *ssa.Call
	okAll, nRet := true, 0
	EachInstr(h, func(in ssa.Instruction) {
		ret, isRet := in.(*ssa.Return)
		if !isRet || IsRecoverBlock(ret.Block()) {
			return
		}
		nRet++
		rv := ReturnResults(ret)[0]
		if ad := LoadAddr(rv); ad != nil {
			if cell := CellOf(ad); cell != nil {
				if sts := CellStores(cell); len(sts) == 1 {
					rv = sts[0].Val
				}
			}
		}
		e, isE := rv.(*ssa.Extract)
		if !isE || e.Index != n-1 {
			okAll = false
			return
		}
		c2, isC := e.Tuple.(*ssa.Call)
		if !isC || inner != nil && inner != c2 {
			okAll = false
			return
		}
		inner = c2
	})
	if !okAll || nRet == 0 || inner == nil || inner.Parent() != h {
		return nil
	}
	// the other results: variables assigned once, in the closure, from the same call
	for i := 0; i < n-1; i++ {
		ad := LoadAddr(results[i])
		if ad == nil {
			return nil
		}
		cell := CellOf(ad)
		if cell == nil {
			return nil
		}
		sts := CellStores(cell)
		if len(sts) != 1 || sts[0].Parent() != h {
			return nil
		}
		e, isE := sts[0].Val.(*ssa.Extract)
		if !isE || e.Index != i || e.Tuple != ssa.Value(inner) {
			return nil
		}
	}
	return inner
}
