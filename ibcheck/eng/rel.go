package eng

import (
	"go/token"

	"golang.org/x/tools/go/ssa"
)

// Rel is a binary relation between two SSA values.
type Rel struct {
	Op   token.Token // EQL NEQ LSS LEQ GTR GEQ
	X, Y ssa.Value
}

func negOp(op token.Token) token.Token {
	switch op {
	case token.EQL:
		return token.NEQ
	case token.NEQ:
		return token.EQL
	case token.LSS:
		return token.GEQ
	case token.LEQ:
		return token.GTR
	case token.GTR:
		return token.LEQ
	case token.GEQ:
		return token.LSS
	}
	return token.ILLEGAL
}

func swapOp(op token.Token) token.Token {
	switch op {
	case token.LSS:
		return token.GTR
	case token.LEQ:
		return token.GEQ
	case token.GTR:
		return token.LSS
	case token.GEQ:
		return token.LEQ
	}
	return op
}

// Swap returns the same relation with operands exchanged.
func (r Rel) Swap() Rel { return Rel{swapOp(r.Op), r.Y, r.X} }

// Neg returns the negated relation.
func (r Rel) Neg() Rel { return Rel{negOp(r.Op), r.X, r.Y} }

// CondRel decomposes a boolean SSA value into a relation (looking through `!`).
func CondRel(cond ssa.Value) (Rel, bool) {
	neg := false
	for {
		if u, ok := cond.(*ssa.UnOp); ok && u.Op == token.NOT {
			neg = !neg
			cond = u.X
			continue
		}
		break
	}
	b, ok := cond.(*ssa.BinOp)
	if !ok {
		return Rel{}, false
	}
	switch b.Op {
	case token.EQL, token.NEQ, token.LSS, token.LEQ, token.GTR, token.GEQ:
	default:
		return Rel{}, false
	}
	r := Rel{b.Op, b.X, b.Y}
	if neg {
		r = r.Neg()
	}
	return r, true
}

// EdgeRel returns the relation that holds on the succIdx-th out-edge of an If block.
func EdgeRel(b *ssa.BasicBlock, succIdx int) (Rel, bool) {
	if len(b.Instrs) == 0 {
		return Rel{}, false
	}
	iff, ok := b.Instrs[len(b.Instrs)-1].(*ssa.If)
	if !ok {
		return Rel{}, false
	}
	r, ok := CondRel(iff.Cond)
	if !ok {
		return Rel{}, false
	}
	if succIdx == 1 {
		r = r.Neg()
	}
	return r, true
}

// BoolEdge describes `v` being true (or false) on an out-edge: for conditions that are not
// relations (a call result, a phi of &&/||).
// CondTruth returns the underlying non-negated value and the polarity under which the
// succIdx-th edge is taken.
func CondTruth(b *ssa.BasicBlock, succIdx int) (ssa.Value, bool, bool) {
	if len(b.Instrs) == 0 {
		return nil, false, false
	}
	iff, ok := b.Instrs[len(b.Instrs)-1].(*ssa.If)
	if !ok {
		return nil, false, false
	}
	v := iff.Cond
	pol := succIdx == 0
	for {
		if u, ok := v.(*ssa.UnOp); ok && u.Op == token.NOT {
			pol = !pol
			v = u.X
			continue
		}
		break
	}
	return v, pol, true
}

// IfOf returns the If terminating block b, if any.
func IfOf(b *ssa.BasicBlock) *ssa.If {
	if len(b.Instrs) == 0 {
		return nil
	}
	iff, _ := b.Instrs[len(b.Instrs)-1].(*ssa.If)
	return iff
}

// StripConv removes numeric conversions.
func StripConv(v ssa.Value) ssa.Value {
	for {
		switch x := v.(type) {
		case *ssa.Convert:
			v = x.X
		case *ssa.ChangeType:
			v = x.X
		default:
			return v
		}
	}
}

// LenOf returns x if v is len(x) (through numeric conversions).
func LenOf(v ssa.Value) ssa.Value {
	v = StripConv(v)
	c, ok := v.(*ssa.Call)
	if !ok {
		return nil
	}
	if b, ok := c.Call.Value.(*ssa.Builtin); ok && b.Name() == "len" && len(c.Call.Args) == 1 {
		return c.Call.Args[0]
	}
	return nil
}

// ReachesWithout reports whether target is reachable from the start of block `from`
// without executing any Avoid instruction.
func BlockReaches(from *ssa.BasicBlock, target Pred, avoid Pred) ssa.Instruction {
	s := &Search{Target: target, Avoid: avoid}
	return s.FromBlockStart(from)
}

// ReplyPrefix extracts the constant prefix of a string-valued SSA expression: a constant,
// constant + x, or fmt.Sprintf with a constant format. ok=false if nothing is constant.
func ReplyPrefix(v ssa.Value) (string, bool) {
	switch x := v.(type) {
	case *ssa.Const:
		return ConstString(x)
	case *ssa.BinOp:
		if x.Op == token.ADD {
			return ReplyPrefix(x.X)
		}
	case *ssa.Call:
		if CalleeName(x.Common()) == "fmt.Sprintf" && len(x.Call.Args) > 0 {
			if s, ok := ConstString(x.Call.Args[0]); ok {
				// keep only the part before the first verb
				for i := 0; i < len(s); i++ {
					if s[i] == '%' {
						return s[:i], true
					}
				}
				return s, true
			}
		}
	case *ssa.Phi:
		var pre string
		for i, e := range x.Edges {
			s, ok := ReplyPrefix(e)
			if !ok {
				return "", false
			}
			if i == 0 {
				pre = s
			} else {
				n := 0
				for n < len(pre) && n < len(s) && pre[n] == s[n] {
					n++
				}
				pre = pre[:n]
			}
		}
		return pre, true
	}
	return "", false
}

// EdgeDominates reports whether the succIdx-th out-edge of b dominates block at: the
// successor has b as its only predecessor and dominates at.
func EdgeDominates(b *ssa.BasicBlock, succIdx int, at *ssa.BasicBlock) bool {
	s := b.Succs[succIdx]
	if len(s.Preds) != 1 {
		return false
	}
	return s.Dominates(at)
}

// KnownNonNil reports whether v is known non-nil in block at by a dominating `v != nil`
// (or `v == nil` false) edge.
func KnownNonNil(v ssa.Value, at *ssa.BasicBlock) bool {
	for _, b := range at.Parent().Blocks {
		for k := range b.Succs {
			if len(b.Succs) != 2 {
				continue
			}
			r, ok := EdgeRel(b, k)
			if !ok {
				continue
			}
			x, y := r.X, r.Y
			if IsNilConst(x) {
				x, y = y, x
			}
			if x == v && IsNilConst(y) && r.Op == token.NEQ && EdgeDominates(b, k, at) {
				return true
			}
		}
	}
	return false
}
