package eng

import (
	"go/token"
	"go/types"

	"golang.org/x/tools/go/ssa"
)

// Rel is a binary relation between two SSA values.
type Rel struct {
	Op   token.Token // EQL NEQ LSS LEQ GTR GEQ
	X, Y ssa.Value
}

func negOp(op token.Token) token.Token {
	switch op {
	case token.EQL:
		return token.NEQ
	case token.NEQ:
		return token.EQL
	case token.LSS:
		return token.GEQ
	case token.LEQ:
		return token.GTR
	case token.GTR:
		return token.LEQ
	case token.GEQ:
		return token.LSS
	}
	return token.ILLEGAL
}

func swapOp(op token.Token) token.Token {
	switch op {
	case token.LSS:
		return token.GTR
	case token.LEQ:
		return token.GEQ
	case token.GTR:
		return token.LSS
	case token.GEQ:
		return token.LEQ
	}
	return op
}

// Swap returns the same relation with operands exchanged.
func (r Rel) Swap() Rel { return Rel{swapOp(r.Op), r.Y, r.X} }

// Neg returns the negated relation.
func (r Rel) Neg() Rel { return Rel{negOp(r.Op), r.X, r.Y} }

// CondRel decomposes a boolean SSA value into a relation (looking through `!`).
func CondRel(cond ssa.Value) (Rel, bool) {
	neg := false
	for {
		if u, ok := cond.(*ssa.UnOp); ok && u.Op == token.NOT {
			neg = !neg
			cond = u.X
			continue
		}
		break
	}
	b, ok := cond.(*ssa.BinOp)
	if !ok {
		return Rel{}, false
	}
	switch b.Op {
	case token.EQL, token.NEQ, token.LSS, token.LEQ, token.GTR, token.GEQ:
	default:
		return Rel{}, false
	}
	r := Rel{b.Op, b.X, b.Y}
	if neg {
		r = r.Neg()
	}
	return r, true
}

// EdgeRel returns the relation that holds on the succIdx-th out-edge of an If block.
func EdgeRel(b *ssa.BasicBlock, succIdx int) (Rel, bool) {
	if len(b.Instrs) == 0 {
		return Rel{}, false
	}
	iff, ok := b.Instrs[len(b.Instrs)-1].(*ssa.If)
	if !ok {
		return Rel{}, false
	}
	r, ok := CondRel(iff.Cond)
	if !ok {
		return Rel{}, false
	}
	if succIdx == 1 {
		r = r.Neg()
	}
	return r, true
}

// BoolEdge describes `v` being true (or false) on an out-edge: for conditions that are not
// relations (a call result, a phi of &&/||).
// CondTruth returns the underlying non-negated value and the polarity under which the
// succIdx-th edge is taken.
func CondTruth(b *ssa.BasicBlock, succIdx int) (ssa.Value, bool, bool) {
	if len(b.Instrs) == 0 {
		return nil, false, false
	}
	iff, ok := b.Instrs[len(b.Instrs)-1].(*ssa.If)
	if !ok {
		return nil, false, false
	}
	v := iff.Cond
	pol := succIdx == 0
	for {
		if u, ok := v.(*ssa.UnOp); ok && u.Op == token.NOT {
			pol = !pol
			v = u.X
			continue
		}
		break
	}
	return v, pol, true
}

// IfOf returns the If terminating block b, if any.
func IfOf(b *ssa.BasicBlock) *ssa.If {
	if len(b.Instrs) == 0 {
		return nil
	}
	iff, _ := b.Instrs[len(b.Instrs)-1].(*ssa.If)
	return iff
}

// StripConv removes numeric conversions.
func StripConv(v ssa.Value) ssa.Value {
	for {
		switch x := v.(type) {
		case *ssa.Convert:
			v = x.X
		case *ssa.ChangeType:
			v = x.X
		default:
			return v
		}
	}
}

// LenOf returns x if v is len(x) (through numeric conversions).
func LenOf(v ssa.Value) ssa.Value {
	v = StripConv(v)
	c, ok := v.(*ssa.Call)
	if !ok {
		return nil
	}
	if b, ok := c.Call.Value.(*ssa.Builtin); ok && b.Name() == "len" && len(c.Call.Args) == 1 {
		return c.Call.Args[0]
	}
	return nil
}

// ReachesWithout reports whether target is reachable from the start of block `from`
// without executing any Avoid instruction.
func BlockReaches(from *ssa.BasicBlock, target Pred, avoid Pred) ssa.Instruction {
	s := &Search{Target: target, Avoid: avoid}
	return s.FromBlockStart(from)
}

// ReplyPrefix extracts the constant prefix of a string-valued SSA expression: a constant,
// constant + x, or fmt.Sprintf with a constant format. ok=false if nothing is constant.
func ReplyPrefix(v ssa.Value) (string, bool) {
	switch x := v.(type) {
	case *ssa.Const:
		return ConstString(x)
	case *ssa.BinOp:
		if x.Op == token.ADD {
			return ReplyPrefix(x.X)
		}
	case *ssa.Call:
		if CalleeName(x.Common()) == "fmt.Sprintf" && len(x.Call.Args) > 0 {
			if s, ok := ConstString(x.Call.Args[0]); ok {
				// keep only the part before the first verb
				for i := 0; i < len(s); i++ {
					if s[i] == '%' {
						return s[:i], true
					}
				}
				return s, true
			}
		}
	case *ssa.Phi:
		var pre string
		for i, e := range x.Edges {
			s, ok := ReplyPrefix(e)
			if !ok {
				return "", false
			}
			if i == 0 {
				pre = s
			} else {
				n := 0
				for n < len(pre) && n < len(s) && pre[n] == s[n] {
					n++
				}
				pre = pre[:n]
			}
		}
		return pre, true
	}
	return "", false
}

// EdgeDominates reports whether the succIdx-th out-edge of b dominates block at: the
// successor has b as its only predecessor and dominates at.
func EdgeDominates(b *ssa.BasicBlock, succIdx int, at *ssa.BasicBlock) bool {
	s := b.Succs[succIdx]
	if len(s.Preds) != 1 {
		return false
	}
	return s.Dominates(at)
}

// ValueAliases returns v plus the loads that re-read v from a local variable cell it was
// just spilled to (`*c = v; ...; t = *c` in one block with no store to c between). go/ssa
// spills named results and captured locals this way.
func ValueAliases(v ssa.Value) []ssa.Value {
	out := []ssa.Value{v}
	if v.Referrers() == nil {
		return out
	}
	for _, ref := range *v.Referrers() {
		st, ok := ref.(*ssa.Store)
		if !ok || st.Val != v {
			continue
		}
		if _, isLocal := st.Addr.(*ssa.Alloc); !isLocal {
			continue
		}
		b := st.Block()
		i := idxIn(b, st)
		for j := i + 1; j < len(b.Instrs); j++ {
			switch x := b.Instrs[j].(type) {
			case *ssa.Store:
				if x.Addr == st.Addr {
					j = len(b.Instrs)
				}
			case *ssa.UnOp:
				if x.Op == token.MUL && x.X == st.Addr {
					out = append(out, x)
				}
			case *ssa.Call, *ssa.Go, *ssa.RunDefers:
				if al := st.Addr.(*ssa.Alloc); al.Heap {
					j = len(b.Instrs) // a callee may write a captured cell
				}
			}
		}
	}
	return out
}

func knownRel(v ssa.Value, at *ssa.BasicBlock, op token.Token) bool {
	al := ValueAliases(v)
	for _, b := range at.Parent().Blocks {
		if len(b.Succs) != 2 {
			continue
		}
		for k := range b.Succs {
			r, ok := EdgeRel(b, k)
			if !ok || r.Op != op {
				continue
			}
			x, y := r.X, r.Y
			if IsNilConst(x) {
				x, y = y, x
			}
			if !IsNilConst(y) || !EdgeDominates(b, k, at) {
				continue
			}
			for _, a := range al {
				if x == a {
					return true
				}
			}
		}
	}
	return false
}

// KnownNonNil reports whether v (or a spilled copy of it) is known non-nil in block at by
// a dominating `v != nil` edge.
func KnownNonNil(v ssa.Value, at *ssa.BasicBlock) bool { return knownRel(v, at, token.NEQ) }

// KnownNil reports whether v (or a spilled copy of it) is known nil in block at.
func KnownNil(v ssa.Value, at *ssa.BasicBlock) bool { return knownRel(v, at, token.EQL) }

// NilEdgeOf finds the out-edge on which v (or a spilled copy) == nil; returns its target.
func NilEdgeOf(fn *ssa.Function, v ssa.Value) *ssa.BasicBlock {
	al := ValueAliases(v)
	for _, b := range fn.Blocks {
		if len(b.Succs) != 2 {
			continue
		}
		for k := range b.Succs {
			r, ok := EdgeRel(b, k)
			if !ok || r.Op != token.EQL {
				continue
			}
			x, y := r.X, r.Y
			if IsNilConst(x) {
				x, y = y, x
			}
			if !IsNilConst(y) {
				continue
			}
			for _, a := range al {
				if x == a {
					return b.Succs[k]
				}
			}
		}
	}
	return nil
}

// KnownBool reports the truth value boolean v (or a spilled copy of it) is known to have in
// block at, by a dominating branch edge on v or !v.
func KnownBool(v ssa.Value, at *ssa.BasicBlock) (val, known bool) {
	al := ValueAliases(v)
	for _, b := range at.Parent().Blocks {
		if len(b.Succs) != 2 {
			continue
		}
		for k := range b.Succs {
			cv, pol, ok := CondTruth(b, k)
			if !ok || !EdgeDominates(b, k, at) {
				continue
			}
			for _, a := range al {
				if cv == a {
					return pol, true
				}
			}
		}
	}
	return false, false
}

// PhiDeadEdges returns the incoming edges of phi whose value can never be used: in
//
//	v, err := f(); if err == nil { v, err = g(v) }; if err != nil { return …, err }; use(v)
//
// v is φ(f's v, g's v) and err is φ(f's err, g's err) in one block. The edge that skips g is the
// edge on which f's err is not nil, so there the err-φ is not nil either, and every use of the
// v-φ lies behind the test that the err-φ is nil: on that edge the v-φ is dead. An edge i is
// reported when (1) a sibling φ of error type takes, on edge i, a value e such that the CFG edge
// pred_i→block is the `e != nil` edge of pred_i, and (2) every referrer of phi sits in a block
// dominated by an edge on which that sibling φ is nil.
func PhiDeadEdges(phi *ssa.Phi) map[int]bool {
	out := map[int]bool{}
	b := phi.Block()
	for _, in := range b.Instrs {
		sib, ok := in.(*ssa.Phi)
		if !ok {
			break
		}
		if sib == phi || !isErrorIface(sib.Type()) {
			continue
		}
		// (2) uses behind sib == nil
		if phi.Referrers() == nil {
			continue
		}
		allBehind := true
		for _, ref := range *phi.Referrers() {
			if _, isDbg := ref.(*ssa.DebugRef); isDbg {
				continue
			}
			if !KnownNil(sib, ref.Block()) {
				allBehind = false
				break
			}
		}
		if !allBehind {
			continue
		}
		for i, pb := range b.Preds {
			if i >= len(sib.Edges) || len(pb.Succs) != 2 {
				continue
			}
			for k, sb := range pb.Succs {
				if sb != b {
					continue
				}
				rel, okR := EdgeRel(pb, k)
				if !okR || rel.Op != token.NEQ {
					continue
				}
				x, y := rel.X, rel.Y
				if IsNilConst(x) {
					x, y = y, x
				}
				if IsNilConst(y) && x == sib.Edges[i] {
					out[i] = true
				}
			}
		}
	}
	return out
}

func isErrorIface(t types.Type) bool {
	return types.Identical(t, types.Universe.Lookup("error").Type())
}
