// Package eng holds the shared engines of the inbucket static checker: loading the
// type-checked program from /repo's working tree, SSA + call graph construction, anchor
// resolution through go/types, and CFG/path/value-flow helpers used by the rules.
package eng

import (
	"fmt"
	"go/ast"
	"go/token"
	"go/types"
	"os"
	"sort"
	"strings"

	"golang.org/x/tools/go/callgraph"
	"golang.org/x/tools/go/callgraph/cha"
	"golang.org/x/tools/go/callgraph/vta"
	"golang.org/x/tools/go/packages"
	"golang.org/x/tools/go/ssa"
	"golang.org/x/tools/go/ssa/ssautil"
)

// Mod is the module path of the analysed repository.
const Mod = "github.com/inbucket/inbucket/v3"

// Prog is the loaded, type-checked program with SSA and call graph.
type Prog struct {
	Dir    string
	Fset   *token.FileSet
	Pkgs   []*packages.Package // module packages only (non-test)
	ByPath map[string]*packages.Package
	SSA    *ssa.Program
	// Funcs: every function with a body whose origin is declared in the module (methods,
	// functions, closures, generic instantiations), excluding synthetic wrappers.
	Funcs []*ssa.Function
	all   map[*ssa.Function]bool
	cg    *callgraph.Graph
	chaCG *callgraph.Graph
	// TestSupport: module packages that import "testing" (not *_test files): excluded as callers.
	TestSupport map[string]bool
	Unresolved  []string
}

// LoadOpts configures Load.
type LoadOpts struct {
	Dir     string
	Overlay map[string][]byte
	Env     []string
}

// Load loads ./... of the module in opts.Dir. Any type error is a hard failure.
func Load(opts LoadOpts) (*Prog, error) {
	fset := token.NewFileSet()
	env := append(os.Environ(), "GOFLAGS=-mod=mod", "GOPROXY=off", "GOSUMDB=off", "GOWORK=off", "GOTOOLCHAIN=local")
	env = append(env, opts.Env...)
	cfg := &packages.Config{
		Mode:    packages.LoadAllSyntax,
		Dir:     opts.Dir,
		Fset:    fset,
		Tests:   false,
		Overlay: opts.Overlay,
		Env:     env,
	}
	initial, err := packages.Load(cfg, "./...")
	if err != nil {
		return nil, fmt.Errorf("packages.Load: %w", err)
	}
	if len(initial) == 0 {
		return nil, fmt.Errorf("no packages loaded from %s", opts.Dir)
	}
	var errs []string
	packages.Visit(initial, nil, func(p *packages.Package) {
		for _, e := range p.Errors {
			errs = append(errs, e.Error())
		}
	})
	if len(errs) > 0 {
		sort.Strings(errs)
		if len(errs) > 10 {
			errs = errs[:10]
		}
		return nil, fmt.Errorf("type/load errors:\n  %s", strings.Join(errs, "\n  "))
	}
	p := &Prog{Dir: opts.Dir, Fset: fset, ByPath: map[string]*packages.Package{}, TestSupport: map[string]bool{}}
	for _, pk := range initial {
		if !strings.HasPrefix(pk.PkgPath, Mod) {
			continue
		}
		p.Pkgs = append(p.Pkgs, pk)
		p.ByPath[pk.PkgPath] = pk
		for imp := range pk.Imports {
			if imp == "testing" {
				p.TestSupport[pk.PkgPath] = true
			}
		}
	}
	if len(p.Pkgs) < 20 {
		return nil, fmt.Errorf("only %d module packages loaded (expected >= 20)", len(p.Pkgs))
	}
	sort.Slice(p.Pkgs, func(i, j int) bool { return p.Pkgs[i].PkgPath < p.Pkgs[j].PkgPath })

	prog, _ := ssautil.AllPackages(initial, ssa.InstantiateGenerics)
	prog.Build()
	p.SSA = prog
	p.all = ssautil.AllFunctions(prog)
	for fn := range p.all {
		if fn.Blocks == nil {
			continue
		}
		if fn.Synthetic != "" && fn.Origin() == nil {
			// wrappers, thunks, bound methods, package init
			if !strings.HasPrefix(fn.Synthetic, "instance of") {
				continue
			}
		}
		if InModule(fn) {
			p.Funcs = append(p.Funcs, fn)
		}
	}
	sort.Slice(p.Funcs, func(i, j int) bool {
		a, b := p.Funcs[i], p.Funcs[j]
		if a.String() != b.String() {
			return a.String() < b.String()
		}
		return a.Pos() < b.Pos()
	})
	return p, nil
}

// InModule reports whether fn (or, for closures, its outermost parent; for instantiations,
// its generic origin) is declared in the analysed module.
func InModule(fn *ssa.Function) bool {
	pk := FuncPkgPath(fn)
	return strings.HasPrefix(pk, Mod)
}

// FuncPkgPath returns the declaring package path of fn, looking through closures and
// generic instantiations (whose Pkg is nil).
func FuncPkgPath(fn *ssa.Function) string {
	for fn.Parent() != nil {
		fn = fn.Parent()
	}
	if o := fn.Origin(); o != nil {
		fn = o
	}
	if fn.Pkg != nil {
		return fn.Pkg.Pkg.Path()
	}
	if obj := fn.Object(); obj != nil && obj.Pkg() != nil {
		return obj.Pkg().Path()
	}
	return ""
}

// Outer returns the outermost enclosing declared function of fn.
func Outer(fn *ssa.Function) *ssa.Function {
	for fn.Parent() != nil {
		fn = fn.Parent()
	}
	return fn
}

// IsTestSupport reports whether fn is declared in a test-support package.
func (p *Prog) IsTestSupport(fn *ssa.Function) bool {
	return p.TestSupport[FuncPkgPath(fn)]
}

// CG returns the VTA-over-CHA call graph (built lazily).
func (p *Prog) CG() *callgraph.Graph {
	if p.cg == nil {
		p.chaCG = cha.CallGraph(p.SSA)
		p.cg = vta.CallGraph(p.all, p.chaCG)
	}
	return p.cg
}

// Pkg returns the types.Package for a module-relative path like "pkg/storage/mem".
func (p *Prog) Pkg(rel string) *types.Package {
	pk := p.ByPath[Mod+"/"+rel]
	if pk == nil {
		p.Unresolved = append(p.Unresolved, "package "+rel)
		return nil
	}
	return pk.Types
}

// Obj looks up a package-level object.
func (p *Prog) Obj(rel, name string) types.Object {
	pk := p.Pkg(rel)
	if pk == nil {
		return nil
	}
	o := pk.Scope().Lookup(name)
	if o == nil {
		p.Unresolved = append(p.Unresolved, rel+"."+name)
	}
	return o
}

// Named looks up a named type.
func (p *Prog) Named(rel, name string) *types.Named {
	o := p.Obj(rel, name)
	if o == nil {
		return nil
	}
	tn, ok := o.(*types.TypeName)
	if !ok {
		p.Unresolved = append(p.Unresolved, rel+"."+name+" (not a type)")
		return nil
	}
	n, _ := tn.Type().(*types.Named)
	if n == nil {
		p.Unresolved = append(p.Unresolved, rel+"."+name+" (not named)")
	}
	return n
}

// Field resolves a struct field of a named struct type.
func (p *Prog) Field(rel, typ, field string) *types.Var {
	n := p.Named(rel, typ)
	if n == nil {
		return nil
	}
	st, ok := n.Underlying().(*types.Struct)
	if !ok {
		p.Unresolved = append(p.Unresolved, rel+"."+typ+" (not a struct)")
		return nil
	}
	for i := 0; i < st.NumFields(); i++ {
		if st.Field(i).Name() == field {
			return st.Field(i)
		}
	}
	// promoted from an embedded struct of the same package (the goroutine-owned fields of a
	// type grouped into an embedded record)
	if f := promotedField(st, field, 0); f != nil {
		return f
	}
	if f := nestedField(st, n.Obj().Pkg(), field); f != nil {
		return f
	}
	p.Unresolved = append(p.Unresolved, rel+"."+typ+"."+field)
	return nil
}

// nestedField finds the field in a record of the same package that the type holds by value
// (fields regrouped into a carrier struct: mbox.idx.messages for mbox.messages). The
// name is the same, or — when the carrier's name already says what the prefix said — the old
// name's tail (idx.path for indexPath, idx.loaded for indexLoaded); the match must be unique.
func nestedField(st *types.Struct, pkg *types.Package, field string) *types.Var {
	var exact, tail []*types.Var
	for i := 0; i < st.NumFields(); i++ {
		f := st.Field(i)
		if f.Embedded() {
			continue
		}
		// held by value: a pointer is a reference to another object (mbox.store), not a part
		nn, ok := f.Type().(*types.Named)
		if !ok || nn.Obj().Pkg() != pkg {
			continue
		}
		est, ok := nn.Underlying().(*types.Struct)
		if !ok {
			continue
		}
		for j := 0; j < est.NumFields(); j++ {
			g := est.Field(j)
			switch {
			case g.Name() == field:
				exact = append(exact, g)
			case len(g.Name()) >= 4 && len(field) > len(g.Name()) && strings.EqualFold(field[len(field)-len(g.Name()):], g.Name()):
				tail = append(tail, g)
			}
		}
	}
	if len(exact) == 1 {
		return exact[0]
	}
	if len(exact) == 0 && len(tail) == 1 {
		return tail[0]
	}
	return nil
}

func promotedField(st *types.Struct, field string, depth int) *types.Var {
	if depth > 2 {
		return nil
	}
	for i := 0; i < st.NumFields(); i++ {
		f := st.Field(i)
		if !f.Embedded() {
			continue
		}
		t := f.Type()
		if pt, ok := t.(*types.Pointer); ok {
			t = pt.Elem()
		}
		est, ok := t.Underlying().(*types.Struct)
		if !ok {
			continue
		}
		for j := 0; j < est.NumFields(); j++ {
			if est.Field(j).Name() == field {
				return est.Field(j)
			}
		}
		if g := promotedField(est, field, depth+1); g != nil {
			return g
		}
	}
	return nil
}

// OptField is Field without recording an unresolved anchor when absent.
func (p *Prog) OptField(rel, typ, field string) *types.Var {
	pk := p.ByPath[Mod+"/"+rel]
	if pk == nil {
		return nil
	}
	o := pk.Types.Scope().Lookup(typ)
	if o == nil {
		return nil
	}
	st, ok := o.Type().Underlying().(*types.Struct)
	if !ok {
		return nil
	}
	for i := 0; i < st.NumFields(); i++ {
		if st.Field(i).Name() == field {
			return st.Field(i)
		}
	}
	if f := promotedField(st, field, 0); f != nil {
		return f
	}
	return nestedField(st, pk.Types, field)
}

// MutexField resolves the (first) field of a struct type whose type is sync.Mutex or
// sync.RWMutex, or a pointer to one: the lock is identified by what it is, not by its name.
func (p *Prog) MutexField(rel, typ string) *types.Var {
	n := p.Named(rel, typ)
	if n == nil {
		return nil
	}
	st, ok := n.Underlying().(*types.Struct)
	if !ok {
		p.Unresolved = append(p.Unresolved, rel+"."+typ+" (not a struct)")
		return nil
	}
	for i := 0; i < st.NumFields(); i++ {
		t := st.Field(i).Type()
		if pt, ok := t.(*types.Pointer); ok {
			t = pt.Elem()
		}
		if nt, ok := t.(*types.Named); ok && nt.Obj().Pkg() != nil && nt.Obj().Pkg().Path() == "sync" && (nt.Obj().Name() == "Mutex" || nt.Obj().Name() == "RWMutex") {
			return st.Field(i)
		}
	}
	p.Unresolved = append(p.Unresolved, rel+"."+typ+" (no mutex field)")
	return nil
}

// Func resolves a package-level function to its SSA function.
func (p *Prog) Func(rel, name string) *ssa.Function {
	o := p.Obj(rel, name)
	if o == nil {
		return nil
	}
	f, ok := o.(*types.Func)
	if !ok {
		p.Unresolved = append(p.Unresolved, rel+"."+name+" (not a func)")
		return nil
	}
	fn := p.SSA.FuncValue(f)
	if fn == nil {
		p.Unresolved = append(p.Unresolved, rel+"."+name+" (no SSA)")
	}
	return fn
}

// MethodObj resolves a method's types.Func on a named type (pointer or value receiver), or
// an interface method.
func (p *Prog) MethodObj(rel, typ, method string) *types.Func {
	n := p.Named(rel, typ)
	if n == nil {
		return nil
	}
	obj, _, _ := types.LookupFieldOrMethod(types.NewPointer(n), true, n.Obj().Pkg(), method)
	if obj == nil {
		obj, _, _ = types.LookupFieldOrMethod(n, true, n.Obj().Pkg(), method)
	}
	f, ok := obj.(*types.Func)
	if !ok {
		p.Unresolved = append(p.Unresolved, rel+"."+typ+"."+method)
		return nil
	}
	return f
}

// Method resolves a concrete method to its SSA function.
func (p *Prog) Method(rel, typ, method string) *ssa.Function {
	f := p.MethodObj(rel, typ, method)
	if f == nil {
		return nil
	}
	fn := p.SSA.FuncValue(f)
	if fn == nil {
		p.Unresolved = append(p.Unresolved, rel+"."+typ+"."+method+" (no SSA)")
	}
	return fn
}

// OptMethod is Method without recording an unresolved anchor when absent.
func (p *Prog) OptMethod(rel, typ, method string) *ssa.Function {
	pk := p.ByPath[Mod+"/"+rel]
	if pk == nil {
		return nil
	}
	o := pk.Types.Scope().Lookup(typ)
	if o == nil {
		return nil
	}
	n, _ := o.Type().(*types.Named)
	if n == nil {
		return nil
	}
	obj, _, _ := types.LookupFieldOrMethod(types.NewPointer(n), true, n.Obj().Pkg(), method)
	f, ok := obj.(*types.Func)
	if !ok {
		return nil
	}
	return p.SSA.FuncValue(f)
}

// Implementers returns the module's named non-interface types T such that T or *T implements
// iface, in deterministic order.
func (p *Prog) Implementers(iface *types.Interface, includeTestSupport bool) []*types.Named {
	var out []*types.Named
	for _, pk := range p.Pkgs {
		if !includeTestSupport && p.TestSupport[pk.PkgPath] {
			continue
		}
		sc := pk.Types.Scope()
		for _, name := range sc.Names() {
			tn, ok := sc.Lookup(name).(*types.TypeName)
			if !ok || tn.IsAlias() {
				continue
			}
			n, ok := tn.Type().(*types.Named)
			if !ok || types.IsInterface(n) || n.TypeParams().Len() > 0 {
				continue
			}
			if types.Implements(n, iface) || types.Implements(types.NewPointer(n), iface) {
				out = append(out, n)
			}
		}
	}
	return out
}

// MethodOf returns the SSA function implementing method name on *T (or T).
func (p *Prog) MethodOf(n *types.Named, name string) *ssa.Function {
	obj, _, _ := types.LookupFieldOrMethod(types.NewPointer(n), true, n.Obj().Pkg(), name)
	f, ok := obj.(*types.Func)
	if !ok {
		return nil
	}
	return p.SSA.FuncValue(f)
}

// Pos renders a position relative to the repo directory.
func (p *Prog) Pos(pos token.Pos) string {
	if !pos.IsValid() {
		return "?"
	}
	ps := p.Fset.Position(pos)
	f := strings.TrimPrefix(ps.Filename, p.Dir+"/")
	return fmt.Sprintf("%s:%d", f, ps.Line)
}

// InstrPos returns the best-known position of an instruction (falls back to neighbours in
// the same block, then to the function).
func (p *Prog) InstrPos(in ssa.Instruction) string {
	if in == nil {
		return "?"
	}
	if in.Pos().IsValid() {
		return p.Pos(in.Pos())
	}
	if v, ok := in.(ssa.Value); ok {
		_ = v
	}
	b := in.Block()
	if b != nil {
		idx := -1
		for i, x := range b.Instrs {
			if x == in {
				idx = i
			}
		}
		for d := 1; d < len(b.Instrs); d++ {
			for _, j := range []int{idx - d, idx + d} {
				if j >= 0 && j < len(b.Instrs) && b.Instrs[j].Pos().IsValid() {
					return p.Pos(b.Instrs[j].Pos()) + "~"
				}
			}
		}
		return p.Pos(b.Parent().Pos()) + "~"
	}
	return "?"
}

// FuncName is a short stable name for a function: pkg-relative, with closures as parent$N.
func FuncName(fn *ssa.Function) string {
	if fn == nil {
		return "<nil>"
	}
	s := fn.String()
	s = strings.ReplaceAll(s, Mod+"/", "")
	return s
}

// FileOf returns the parsed file containing pos.
func (p *Prog) FileOf(pos token.Pos) *ast.File {
	for _, pk := range p.Pkgs {
		for _, f := range pk.Syntax {
			if f.Pos() <= pos && pos < f.End() {
				return f
			}
		}
	}
	return nil
}
