package eng

import (
	"fmt"
	"go/token"
	"go/types"

	"golang.org/x/tools/go/ssa"
)

// ChanOp is one operation on a channel.
type ChanOp struct {
	Kind     string // send | recv | close | range
	InSelect bool
	Blocking bool // for select: the select has no default; plain ops are blocking
	Discard  bool // recv whose value is not used
	Fn       *ssa.Function
	In       ssa.Instruction
	Select   *ssa.Select
	State    int // index of the select state
}

// ChanKey identifies a channel by the struct field, global or make site it lives in.
func ChanKey(v ssa.Value, depth int) (string, *types.Var) {
	if depth > 5 || v == nil {
		return "", nil
	}
	if f := LoadedField(v); f != nil {
		return "field:" + fieldName(f), f
	}
	switch x := v.(type) {
	case *ssa.MakeChan:
		return fmt.Sprintf("make:%s@%d", FuncName(x.Parent()), x.Pos()), nil
	case *ssa.ChangeType:
		return ChanKey(x.X, depth+1)
	case *ssa.UnOp:
		if x.Op == token.MUL {
			if g, ok := x.X.(*ssa.Global); ok {
				return "global:" + g.String(), nil
			}
			if cell := CellOf(x.X); cell != nil {
				for _, st := range CellStores(cell) {
					if k, f := ChanKey(st.Val, depth+1); k != "" {
						return k, f
					}
				}
			}
		}
	case *ssa.Call:
		// method returning a channel (ctx.Done(), Notify())
		return "call:" + CalleeName(x.Common()), nil
	case *ssa.Parameter:
		return "param:" + FuncName(x.Parent()) + "." + x.Name(), nil
	}
	return "", nil
}

func fieldName(f *types.Var) string {
	pk := ""
	if f.Pkg() != nil {
		pk = f.Pkg().Path()
	}
	return pk + "." + f.Name() + fmt.Sprintf("@%d", f.Pos())
}

// ChanOps inventories channel operations in fns, keyed by channel.
func ChanOps(fns []*ssa.Function) map[string][]ChanOp {
	out := map[string][]ChanOp{}
	add := func(v ssa.Value, op ChanOp) {
		k, _ := ChanKey(v, 0)
		if k == "" {
			k = "unknown"
		}
		out[k] = append(out[k], op)
	}
	for _, fn := range fns {
		fn := fn
		EachInstr(fn, func(in ssa.Instruction) {
			switch x := in.(type) {
			case *ssa.Send:
				add(x.Chan, ChanOp{Kind: "send", Blocking: true, Fn: fn, In: in})
			case *ssa.UnOp:
				if x.Op == token.ARROW {
					disc := x.Referrers() == nil || len(*x.Referrers()) == 0
					add(x.X, ChanOp{Kind: "recv", Blocking: true, Discard: disc, Fn: fn, In: in})
				}
			case *ssa.Range:
				if _, ok := x.X.Type().Underlying().(*types.Chan); ok {
					add(x.X, ChanOp{Kind: "recv", Blocking: true, Fn: fn, In: in})
				}
			case *ssa.Select:
				for i, st := range x.States {
					k := "recv"
					if st.Dir == types.SendOnly {
						k = "send"
					}
					disc := false
					if k == "recv" {
						disc = !selectValueUsed(x, i)
					}
					add(st.Chan, ChanOp{Kind: k, InSelect: true, Blocking: x.Blocking, Discard: disc, Fn: fn, In: in, Select: x, State: i})
				}
			case *ssa.Call:
				if CalleeName(x.Common()) == "builtin.close" {
					add(x.Call.Args[0], ChanOp{Kind: "close", Fn: fn, In: in})
				}
			}
		})
	}
	return out
}

// selectValueUsed: the received value (or ok flag) of the i-th recv state is extracted.
func selectValueUsed(s *ssa.Select, state int) bool {
	if s.Referrers() == nil {
		return false
	}
	// tuple layout: index, recvOk, then one value per recv state in order
	recvIdx := 0
	for i := 0; i < state; i++ {
		if s.States[i].Dir == types.RecvOnly {
			recvIdx++
		}
	}
	want := 2 + recvIdx
	for _, ref := range *s.Referrers() {
		if e, ok := ref.(*ssa.Extract); ok && e.Index == want && e.Referrers() != nil && len(*e.Referrers()) > 0 {
			return true
		}
	}
	return false
}

// SelectArm returns the block executed when the i-th state of sel is chosen.
func SelectArm(sel *ssa.Select, state int) *ssa.BasicBlock {
	// go/ssa lowers select into a chain `idx == k ? body : next`
	var idx ssa.Value
	if sel.Referrers() == nil {
		return nil
	}
	for _, ref := range *sel.Referrers() {
		if e, ok := ref.(*ssa.Extract); ok && e.Index == 0 {
			idx = e
		}
	}
	if idx == nil {
		return nil
	}
	for _, b := range sel.Parent().Blocks {
		r, ok := EdgeRel(b, 0)
		if !ok || r.Op != token.EQL || r.X != idx {
			continue
		}
		if k, ok := ConstInt(r.Y); ok && int(k) == state {
			return b.Succs[0]
		}
	}
	return nil
}

// SelectDefault returns the block executed when a non-blocking select takes its default.
func SelectDefault(sel *ssa.Select) *ssa.BasicBlock {
	if sel.Blocking {
		return nil
	}
	// follow the chain of idx==k tests to the final else
	var idx ssa.Value
	for _, ref := range *sel.Referrers() {
		if e, ok := ref.(*ssa.Extract); ok && e.Index == 0 {
			idx = e
		}
	}
	if idx == nil {
		return nil
	}
	var last *ssa.BasicBlock
	for _, b := range sel.Parent().Blocks {
		r, ok := EdgeRel(b, 0)
		if ok && r.Op == token.EQL && r.X == idx {
			if k, ok := ConstInt(r.Y); ok && int(k) == len(sel.States)-1 {
				last = b.Succs[1]
			}
		}
	}
	return last
}
