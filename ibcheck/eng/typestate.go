package eng

import (
	"fmt"
	"go/token"
	"go/types"
	"sort"

	"golang.org/x/tools/go/ssa"
)

// TSConfig is one abstract configuration: a tuple of small enums. The meaning of the
// components is given by the model (e.g. session state, envelope emptiness, replies since
// the last input read).
type TSConfig struct {
	A, B, C, D int64
	// E identifies a function-value binding (index+1 into TS.binds; 0 = none): the function a
	// call result or phi of function type is known to hold on this path, so that a dispatch
	// through a returned or selected method value is followed like a static call.
	E int64
	// F records one boolean parameter of the function being analysed whose value the caller
	// fixed (0 = none; otherwise 1 + 2*index + value): `resetOn(verb, clear bool)` called with
	// a constant, or with a condition the model can evaluate in the caller's configuration, is
	// analysed with the branch on that parameter resolved.
	F int64
}

func (c TSConfig) String() string {
	return fmt.Sprintf("(%d,%d,%d,%d,%d,%d)", c.A, c.B, c.C, c.D, c.E, c.F)
}

// TSDispatch is an optional extension of a model: the function a dynamic call runs in a
// configuration (a handler taken from a table keyed by the session state).
type TSDispatch interface {
	ResolveCallee(call *ssa.Call, c TSConfig) *ssa.Function
}

// TSDispatchMulti is optionally implemented by a model for calls through a table whose key is
// not fixed by the configuration: every function the table holds may be the callee.
type TSDispatchMulti interface {
	ResolveCallees(call *ssa.Call, c TSConfig) []*ssa.Function
}

// TableCallees returns every function stored in the package-level map literal that v is looked
// up in (nil when v is not such a lookup or the map is written outside its initialiser).
func TableCallees(v ssa.Value) []*ssa.Function {
	if ex, ok := v.(*ssa.Extract); ok && ex.Index == 0 {
		v = ex.Tuple
	}
	lk, ok := v.(*ssa.Lookup)
	if !ok {
		return nil
	}
	u, ok := lk.X.(*ssa.UnOp)
	if !ok || u.Op != token.MUL {
		return nil
	}
	g, ok := u.X.(*ssa.Global)
	if !ok || g.Pkg == nil {
		return nil
	}
	var mm *ssa.MakeMap
	clean := true
	for _, m := range g.Pkg.Members {
		f, isF := m.(*ssa.Function)
		if !isF {
			continue
		}
		for _, h := range WithAnons(f) {
			EachInstr(h, func(in ssa.Instruction) {
				switch x := in.(type) {
				case *ssa.Store:
					if x.Addr == ssa.Value(g) {
						if mk, isMk := x.Val.(*ssa.MakeMap); isMk && h.Name() == "init" && mm == nil {
							mm = mk
						} else {
							clean = false
						}
					}
				case *ssa.MapUpdate:
					if lu, ok := x.Map.(*ssa.UnOp); ok && lu.X == ssa.Value(g) {
						clean = false
					}
				}
			})
		}
	}
	if mm == nil || !clean || mm.Referrers() == nil {
		return nil
	}
	var out []*ssa.Function
	for _, ref := range *mm.Referrers() {
		if mu, ok := ref.(*ssa.MapUpdate); ok {
			if f, _, isFn := FuncValueOf(mu.Value); isFn {
				out = append(out, f)
			} else {
				return nil
			}
		}
	}
	return out
}

// TableCallee resolves a call through a function taken from a package-level map literal that
// is indexed by a value the caller can evaluate (handlers[s.state]): v is the called value,
// keyOf reports the constant the index expression has in the current configuration. The map
// must be written only by its initialiser.
func TableCallee(v ssa.Value, keyOf func(idx ssa.Value) (int64, bool)) *ssa.Function {
	if ex, ok := v.(*ssa.Extract); ok && ex.Index == 0 {
		v = ex.Tuple
	}
	lk, ok := v.(*ssa.Lookup)
	if !ok {
		return nil
	}
	u, ok := lk.X.(*ssa.UnOp)
	if !ok || u.Op != token.MUL {
		return nil
	}
	g, ok := u.X.(*ssa.Global)
	if !ok || g.Pkg == nil {
		return nil
	}
	key, known := keyOf(lk.Index)
	if !known {
		return nil
	}
	var mm *ssa.MakeMap
	clean := true
	for _, m := range g.Pkg.Members {
		f, isF := m.(*ssa.Function)
		if !isF {
			continue
		}
		for _, h := range WithAnons(f) {
			EachInstr(h, func(in ssa.Instruction) {
				switch x := in.(type) {
				case *ssa.Store:
					if x.Addr == ssa.Value(g) {
						if mk, isMk := x.Val.(*ssa.MakeMap); isMk && h.Name() == "init" && mm == nil {
							mm = mk
						} else {
							clean = false
						}
					}
				case *ssa.MapUpdate:
					if lu, ok := x.Map.(*ssa.UnOp); ok && lu.X == ssa.Value(g) {
						clean = false
					}
				}
			})
		}
	}
	if mm == nil || !clean || mm.Referrers() == nil {
		return nil
	}
	for _, ref := range *mm.Referrers() {
		mu, ok := ref.(*ssa.MapUpdate)
		if !ok {
			continue
		}
		if k, isC := ConstInt(mu.Key); isC && k == key {
			if f, _, isFn := FuncValueOf(mu.Value); isFn {
				return f
			}
		}
	}
	return nil
}

// TSEval is an optional extension of a model: the truth of a boolean value in a configuration.
type TSEval interface {
	EvalBool(v ssa.Value, c TSConfig) (val, known bool)
}

func isBoolType(t types.Type) bool {
	b, ok := t.Underlying().(*types.Basic)
	return ok && b.Kind() == types.Bool
}

// tsBind: SSA value val holds function fn (nil: the nil function) on the current path.
type tsBind struct {
	val ssa.Value
	fn  *ssa.Function
}

// TSModel supplies the transfer functions of a typestate analysis.
type TSModel interface {
	// Descend reports whether calls to fn are analysed interprocedurally.
	Descend(fn *ssa.Function) bool
	// Step applies one instruction (that is not a descended call) to a configuration and
	// returns the successor configurations (usually one). It may record events.
	Step(in ssa.Instruction, c TSConfig) []TSConfig
	// Refine restricts c along the k-th out-edge of b; ok=false means the edge is infeasible.
	Refine(b *ssa.BasicBlock, k int, c TSConfig) (TSConfig, bool)
}

// TS is the interprocedural, disjunctive abstract interpreter.
type TS struct {
	M    TSModel
	memo map[tsKey][]TSConfig
	// exitsOf: for each summary, the (configuration, return instruction) pairs, used to
	// correlate a callee's constant boolean result with the branch taken on it by the caller
	exitsOf map[tsKey][]tsExit
	active  map[tsKey]bool
	// Reached: every (instruction, configuration-before) pair the analysis reached.
	Reached map[ssa.Instruction]map[TSConfig]bool
	// Exits: configurations at each return of each analysed function.
	Exits    map[*ssa.Return]map[TSConfig]bool
	Steps    int
	Recursed []string
	binds    []tsBind
}

func (t *TS) bindID(v ssa.Value, fn *ssa.Function) int64 {
	for i, b := range t.binds {
		if b.val == v && b.fn == fn {
			return int64(i + 1)
		}
	}
	t.binds = append(t.binds, tsBind{v, fn})
	return int64(len(t.binds))
}

func (t *TS) binding(id int64) (tsBind, bool) {
	if id <= 0 || int(id) > len(t.binds) {
		return tsBind{}, false
	}
	return t.binds[id-1], true
}

// FuncValueOf resolves a value that denotes one particular function: a function, a closure,
// a method value (the method behind the bound-method wrapper) or the nil function.
func FuncValueOf(v ssa.Value) (fn *ssa.Function, isNil, ok bool) {
	switch x := StripConv(v).(type) {
	case *ssa.Function:
		return UnwrapBound(x), false, true
	case *ssa.MakeClosure:
		if f, isF := x.Fn.(*ssa.Function); isF {
			return UnwrapBound(f), false, true
		}
	case *ssa.Const:
		if x.IsNil() {
			return nil, true, true
		}
	}
	return nil, false, false
}

// UnwrapBound maps a synthetic bound-method wrapper or thunk to the method it calls.
func UnwrapBound(f *ssa.Function) *ssa.Function {
	if f == nil || f.Synthetic == "" || f.Parent() != nil || len(f.Blocks) != 1 {
		return f
	}
	var callee *ssa.Function
	n := 0
	for _, in := range f.Blocks[0].Instrs {
		if c, ok := in.(*ssa.Call); ok {
			n++
			callee = c.Common().StaticCallee()
		}
	}
	if n == 1 && callee != nil {
		return callee
	}
	return f
}

type tsKey struct {
	fn *ssa.Function
	c  TSConfig
}

type tsExit struct {
	c   TSConfig
	ret *ssa.Return
}

// pending binds the constant boolean value a just-returned callee produced for a call
// result, until the end of the block in which the call occurs.
type pending struct {
	val ssa.Value
	idx int // result index (for tuples), 0 otherwise
	b   bool
	has bool
}

type tsState struct {
	c TSConfig
	p pending
}

// NewTS creates an analysis.
func NewTS(m TSModel) *TS {
	return &TS{M: m, memo: map[tsKey][]TSConfig{}, exitsOf: map[tsKey][]tsExit{}, active: map[tsKey]bool{},
		Reached: map[ssa.Instruction]map[TSConfig]bool{}, Exits: map[*ssa.Return]map[TSConfig]bool{}}
}

// Exec runs fn from the entry configuration and returns the set of exit configurations.
func (t *TS) Exec(fn *ssa.Function, entry TSConfig) []TSConfig {
	k := tsKey{fn, entry}
	if r, ok := t.memo[k]; ok {
		return r
	}
	if t.active[k] || len(fn.Blocks) == 0 {
		if t.active[k] {
			t.Recursed = append(t.Recursed, FuncName(fn))
		}
		return []TSConfig{entry}
	}
	t.active[k] = true
	type item struct {
		b *ssa.BasicBlock
		c TSConfig
	}
	seen := map[item]bool{}
	work := []item{{fn.Blocks[0], entry}}
	seen[work[0]] = true
	exits := map[TSConfig]bool{}
	var exitList []tsExit
	seenExit := map[tsExit]bool{}
	for len(work) > 0 {
		it := work[len(work)-1]
		work = work[:len(work)-1]
		cur := []tsState{{c: it.c}}
		terminated := false
		for _, in := range it.b.Instrs {
			var next []tsState
			for _, st := range cur {
				c := st.c
				t.Steps++
				if t.Reached[in] == nil {
					t.Reached[in] = map[TSConfig]bool{}
				}
				t.Reached[in][c] = true
				switch x := in.(type) {
				case *ssa.Return:
					if t.Exits[x] == nil {
						t.Exits[x] = map[TSConfig]bool{}
					}
					t.Exits[x][c] = true
					exits[c] = true
					if e := (tsExit{c, x}); !seenExit[e] {
						seenExit[e] = true
						exitList = append(exitList, e)
					}
					terminated = true
					continue
				case *ssa.Panic:
					terminated = true
					continue
				case *ssa.Call:
					g := UnwrapBound(StaticCallee(x.Common()))
					if g == nil && !x.Call.IsInvoke() {
						// a call through a function value bound on this path
						if b, ok := t.binding(c.E); ok && b.val == x.Call.Value {
							if b.fn == nil {
								continue // calling the nil function panics: no successor
							}
							g = b.fn
						}
					}
					if g == nil && !x.Call.IsInvoke() {
						if d, ok := t.M.(TSDispatch); ok {
							g = UnwrapBound(d.ResolveCallee(x, c))
						}
					}
					// a call through a table of functions whose key the configuration does not fix
					// (mechanisms[name](s, …)): any of the stored functions may run
					var multi []*ssa.Function
					if g == nil && !x.Call.IsInvoke() {
						if d, ok := t.M.(TSDispatchMulti); ok {
							for _, h := range d.ResolveCallees(x, c) {
								if h = UnwrapBound(h); h != nil && t.M.Descend(h) {
									multi = append(multi, h)
								}
							}
						}
					}
					if g != nil && t.M.Descend(g) {
						multi = []*ssa.Function{g}
					}
					for _, g := range multi {
						c0 := c
						c0.E = 0
						c0.F = 0
						if args := x.Call.Args; len(args) == len(g.Params) {
							for i, prm := range g.Params {
								if !isBoolType(prm.Type()) {
									continue
								}
								bv, known := ConstBool(args[i])
								if !known {
									if ev, ok := t.M.(TSEval); ok {
										bv, known = ev.EvalBool(args[i], c)
									}
								}
								if known {
									c0.F = 1 + 2*int64(i)
									if bv {
										c0.F++
									}
									break
								}
							}
						}
						t.Exec(g, c0)
						returnsFunc := false
						if sig := g.Signature; sig.Results().Len() == 1 {
							_, returnsFunc = sig.Results().At(0).Type().Underlying().(*types.Signature)
						}
						for _, e := range t.exitsOf[tsKey{g, c0}] {
							ns := tsState{c: e.c, p: st.p}
							ns.c.E = c.E
							ns.c.F = c.F
							// constant boolean results
							if e.ret != nil {
								res := ReturnResults(e.ret)
								for i, rv := range res {
									if bv, isC := ConstBool(rv); isC {
										ns.p = pending{val: x, idx: i, b: bv, has: true}
										if len(res) == 1 {
											break
										}
										// for tuples keep the last bool (the conventional ok flag)
									}
								}
								if returnsFunc && len(res) == 1 {
									if fv, _, ok := FuncValueOf(res[0]); ok {
										ns.c.E = t.bindID(x, fv)
									} else if c.E != 0 {
										if b, ok := t.binding(c.E); ok && b.val == ssa.Value(x) {
											ns.c.E = 0
										}
									}
								}
							}
							next = append(next, ns)
						}
						if len(t.exitsOf[tsKey{g, c0}]) == 0 {
							// recursion in progress or no exits recorded: fall back to configs
							for _, ec := range t.memo[tsKey{g, c0}] {
								ec.E = c.E
								ec.F = c.F
								next = append(next, tsState{c: ec, p: st.p})
							}
						}
					}
					if len(multi) > 0 {
						continue
					}
				}
				for _, nc := range t.M.Step(in, c) {
					next = append(next, tsState{c: nc, p: st.p})
				}
			}
			cur = dedupState(next)
			if terminated {
				break
			}
		}
		if terminated {
			continue
		}
		for k, s := range it.b.Succs {
			for _, st := range cur {
				nc := st.c
				if len(it.b.Succs) == 2 {
					if st.p.has {
						if v, pol, ok := CondTruth(it.b, k); ok && pendingMatches(st.p, v) {
							if st.p.b != pol {
								continue // the callee returned the other constant
							}
						}
					}
					// a boolean parameter the caller fixed
					if nc.F != 0 {
						pi, bv := int((nc.F-1)/2), (nc.F-1)%2 == 1
						if v, pol, ok := CondTruth(it.b, k); ok && pi < len(fn.Params) && v == ssa.Value(fn.Params[pi]) && bv != pol {
							continue
						}
					}
					// a bound function value compared with nil
					if b, has := t.binding(nc.E); has {
						if r, ok := EdgeRel(it.b, k); ok {
							x, y := StripConv(r.X), StripConv(r.Y)
							if IsNilConst(x) {
								x, y = y, x
							}
							if IsNilConst(y) && x == b.val {
								if (r.Op == token.EQL) != (b.fn == nil) && (r.Op == token.EQL || r.Op == token.NEQ) {
									continue
								}
							}
						}
					}
					var ok bool
					nc, ok = t.M.Refine(it.b, k, nc)
					if !ok {
						continue
					}
				}
				// function-typed phis of the successor: bind the value selected by this edge
				for _, pin := range s.Instrs {
					phi, isPhi := pin.(*ssa.Phi)
					if !isPhi {
						break
					}
					if _, isSig := phi.Type().Underlying().(*types.Signature); !isSig {
						continue
					}
					for pi, pred := range s.Preds {
						if pred == it.b && pi < len(phi.Edges) {
							if fv, _, ok := FuncValueOf(phi.Edges[pi]); ok {
								nc.E = t.bindID(phi, fv)
							} else if b, has := t.binding(nc.E); has && b.val == ssa.Value(phi) {
								nc.E = 0
							}
						}
					}
				}
				ni := item{s, nc}
				if !seen[ni] {
					seen[ni] = true
					work = append(work, ni)
				}
			}
		}
	}
	t.exitsOf[k] = exitList
	delete(t.active, k)
	out := make([]TSConfig, 0, len(exits))
	for c := range exits {
		out = append(out, c)
	}
	sort.Slice(out, func(i, j int) bool { return out[i].String() < out[j].String() })
	t.memo[k] = out
	return out
}

func dedupCfg(cs []TSConfig) []TSConfig {
	if len(cs) < 2 {
		return cs
	}
	seen := map[TSConfig]bool{}
	var out []TSConfig
	for _, c := range cs {
		if !seen[c] {
			seen[c] = true
			out = append(out, c)
		}
	}
	return out
}

// ConfigsAt returns the configurations under which instruction in was reached.
func (t *TS) ConfigsAt(in ssa.Instruction) []TSConfig {
	var out []TSConfig
	for c := range t.Reached[in] {
		out = append(out, c)
	}
	sort.Slice(out, func(i, j int) bool { return out[i].String() < out[j].String() })
	return out
}

// FunctionsAnalysed returns the number of (function, entry) summaries computed.
func (t *TS) FunctionsAnalysed() int { return len(t.memo) }

func pendingMatches(p pending, v ssa.Value) bool {
	if v == p.val && p.idx == 0 {
		return true
	}
	if e, ok := v.(*ssa.Extract); ok && e.Tuple == p.val && e.Index == p.idx {
		return true
	}
	return false
}

func dedupState(cs []tsState) []tsState {
	if len(cs) < 2 {
		return cs
	}
	seen := map[tsState]bool{}
	var out []tsState
	for _, c := range cs {
		if !seen[c] {
			seen[c] = true
			out = append(out, c)
		}
	}
	return out
}
