package eng

import (
	"fmt"
	"sort"

	"golang.org/x/tools/go/ssa"
)

// TSConfig is one abstract configuration: a tuple of small enums. The meaning of the
// components is given by the model (e.g. session state, envelope emptiness, replies since
// the last input read).
type TSConfig struct {
	A, B, C, D int64
}

func (c TSConfig) String() string { return fmt.Sprintf("(%d,%d,%d,%d)", c.A, c.B, c.C, c.D) }

// TSModel supplies the transfer functions of a typestate analysis.
type TSModel interface {
	// Descend reports whether calls to fn are analysed interprocedurally.
	Descend(fn *ssa.Function) bool
	// Step applies one instruction (that is not a descended call) to a configuration and
	// returns the successor configurations (usually one). It may record events.
	Step(in ssa.Instruction, c TSConfig) []TSConfig
	// Refine restricts c along the k-th out-edge of b; ok=false means the edge is infeasible.
	Refine(b *ssa.BasicBlock, k int, c TSConfig) (TSConfig, bool)
}

// TS is the interprocedural, disjunctive abstract interpreter.
type TS struct {
	M      TSModel
	memo   map[tsKey][]TSConfig
	active map[tsKey]bool
	// Reached: every (instruction, configuration-before) pair the analysis reached.
	Reached map[ssa.Instruction]map[TSConfig]bool
	// Exits: configurations at each return of each analysed function.
	Exits    map[*ssa.Return]map[TSConfig]bool
	Steps    int
	Recursed []string
}

type tsKey struct {
	fn *ssa.Function
	c  TSConfig
}

// NewTS creates an analysis.
func NewTS(m TSModel) *TS {
	return &TS{M: m, memo: map[tsKey][]TSConfig{}, active: map[tsKey]bool{},
		Reached: map[ssa.Instruction]map[TSConfig]bool{}, Exits: map[*ssa.Return]map[TSConfig]bool{}}
}

// Exec runs fn from the entry configuration and returns the set of exit configurations.
func (t *TS) Exec(fn *ssa.Function, entry TSConfig) []TSConfig {
	k := tsKey{fn, entry}
	if r, ok := t.memo[k]; ok {
		return r
	}
	if t.active[k] || len(fn.Blocks) == 0 {
		if t.active[k] {
			t.Recursed = append(t.Recursed, FuncName(fn))
		}
		return []TSConfig{entry}
	}
	t.active[k] = true
	type item struct {
		b *ssa.BasicBlock
		c TSConfig
	}
	seen := map[item]bool{}
	work := []item{{fn.Blocks[0], entry}}
	seen[work[0]] = true
	exits := map[TSConfig]bool{}
	for len(work) > 0 {
		it := work[len(work)-1]
		work = work[:len(work)-1]
		cur := []TSConfig{it.c}
		terminated := false
		for _, in := range it.b.Instrs {
			var next []TSConfig
			for _, c := range cur {
				t.Steps++
				if t.Reached[in] == nil {
					t.Reached[in] = map[TSConfig]bool{}
				}
				t.Reached[in][c] = true
				switch x := in.(type) {
				case *ssa.Return:
					if t.Exits[x] == nil {
						t.Exits[x] = map[TSConfig]bool{}
					}
					t.Exits[x][c] = true
					exits[c] = true
					terminated = true
					continue
				case *ssa.Panic:
					terminated = true
					continue
				case *ssa.Call:
					if g := StaticCallee(x.Common()); g != nil && t.M.Descend(g) {
						next = append(next, t.Exec(g, c)...)
						continue
					}
				}
				next = append(next, t.M.Step(in, c)...)
			}
			cur = dedupCfg(next)
			if terminated {
				break
			}
		}
		if terminated {
			continue
		}
		for k, s := range it.b.Succs {
			for _, c := range cur {
				nc := c
				if len(it.b.Succs) == 2 {
					var ok bool
					nc, ok = t.M.Refine(it.b, k, c)
					if !ok {
						continue
					}
				}
				ni := item{s, nc}
				if !seen[ni] {
					seen[ni] = true
					work = append(work, ni)
				}
			}
		}
	}
	delete(t.active, k)
	out := make([]TSConfig, 0, len(exits))
	for c := range exits {
		out = append(out, c)
	}
	sort.Slice(out, func(i, j int) bool { return out[i].String() < out[j].String() })
	t.memo[k] = out
	return out
}

func dedupCfg(cs []TSConfig) []TSConfig {
	if len(cs) < 2 {
		return cs
	}
	seen := map[TSConfig]bool{}
	var out []TSConfig
	for _, c := range cs {
		if !seen[c] {
			seen[c] = true
			out = append(out, c)
		}
	}
	return out
}

// ConfigsAt returns the configurations under which instruction in was reached.
func (t *TS) ConfigsAt(in ssa.Instruction) []TSConfig {
	var out []TSConfig
	for c := range t.Reached[in] {
		out = append(out, c)
	}
	sort.Slice(out, func(i, j int) bool { return out[i].String() < out[j].String() })
	return out
}

// FunctionsAnalysed returns the number of (function, entry) summaries computed.
func (t *TS) FunctionsAnalysed() int { return len(t.memo) }
