package rules

import (
	"fmt"
	"go/constant"
	"go/token"
	"go/types"
	"sort"
	"strings"

	"golang.org/x/tools/go/ssa"

	"ibcheck/eng"
)

func init() { Registry["C13"] = checkC13 }

const pop3Rel = "pkg/server/pop3"

type pop3Model struct {
	c                                  *Ctx
	fState, fMessages, fRetain, fCount *types.Var
	fHolder                            *types.Var // Session field holding the snapshot record, if the snapshot is a record of its own
	fStore                             *types.Var
	states                             map[string]int64
	stateName                          map[int64]string
	stateWriter, loader, retainReset   *ssa.Function
	deleteProc, send, readLine, root   *ssa.Function
	fns                                []*ssa.Function
	rmObj                              *types.Func
	ts                                 *eng.TS
	events                             map[string][]tsEvent
	undec                              []string
	ok                                 bool
	visitsDone                         bool
	delHelpers                         []*ssa.Function // per-message helpers of the delete processor
	visitList                          []pop3Visit
}

func (c *Ctx) pop3() *pop3Model {
	p := c.P
	m := &pop3Model{c: c, states: map[string]int64{}, stateName: map[int64]string{}, events: map[string][]tsEvent{}}
	m.fState = p.Field(pop3Rel, "Session", "state")
	// the snapshot fields are found by what they hold — the []storage.Message, the []bool marks
	// and the int count — in Session itself or in a record Session holds (s.drop.messages); by
	// name only when the types do not single them out
	m.fMessages, m.fRetain, m.fCount, m.fHolder = snapshotFields(p)
	if m.fMessages == nil {
		m.fMessages = p.Field(pop3Rel, "Session", "messages")
	}
	if m.fRetain == nil {
		m.fRetain = p.Field(pop3Rel, "Session", "retain")
	}
	if m.fCount == nil {
		m.fCount = p.Field(pop3Rel, "Session", "msgCount")
	}
	m.fStore = p.Field(pop3Rel, "Server", "store")
	st := p.Named(pop3Rel, "State")
	m.rmObj = p.MethodObj("pkg/storage", "Store", "RemoveMessage")
	newSession := p.Func(pop3Rel, "NewSession")
	if m.fState == nil || m.fMessages == nil || m.fRetain == nil || m.fCount == nil || st == nil || m.rmObj == nil || newSession == nil {
		return m
	}
	pk := p.Pkg(pop3Rel)
	for _, name := range pk.Scope().Names() {
		if k, ok := pk.Scope().Lookup(name).(*types.Const); ok && types.Identical(k.Type(), st) {
			if v, ok := constant.Int64Val(k.Val()); ok {
				m.states[name] = v
				m.stateName[v] = name
			}
		}
	}
	for _, want := range []string{"AUTHORIZATION", "TRANSACTION", "QUIT"} {
		if _, ok := m.states[want]; !ok {
			c.R.Fatal("UNRESOLVED anchor=pop3.State constant %s", want)
			return m
		}
	}
	m.fns = pkgFuncs(p, pop3Rel)
	var writers, loaders, resets, delprocs, senders, readers []*ssa.Function
	for _, fn := range m.fns {
		fn := fn
		w, l, rs, dp, sd, rd := false, false, false, false, false, false
		eng.EachInstr(fn, func(in ssa.Instruction) {
			switch x := in.(type) {
			case *ssa.Store:
				if fa, ok := x.Addr.(*ssa.FieldAddr); ok {
					_, fresh := fa.X.(*ssa.Alloc)
					f := eng.FieldOfAddr(fa)
					switch {
					case eng.SameField(f, m.fState) && !fresh:
						w = true
					case eng.SameField(f, m.fMessages) && !fresh:
						l = true
					case m.fHolder != nil && eng.SameField(f, m.fHolder) && !fresh:
						l = true // the whole snapshot record is replaced (s.drop = newMaildrop(msgs))
					case eng.SameField(f, m.fRetain) && !fresh:
						rs = true
					}
				}
			case *ssa.Call:
				if eng.IsCallTo(x.Common(), m.rmObj) {
					dp = true
				}
				switch eng.CalleeName(x.Common()) {
				case "fmt.Fprint", "fmt.Fprintf":
					if fn.Signature.Recv() != nil {
						sd = true
					}
				case "(*bufio.Reader).ReadString":
					rd = true
				}
			}
		})
		if w {
			writers = append(writers, fn)
		}
		if l {
			loaders = append(loaders, fn)
		}
		if rs {
			resets = append(resets, fn)
		}
		if dp {
			// a callback that removes belongs to the named function that creates it
			o := eng.Outer(fn)
			dup := false
			for _, d := range delprocs {
				dup = dup || d == o
			}
			if !dup {
				delprocs = append(delprocs, o)
			}
		}
		if sd {
			senders = append(senders, fn)
		}
		if rd {
			readers = append(readers, fn)
		}
	}
	one := func(role string, cands []*ssa.Function) *ssa.Function {
		if len(cands) != 1 {
			var names []string
			for _, f := range cands {
				names = append(names, eng.FuncName(f))
			}
			c.R.Fatal("UNRESOLVED anchor=pop3 role %q: expected exactly one function, found %d %v", role, len(cands), names)
			return nil
		}
		return cands[0]
	}
	m.stateWriter = one("state writer", writers)
	m.loader = one("mailbox loader (stores Session.messages)", loaders)
	m.retainReset = one("retain reset (stores Session.retain)", resets)
	m.deleteProc = one("delete processor (calls Store.RemoveMessage)", delprocs)
	// a per-message helper (removeMessage(msg)) called from inside a loop: the processor is
	// the function that holds the loop
	for depth := 0; m.deleteProc != nil && depth < 3; depth++ {
		sites := p.StaticCallSites(m.deleteProc)
		if len(sites) != 1 {
			break
		}
		site, ok := sites[0].Instr.(*ssa.Call)
		if !ok || eng.FuncPkgPath(site.Parent()) != eng.FuncPkgPath(m.deleteProc) || len(loopHeaders(site.Block())) == 0 {
			break
		}
		m.delHelpers = append(m.delHelpers, m.deleteProc)
		m.deleteProc = eng.Outer(site.Parent())
	}
	m.send = one("reply writer (fmt.Fprint to the connection)", senders)
	m.readLine = one("line read (bufio ReadString)", readers)
	for _, e := range p.CallersOf(newSession) {
		m.root = e.Caller.Func
	}
	if m.stateWriter == nil || m.loader == nil || m.retainReset == nil || m.deleteProc == nil || m.send == nil || m.readLine == nil || m.root == nil {
		return m
	}
	m.ok = true
	m.ts = eng.NewTS(m)
	m.ts.Exec(m.root, eng.TSConfig{A: m.states["AUTHORIZATION"], B: 0})
	return m
}

func (m *pop3Model) ev(kind string, in ssa.Instruction, c eng.TSConfig) {
	m.events[kind] = append(m.events[kind], tsEvent{in, c, ""})
}

func (m *pop3Model) Descend(fn *ssa.Function) bool {
	if eng.FuncPkgPath(fn) != eng.Mod+"/"+pop3Rel {
		return false
	}
	switch fn {
	case m.stateWriter, m.send, m.readLine:
		return false
	}
	return fn.Blocks != nil
}

func (m *pop3Model) Step(in ssa.Instruction, c eng.TSConfig) []eng.TSConfig {
	switch x := in.(type) {
	case *ssa.Call:
		callee := eng.StaticCallee(x.Common())
		switch {
		case callee == m.stateWriter:
			args := x.Call.Args
			k, isC := eng.ConstInt(args[len(args)-1])
			if !isC {
				m.undec = append(m.undec, "state writer called with a non-constant state at "+m.c.P.InstrPos(in))
				break
			}
			m.ev("enter:"+m.stateName[k], in, c)
			c.A = k
		case callee == m.readLine:
			m.ev("read", in, c)
		case eng.IsCallTo(x.Common(), m.rmObj):
			m.ev("remove", in, c)
		}
		if callee == m.loader {
			// (not reached: loader is descended) kept for clarity
		}
	case *ssa.Store:
		if fa, ok := x.Addr.(*ssa.FieldAddr); ok {
			f := eng.FieldOfAddr(fa)
			if eng.SameField(f, m.fMessages) || (m.fHolder != nil && eng.SameField(f, m.fHolder)) {
				if _, fresh := fa.X.(*ssa.Alloc); !fresh {
					m.ev("load-mailbox", in, c)
					c.B = 1
				}
			}
		}
	}
	return []eng.TSConfig{c}
}

func (m *pop3Model) Refine(b *ssa.BasicBlock, k int, c eng.TSConfig) (eng.TSConfig, bool) {
	r, ok := eng.EdgeRel(b, k)
	if !ok {
		return c, true
	}
	if kk, isC := eng.ConstInt(r.Y); isC && eng.SameField(eng.LoadedField(r.X), m.fState) {
		// fresh-load check: no call between the load and the branch in this block chain
		li, _ := r.X.(ssa.Instruction)
		if li != nil && freshLoad(li, eng.IfOf(b)) {
			switch r.Op {
			case token.EQL:
				return c, c.A == kk
			case token.NEQ:
				return c, c.A != kk
			}
		}
	}
	return c, true
}

// freshLoad: no call/store on any path from load to use.
func freshLoad(load, use ssa.Instruction) bool {
	if load.Parent() != use.Parent() {
		return false
	}
	clob := (&eng.Search{Target: func(in ssa.Instruction) bool {
		switch in.(type) {
		case *ssa.Call, *ssa.Store, *ssa.Go:
			return true
		}
		return false
	}, Avoid: func(in ssa.Instruction) bool { return in == use }}).After(load)
	if clob == nil {
		return true
	}
	// a clobber reachable from the load before the use on some path: is the use reachable after it without re-loading?
	return (&eng.Search{Target: func(in ssa.Instruction) bool { return in == use }, Avoid: func(in ssa.Instruction) bool { return in == load }}).After(clob) == nil
}

func (m *pop3Model) cfgStr(c eng.TSConfig) string {
	return fmt.Sprintf("state=%s loaded=%v", m.stateName[c.A], c.B == 1)
}

func (m *pop3Model) cfgSet(evs []tsEvent) string {
	seen := map[string]bool{}
	var out []string
	for _, e := range evs {
		s := m.cfgStr(e.cfg)
		if !seen[s] {
			seen[s] = true
			out = append(out, s)
		}
	}
	sort.Strings(out)
	return strings.Join(out, " | ")
}

// retainGuard: block at is dominated by the true (want=true) or false edge of a branch on
// retain[idx] for the given index value.
func (m *pop3Model) retainGuard(at *ssa.BasicBlock, idx ssa.Value, want bool) bool {
	for _, b := range at.Parent().Blocks {
		for k := 0; k < len(b.Succs) && len(b.Succs) == 2; k++ {
			v, pol, ok := eng.CondTruth(b, k)
			if !ok || pol != want || !eng.EdgeDominates(b, k, at) {
				continue
			}
			if hc, isCall := v.(*ssa.Call); isCall {
				// the mark read through a 1-based accessor (s.drop.retained(n))
				if acc := m.accessor(eng.StaticCallee(hc.Common())); acc != nil && acc.kind == "elem" && eng.SameField(acc.field, m.fRetain) && acc.nParam < len(hc.Call.Args) {
					if sameIndex(oneBasedIdx{hc.Call.Args[acc.nParam]}, idx) {
						return true
					}
				}
				continue
			}
			u, ok := v.(*ssa.UnOp)
			if !ok {
				continue
			}
			ia, ok := u.X.(*ssa.IndexAddr)
			if !ok || !eng.SameField(m.loadedField(ia.X), m.fRetain) {
				continue
			}
			if sameIndex(ia.Index, idx) {
				return true
			}
		}
	}
	return false
}

// loadedField: the session field a slice value was loaded from; a slice handed to a helper as
// a parameter (processDeletes(s.user, s.messages, s.retain)) stands for what its only call site
// passes.
func (m *pop3Model) loadedField(v ssa.Value) *types.Var {
	if f := eng.LoadedField(v); f != nil {
		return f
	}
	if prm, ok := eng.StripConv(v).(*ssa.Parameter); ok {
		if w := m.c.P.Actual(prm); w != ssa.Value(prm) {
			return eng.LoadedField(w)
		}
	}
	return nil
}

// sameIndex: syntactically equal index expressions (same value, or the same n-1 over the
// same n through conversions).
func sameIndex(a, b ssa.Value) bool {
	// a 1-based number standing for the index n-1 (the argument of an accessor)
	oa, isA := a.(oneBasedIdx)
	ob, isB := b.(oneBasedIdx)
	switch {
	case isA && isB:
		return eng.StripConv(oa.Value) == eng.StripConv(ob.Value)
	case isA || isB:
		n, other := oa.Value, b
		if isB {
			n, other = ob.Value, a
		}
		if bo, ok := eng.StripConv(other).(*ssa.BinOp); ok && bo.Op == token.SUB {
			if k, isC := eng.ConstInt(bo.Y); isC && k == 1 {
				return eng.StripConv(bo.X) == eng.StripConv(n)
			}
		}
		return false
	}
	a, b = eng.StripConv(a), eng.StripConv(b)
	if a == b {
		return true
	}
	ba, ok1 := a.(*ssa.BinOp)
	bb, ok2 := b.(*ssa.BinOp)
	if ok1 && ok2 && ba.Op == bb.Op {
		ka, oka := eng.ConstInt(ba.Y)
		kb, okb := eng.ConstInt(bb.Y)
		if oka && okb && ka == kb && eng.StripConv(ba.X) == eng.StripConv(bb.X) {
			return true
		}
	}
	return false
}

func checkC13(c *Ctx) {
	r, p := c.R, c.P
	r.Explanation = "Decides the snapshot/commit skeleton of a POP3 session by typestate (configurations (Session.state, mailbox loaded), command strings untracked) plus dominance and a small bounds argument: (D1) Session.messages has one writer, the loader, reached only in AUTHORIZATION; each load is followed by the retain reset; retain is only ever make([]bool, len(messages)) and msgCount = len(messages), so the three agree in length; TRANSACTION is entered only after a load; (D2) Store.RemoveMessage is called only from the delete processor, per message under !retain[i] with the ID of that same element; the delete processor runs only in TRANSACTION, only under the QUIT comparison, only on the success edge of the line read, and is followed by enterState(QUIT); (D3) retain[i]=false and msgCount-- occur only together under retain[i] true; the RSET arm reaches the retain reset; (D4) in every loop over the snapshot each emitted line / accumulated count or size is control-dependent on retain[i], numbers are i+1, and single-message LIST/UIDL replies are guarded by retain[n-1]; (D5) every messages[n-1]/retain[n-1] with input-derived n is dominated by n >= 1 and n <= len(messages); (D6) every loop that emits lines is followed by the \".\" terminator on all exits."
	r.NotDecided = []string{"behaviour of the store underneath a live snapshot", "TLS negotiation", "robustness to arbitrary bytes in the command line", "that RETR/TOP refuse messages already marked deleted (not required by the property)"}
	r.Assumptions = []string{"one Session object per session goroutine", "strconv.ParseInt(…, 10, 32) results fit an int"}
	r.Rule("C13/SNAPSHOT", "Session.messages: single writer (loader) reached only under AUTHORIZATION and followed by the retain reset; retain = make([]bool, len(messages)); msgCount = len(messages); TRANSACTION entered only after a load")
	r.Rule("C13/COMMIT", "RemoveMessage only in the delete processor under !retain[i] with that element's ID and the session's user; delete processor only in TRANSACTION, only under cmd==\"QUIT\", only after a successful read, followed by enterState(QUIT); the session code calls no other store mutator")
	r.Rule("C13/MARKS", "retain[i]=false and msgCount-- only together, under retain[i] true; RSET reaches the retain reset")
	r.Rule("C13/VIEWS", "in loops over the snapshot every send and every accumulation is control-dependent on retain[i]; numbers are i+1; single-message LIST/UIDL are guarded by retain[n-1]")
	r.Rule("C13/PANIC/index", "every index into messages/retain derived from a parsed argument is dominated by n >= 1 and n <= len(messages); loop indices range over the snapshot itself")
	r.Rule("C13/TERMINATOR", "every line-emitting loop is followed by send(\".\") on every path to return / next read")
	m := c.pop3()
	if !m.ok {
		return
	}
	for _, u := range m.undec {
		r.Undecided("C13/SNAPSHOT", "model", "", "%s", u)
	}
	r.Count("typestate summaries", m.ts.FunctionsAnalysed())
	r.Count("typestate steps", m.ts.Steps)
	// "no command sequence (malformed input included) crashes the server": the command parser
	c.parserIndex("C13/PANIC/parser", "pkg/server/pop3", m.root, "POP3", 1)
	r.Floor("C13/SESSION/own-connection", "go statements in loops of the POP3 server package", c.ownConnection("C13/SESSION/own-connection", "pkg/server/pop3"), 1)

	// ---- D1
	loads := map[ssa.Instruction][]tsEvent{}
	for _, e := range m.events["load-mailbox"] {
		loads[e.in] = append(loads[e.in], e)
	}
	r.Floor("C13/SNAPSHOT", "stores of Session.messages reached", len(loads), 1)
	for _, in := range sortedSites(loads) {
		var bad []tsEvent
		for _, e := range loads[in] {
			if e.cfg.A != m.states["AUTHORIZATION"] {
				bad = append(bad, e)
			}
		}
		if len(bad) > 0 {
			r.Bad("C13/SNAPSHOT", "loader-state", p.InstrPos(in), "the mailbox snapshot can be (re)loaded under %s: message numbers would change inside a session", m.cfgSet(bad))
		} else {
			r.Ok("C13/SNAPSHOT", "loader-state", p.InstrPos(in), "snapshot loaded only under %s", m.cfgSet(loads[in]))
		}
		// followed by retain reset before return
		isReset := func(x ssa.Instruction) bool {
			call, ok := x.(*ssa.Call)
			return ok && eng.StaticCallee(call.Common()) == m.retainReset
		}
		// the snapshot record built by a constructor that sets the marks itself
		// (s.drop = newMaildrop(msgs), which ends in d.retainAll())
		builtWithMarks := false
		if st, isSt := in.(*ssa.Store); isSt {
			if cc, isCall := st.Val.(*ssa.Call); isCall {
				if g := eng.StaticCallee(cc.Common()); g != nil && eng.FuncPkgPath(g) == eng.Mod+"/"+pop3Rel && len(g.Blocks) > 0 {
					if (&eng.Search{Target: eng.IsReturnOf(g), Avoid: isReset}).FromEntry(g) == nil {
						builtWithMarks = true
					}
				}
			}
		}
		if builtWithMarks {
			r.Ok("C13/SNAPSHOT", "loader-resets-marks", p.InstrPos(in), "the snapshot record is built by a constructor that sets the marks on every path")
		} else if ret := (&eng.Search{Target: eng.IsReturn, Avoid: isReset}).After(in); ret != nil {
			r.Bad("C13/SNAPSHOT", "loader-resets-marks", p.InstrPos(in), "after loading the snapshot a path returns at %s without rebuilding retain/msgCount: marks of a different length than the snapshot", p.InstrPos(ret))
		} else {
			r.Ok("C13/SNAPSHOT", "loader-resets-marks", p.InstrPos(in), "every load is followed by the retain reset")
		}
	}
	// loader callers all under AUTHORIZATION — events cover it. TRANSACTION only when loaded
	for in, evs := range groupBy(m.events["enter:TRANSACTION"]) {
		var bad []tsEvent
		for _, e := range evs {
			if e.cfg.B != 1 {
				bad = append(bad, e)
			}
		}
		cons := "enter-TRANSACTION@" + shortFn(in.Parent())
		if len(bad) > 0 {
			r.Bad("C13/SNAPSHOT", cons, p.InstrPos(in), "TRANSACTION can be entered without a loaded snapshot (%s)", m.cfgSet(bad))
		} else {
			r.Ok("C13/SNAPSHOT", cons, p.InstrPos(in), "entered only under %s", m.cfgSet(evs))
		}
	}
	r.Floor("C13/SNAPSHOT", "enterState(TRANSACTION) events", len(m.events["enter:TRANSACTION"]), 1)
	// retain / msgCount writers
	rsts := eng.StoresToField(m.fns, m.fRetain)
	for _, s := range rsts {
		okMake := false
		// a helper that returns make([]T, n) of its own parameter (filled(len(d.messages), true))
		if hc, isCall := s.Store.Val.(*ssa.Call); isCall {
			if rets, hg := eng.ReturnedValues(hc, 0); hg != nil && len(rets) > 0 {
				all := true
				for _, rv := range rets {
					mk, isMk := rv.(*ssa.MakeSlice)
					if !isMk {
						all = false
						break
					}
					prm, isP := eng.StripConv(mk.Len).(*ssa.Parameter)
					if !isP || prm.Parent() != hg {
						all = false
						break
					}
					a := eng.ArgFor(hc, prm)
					if lx := eng.LenOf(a); a == nil || lx == nil || !eng.SameField(m.loadedField(lx), m.fMessages) {
						all = false
					}
				}
				okMake = all
			}
		}
		if mk, ok := s.Store.Val.(*ssa.MakeSlice); ok {
			if lx := eng.LenOf(mk.Len); lx != nil && eng.SameField(m.loadedField(lx), m.fMessages) {
				okMake = true
			}
		}
		r.Check(okMake, "C13/SNAPSHOT", "retain-length", p.InstrPos(s.Store), "retain = make([]bool, len(messages))", "Session.retain is not make([]bool, len(Session.messages)): marks and snapshot can differ in length (index panic, or messages that can never be deleted)")
	}
	r.Floor("C13/SNAPSHOT", "writers of Session.retain", len(rsts), 1)
	cnts := eng.StoresToField(m.fns, m.fCount)
	nLen, nDec := 0, 0
	var decs []eng.FieldStore
	for _, s := range cnts {
		if lx := eng.LenOf(s.Store.Val); lx != nil && eng.SameField(m.loadedField(lx), m.fMessages) {
			nLen++
			continue
		}
		if b, ok := s.Store.Val.(*ssa.BinOp); ok && b.Op == token.SUB && eng.SameField(eng.LoadedField(b.X), m.fCount) {
			if k, ok := eng.ConstInt(b.Y); ok && k == 1 {
				nDec++
				decs = append(decs, s)
				continue
			}
		}
		r.Bad("C13/SNAPSHOT", "msgCount-writer", p.InstrPos(s.Store), "unclassified writer of Session.msgCount")
	}
	r.Check(nLen >= 1, "C13/SNAPSHOT", "msgCount-init", p.Pos(m.retainReset.Pos()), "msgCount = len(messages) in the retain reset", "msgCount is never set to len(messages)")

	// ---- D2
	c.c13Commit(m)
	c.c13SameMailbox(m)
	c.c13FreshList()
	// ---- D3
	c.c13Marks(m, decs)
	// ---- D4 / D6
	c.c13Views(m)
	// ---- D5
	c.c13Index(m)
	// ---- a failed producer's nil result is never used (a panic in the session goroutine
	// takes the server down)
	r.Rule("C13/PANIC/nil-result", "in the POP3 session code every use of the value of a (value, error) call as a method receiver or field base — direct, deferred or through a helper — lies where the error is known nil")
	nBad := 0
	ordN := map[string]int{}
	nProd := c.nilResultUses(m.fns, func(use ssa.Instruction, producer *ssa.Call, what string) {
		nBad++
		r.Bad("C13/PANIC/nil-result", siteCons(p, use, ordN, "use"), p.InstrPos(use), "the result of %s (%s) is used where the call may have failed: %s, and on failure the result is nil — the session goroutine panics (RETR/TOP of a message another client or the retention scan removed after login ends the whole server)", eng.CalleeName(producer.Common()), p.InstrPos(producer), what)
	})
	if nBad == 0 {
		r.Ok("C13/PANIC/nil-result", "session-code", p.Pos(m.root.Pos()), "%d (value, error) producers in the POP3 package; every receiver/field use of their value is on the err == nil side", nProd)
	}
	r.Floor("C13/PANIC/nil-result", "(value, error) producers in pkg/server/pop3", nProd, 1)
}

func groupBy(evs []tsEvent) map[ssa.Instruction][]tsEvent {
	out := map[ssa.Instruction][]tsEvent{}
	for _, e := range evs {
		out[e.in] = append(out[e.in], e)
	}
	return out
}

func (c *Ctx) c13Commit(m *pop3Model) {
	r, p := c.R, c.P
	// who may call RemoveMessage in pop3
	nRm := 0
	for _, fn := range m.fns {
		fn := fn
		eng.EachInstr(fn, func(in ssa.Instruction) {
			call, ok := in.(*ssa.Call)
			if !ok || !eng.IsCallTo(call.Common(), m.rmObj) {
				return
			}
			nRm++
			cons := "RemoveMessage@" + shortFn(fn)
			inHelper := false
			for _, h := range m.delHelpers {
				inHelper = inHelper || h == eng.Outer(fn)
			}
			if eng.Outer(fn) != m.deleteProc && !inHelper {
				r.Bad("C13/COMMIT", cons, p.InstrPos(in), "Store.RemoveMessage is called outside the delete processor")
				return
			}
			// id = element.ID() of the ranged snapshot, guarded by !retain[i]
			args := call.Call.Args
			idv := args[len(args)-1]
			ic, ok := idv.(*ssa.Call)
			okID := false
			var idx ssa.Value
			guardAt := call.Block()
			if ok && ic.Call.IsInvoke() && ic.Call.Method.Name() == "ID" {
				recv := ic.Call.Value
				// the message handed to a per-message helper: judged at the helper's call
				if prm, isP := recv.(*ssa.Parameter); isP && inHelper {
					if sites := p.StaticCallSites(prm.Parent()); len(sites) == 1 {
						if pi := eng.ParamIndex(prm); pi >= 0 && pi < len(sites[0].Args) {
							recv = sites[0].Args[pi]
							guardAt = sites[0].Instr.Block()
						}
					}
				}
				if u, ok := recv.(*ssa.UnOp); ok {
					if ia, ok := u.X.(*ssa.IndexAddr); ok && eng.SameField(m.loadedField(ia.X), m.fMessages) {
						okID = true
						idx = ia.Index
					}
				}
			}
			if !okID && ok && ic.Call.IsInvoke() && ic.Call.Method.Name() == "ID" {
				// the marked messages may be collected first by a helper: the element then ranges
				// over a slice every element of which is snapshot[i] appended under !retain[i]
				if u, isU := ic.Call.Value.(*ssa.UnOp); isU {
					if ia, isIA := u.X.(*ssa.IndexAddr); isIA {
						if hc, isCall := eng.StripConv(ia.X).(*ssa.Call); isCall {
							if why := m.collectsMarked(hc); why == "" {
								mb := args[len(args)-2]
								if f := eng.LoadedField(mb); f == nil || f.Name() != "user" {
									r.Bad("C13/COMMIT", cons, p.InstrPos(in), "RemoveMessage does not address the session's own mailbox")
									return
								}
								r.Ok("C13/COMMIT", cons, p.InstrPos(in), "removes the ID() of each message collected by %s, which appends snapshot[i] only under !retain[i]", eng.CalleeName(hc.Common()))
								return
							} else {
								r.Bad("C13/COMMIT", cons, p.InstrPos(in), "the removed messages come from %s, but %s", eng.CalleeName(hc.Common()), why)
								return
							}
						}
					}
				}
			}
			if !okID && ok && ic.Call.IsInvoke() && ic.Call.Method.Name() == "ID" {
				// the removal is the callback of a snapshot iterator: iter(deleted, func(i, msg) {…})
				if v, isV := m.visitOf(fn); isV && v.elemParam != nil && ic.Call.Value == ssa.Value(v.elemParam) {
					mb := args[len(args)-2]
					switch {
					case v.want:
						r.Bad("C13/COMMIT", cons, p.InstrPos(in), "the removing callback is run by %s for messages with retain[i] true: unmarked messages are deleted on QUIT", shortFn(v.iter))
					case func() bool { f := eng.LoadedField(mb); return f == nil || f.Name() != "user" }():
						r.Bad("C13/COMMIT", cons, p.InstrPos(in), "RemoveMessage does not address the session's own mailbox")
					default:
						r.Ok("C13/COMMIT", cons, p.InstrPos(in), "removes msg.ID() of the element %s passes to the callback under !retain[i]", shortFn(v.iter))
					}
					return
				}
			}
			if !okID {
				r.Bad("C13/COMMIT", cons, p.InstrPos(in), "the id removed is not ID() of an element of the session snapshot")
				return
			}
			if !m.retainGuard(guardAt, idx, false) {
				r.Bad("C13/COMMIT", cons, p.InstrPos(in), "RemoveMessage is not guarded by !retain[i] for the same i: unmarked messages are deleted on QUIT")
				return
			}
			// mailbox argument = Session.user
			mb := args[len(args)-2]
			if f := m.loadedField(mb); f == nil || f.Name() != "user" {
				r.Bad("C13/COMMIT", cons, p.InstrPos(in), "RemoveMessage does not address the session's own mailbox")
				return
			}
			r.Ok("C13/COMMIT", cons, p.InstrPos(in), "removes snapshot[i].ID() from the session's mailbox under !retain[i]")
		})
	}
	r.Floor("C13/COMMIT", "RemoveMessage call sites in pop3", nRm, 1)
	// the session changes the store through nothing else: a purge or a write of another kind
	// acts on the mailbox as it is at that moment, not on the messages the session marked
	{
		var other []string
		for _, name := range []string{"PurgeMessages", "AddMessage", "MarkSeen"} {
			obj := p.MethodObj("pkg/storage", "Store", name)
			if obj == nil {
				continue
			}
			for _, fn := range m.fns {
				fn := fn
				eng.EachInstr(fn, func(in ssa.Instruction) {
					if ci, ok := in.(ssa.CallInstruction); ok && eng.IsCallTo(ci.Common(), obj) {
						other = append(other, "Store."+name+" at "+p.InstrPos(in))
					}
				})
			}
		}
		sort.Strings(other)
		if len(other) > 0 {
			r.Bad("C13/COMMIT", "store-mutators", "", "the POP3 session changes the store through %s: messages that were never marked in this session (mail delivered after the snapshot was taken) are affected", strings.Join(other, ", "))
		} else {
			r.Ok("C13/COMMIT", "store-mutators", "", "the POP3 session code calls no store mutator other than RemoveMessage")
		}
	}
	// the delete loop must visit every snapshot element: no return / break out of its body
	delIter := map[*ssa.Function]bool{}
	for _, v := range m.visits() {
		if eng.Outer(v.closure) == m.deleteProc {
			delIter[v.iter] = true
		}
	}
	// the loops to judge: snapshot loops of the delete processor (or of the iterator it uses),
	// and any other loop around a RemoveMessage call (a loop over the messages collected first:
	// for _, msg := range s.deletedMessages() { remove(msg) })
	type delLoop struct {
		fn     *ssa.Function
		header *ssa.BasicBlock
	}
	var delLoops []delLoop
	haveLoop := map[*ssa.BasicBlock]bool{}
	for _, lp := range m.snapshotLoops() {
		if lp.fn != m.deleteProc && !delIter[lp.fn] {
			continue
		}
		if !haveLoop[lp.header] {
			haveLoop[lp.header] = true
			delLoops = append(delLoops, delLoop{lp.fn, lp.header})
		}
	}
	for _, fn := range m.fns {
		fn := fn
		eng.EachInstr(fn, func(in ssa.Instruction) {
			call, ok := in.(*ssa.Call)
			if !ok || !eng.IsCallTo(call.Common(), m.rmObj) {
				return
			}
			site := ssa.Instruction(in)
			for depth := 0; depth < 3; depth++ {
				for _, h := range loopHeaders(site.Block()) {
					if !haveLoop[h] {
						haveLoop[h] = true
						delLoops = append(delLoops, delLoop{site.Parent(), h})
					}
				}
				sites := p.StaticCallSites(site.Parent())
				if len(loopHeaders(site.Block())) > 0 || site.Parent().Parent() != nil || len(sites) != 1 {
					break
				}
				site = sites[0].Instr.(ssa.Instruction)
			}
		})
	}
	if len(delLoops) == 0 {
		r.Undecided("C13/COMMIT", "delete-loop-complete", p.Pos(m.deleteProc.Pos()), "the loop in which the delete processor removes the marked messages was not found")
	}
	ordDL := map[string]int{}
	for _, lp := range delLoops {
		bodyEntry := lp.header.Succs[0]
		early := ""
		for _, b := range lp.fn.Blocks {
			if !bodyEntry.Dominates(b) {
				continue
			}
			for _, in := range b.Instrs {
				if _, isRet := in.(*ssa.Return); isRet {
					early = "return at " + p.InstrPos(in)
				}
			}
			for _, su := range b.Succs {
				if su != lp.header && !bodyEntry.Dominates(su) {
					early = "jump out of the loop from the block at " + p.InstrPos(b.Instrs[0])
				}
			}
		}
		cons := "delete-loop-complete"
		ordDL[cons]++
		if ordDL[cons] > 1 {
			cons += "#" + itoa(int64(ordDL[cons]))
		}
		if early != "" {
			r.Bad("C13/COMMIT", cons, p.InstrPos(eng.IfOf(lp.header)), "the delete processor can leave its loop early (%s): when one removal fails (e.g. the message was already removed by another client or by retention) the remaining marked messages are never removed", early)
		} else {
			r.Ok("C13/COMMIT", cons, p.InstrPos(eng.IfOf(lp.header)), "the delete loop has no early exit: every marked message is attempted")
		}
	}
	// delete processor calls
	nCalls := 0
	for _, fn := range m.fns {
		fn := fn
		eng.EachInstr(fn, func(in ssa.Instruction) {
			call, ok := in.(*ssa.Call)
			if !ok || eng.StaticCallee(call.Common()) != m.deleteProc {
				return
			}
			nCalls++
			cons := "delete-processor-call@" + shortFn(fn)
			var probs []string
			for _, cfg := range m.ts.ConfigsAt(in) {
				if cfg.A != m.states["TRANSACTION"] {
					probs = append(probs, "reachable under "+m.cfgStr(cfg))
				}
			}
			if len(m.ts.ConfigsAt(in)) == 0 {
				probs = append(probs, "call not reached by the typestate analysis")
			}
			// under cmd == "QUIT"
			under := false
			for _, e := range keywordEdges([]*ssa.Function{fn}, map[string]bool{"QUIT": true}) {
				if eng.EdgeDominates(e.b, e.k, call.Block()) {
					under = true
				}
			}
			if !under {
				probs = append(probs, "not confined to the cmd == \"QUIT\" arm: deletions commit on another command")
			}
			isQuit := func(x ssa.Instruction) bool {
				cc, ok := x.(*ssa.Call)
				if !ok || eng.StaticCallee(cc.Common()) != m.stateWriter {
					return false
				}
				k, isC := eng.ConstInt(cc.Call.Args[len(cc.Call.Args)-1])
				return isC && k == m.states["QUIT"]
			}
			// the processor may do the transition itself (update(): acknowledge, delete, enter
			// QUIT): then every path through it passes the state write
			procQuits := (&eng.Search{Target: eng.IsReturnOf(m.deleteProc), Avoid: isQuit}).FromEntry(m.deleteProc) == nil
			if ret := (&eng.Search{Target: eng.IsReturn, Avoid: isQuit}).After(in); ret != nil && !procQuits {
				probs = append(probs, "not followed by enterState(QUIT) on the path to "+p.InstrPos(ret)+": the session continues after committing")
			}
			sort.Strings(probs)
			if len(probs) > 0 {
				r.Bad("C13/COMMIT", cons, p.InstrPos(in), "%s", strings.Join(probs, "; "))
			} else {
				r.Ok("C13/COMMIT", cons, p.InstrPos(in), "only in TRANSACTION, under cmd==\"QUIT\", followed by enterState(QUIT)")
			}
		})
	}
	for _, fn := range m.fns {
		fn := fn
		eng.EachInstr(fn, func(in ssa.Instruction) {
			g, isGo := in.(*ssa.Go)
			if !isGo || !c.P.SyncReach(m.root)[fn] {
				return // only go statements executed by the session itself
			}
			callee := eng.StaticCallee(g.Common())
			if callee == nil {
				if mc, ok := g.Call.Value.(*ssa.MakeClosure); ok {
					callee, _ = mc.Fn.(*ssa.Function)
				}
			}
			if callee != nil && (callee == m.deleteProc || reachesSync(callee, m.deleteProc)) {
				nCalls++
				r.Bad("C13/COMMIT", "delete-processor-call@"+shortFn(fn), p.InstrPos(in), "the delete processor is started with a go statement: the session ends (and a draining server exits) while the marked messages are still in the store, and a process exit in that window loses the deletions")
			}
		})
	}
	r.Floor("C13/COMMIT", "calls of the delete processor", nCalls, 1)
	// handlers are dispatched only on the success edge of the read
	var readCall *ssa.Call
	eng.EachInstr(m.root, func(in ssa.Instruction) {
		if call, ok := in.(*ssa.Call); ok && eng.StaticCallee(call.Common()) == m.readLine {
			readCall = call
		}
	})
	if readCall == nil {
		r.Undecided("C13/COMMIT", "read-error-path", p.Pos(m.root.Pos()), "line read not found in the session root")
		return
	}
	errV := extractOf(readCall, 1)
	bad := ""
	eng.EachInstr(m.root, func(in ssa.Instruction) {
		call, ok := in.(*ssa.Call)
		if !ok {
			return
		}
		g := eng.StaticCallee(call.Common())
		if g == nil || !m.Descend(g) || g == m.send {
			return
		}
		if !reachesSync(g, m.deleteProc) {
			return
		}
		if !eng.KnownNil(errV, call.Block()) {
			bad = p.InstrPos(in)
		}
	})
	r.Check(bad == "", "C13/COMMIT", "read-error-path", p.InstrPos(readCall), "handlers that can reach the delete processor run only on the success edge of the line read", "a handler that can reach the delete processor is invoked at "+bad+" although the line read may have failed (EOF / timeout): a dropped connection would commit deletions")
}

func (c *Ctx) c13Marks(m *pop3Model, decs []eng.FieldStore) {
	r, p := c.R, c.P
	// element stores into retain
	nFalse := 0
	for _, fn := range m.fns {
		fn := fn
		eng.EachInstr(fn, func(in ssa.Instruction) {
			st, ok := in.(*ssa.Store)
			if !ok {
				return
			}
			ia, ok := st.Addr.(*ssa.IndexAddr)
			if !ok || !eng.SameField(m.loadedField(ia.X), m.fRetain) {
				// retain reset writes through a local loaded once: s.retain[i] = true → IndexAddr on load
				return
			}
			b, isC := eng.ConstBool(st.Val)
			if !isC {
				r.Bad("C13/MARKS", "retain-store@"+shortFn(fn), p.InstrPos(in), "retain[i] is assigned a non-constant")
				return
			}
			if b {
				if fn != m.retainReset {
					r.Bad("C13/MARKS", "retain-store@"+shortFn(fn), p.InstrPos(in), "retain[i] = true outside the retain reset")
				}
				return
			}
			nFalse++
			cons := "mark-deleted@" + shortFn(fn)
			var probs []string
			if !m.retainGuard(st.Block(), ia.Index, true) {
				probs = append(probs, "retain[i] = false is not under retain[i] true: deleting twice would decrement msgCount twice")
			}
			paired := false
			for _, d := range decs {
				if d.Store.Block() == st.Block() {
					paired = true
				}
			}
			if !paired {
				probs = append(probs, "no msgCount-- in the same block")
			}
			if len(probs) > 0 {
				r.Bad("C13/MARKS", cons, p.InstrPos(in), "%s", strings.Join(probs, "; "))
			} else {
				r.Ok("C13/MARKS", cons, p.InstrPos(in), "mark and msgCount-- together under retain[i] true")
			}
		})
	}
	r.Floor("C13/MARKS", "retain[i]=false sites", nFalse, 1)
	for _, d := range decs {
		paired := false
		eng.EachInstr(d.Fn, func(in ssa.Instruction) {
			if st, ok := in.(*ssa.Store); ok && st.Block() == d.Store.Block() {
				if ia, ok := st.Addr.(*ssa.IndexAddr); ok && eng.SameField(m.loadedField(ia.X), m.fRetain) {
					if b, isC := eng.ConstBool(st.Val); isC && !b {
						paired = true
					}
				}
			}
		})
		r.Check(paired, "C13/MARKS", "count-decrement@"+shortFn(d.Fn), p.InstrPos(d.Store), "msgCount-- is paired with retain[i] = false", "msgCount is decremented without marking a message: STAT/LIST headers disagree with the listing")
	}
	// the retain reset restores every session field the mark changes
	if m.retainReset != nil {
		resetFields := map[*types.Var]bool{}
		for g := range c.P.SyncReach(m.retainReset) {
			eng.EachInstr(g, func(in ssa.Instruction) {
				if st, ok := in.(*ssa.Store); ok {
					if fa, ok := st.Addr.(*ssa.FieldAddr); ok {
						resetFields[eng.FieldOfAddr(fa)] = true
					}
				}
			})
		}
		for _, fn := range m.fns {
			fn := fn
			eng.EachInstr(fn, func(in ssa.Instruction) {
				st, ok := in.(*ssa.Store)
				if !ok {
					return
				}
				ia, ok := st.Addr.(*ssa.IndexAddr)
				if !ok || !eng.SameField(m.loadedField(ia.X), m.fRetain) {
					return
				}
				if b, isC := eng.ConstBool(st.Val); !isC || b {
					return
				}
				// session fields stored in the marking block
				var missing []string
				for _, in2 := range st.Block().Instrs {
					s2, ok := in2.(*ssa.Store)
					if !ok {
						continue
					}
					fa, ok := s2.Addr.(*ssa.FieldAddr)
					if !ok {
						continue
					}
					f := eng.FieldOfAddr(fa)
					if f == nil || !sameNamedStruct(fa.X.Type(), m.fRetain) {
						continue
					}
					if !resetFields[f] {
						missing = append(missing, f.Name())
					}
				}
				sort.Strings(missing)
				cons := "reset-restores@" + shortFn(fn)
				if len(missing) > 0 {
					r.Bad("C13/MARKS", cons, p.InstrPos(in), "marking a message also changes Session.%s, which the retain reset %s never restores: after DELE … RSET the session's views disagree (e.g. STAT against LIST)", strings.Join(missing, ", "), shortFn(m.retainReset))
				} else {
					r.Ok("C13/MARKS", cons, p.InstrPos(in), "every session field changed together with the mark is rebuilt by %s", shortFn(m.retainReset))
				}
			})
		}
	}
	// RSET reaches the retain reset
	edges := keywordEdges(m.fns, map[string]bool{"RSET": true})
	r.Floor("C13/MARKS", "cmd==\"RSET\" edges", len(edges), 1)
	reachesReset := func(x ssa.Instruction) bool {
		call, ok := x.(*ssa.Call)
		if !ok {
			return false
		}
		g := eng.StaticCallee(call.Common())
		return g != nil && (g == m.retainReset || reachesSync(g, m.retainReset))
	}
	for _, e := range edges {
		cons := "RSET@" + shortFn(e.b.Parent())
		if ret := eng.BlockReaches(e.b.Succs[e.k], eng.IsReturn, reachesReset); ret != nil {
			r.Bad("C13/MARKS", cons, p.InstrPos(eng.IfOf(e.b)), "the RSET arm can return at %s without rebuilding the marks: messages stay marked for deletion", p.InstrPos(ret))
		} else {
			r.Ok("C13/MARKS", cons, p.InstrPos(eng.IfOf(e.b)), "RSET always reaches the retain reset")
		}
	}
}

// snapshotLoops finds loops whose header compares the range index with len(messages).
type snapLoop struct {
	fn     *ssa.Function
	header *ssa.BasicBlock
	idx    ssa.Value // the incremented index value used in the body
	slice  ssa.Value
}

func (m *pop3Model) snapshotLoops() []snapLoop {
	var out []snapLoop
	for _, fn := range m.fns {
		for _, b := range fn.Blocks {
			rel, ok := eng.EdgeRel(b, 0)
			if !ok || rel.Op != token.LSS {
				continue
			}
			var sl ssa.Value
			if call, ok := rel.Y.(*ssa.Call); ok && eng.CalleeName(call.Common()) == "builtin.len" {
				sl = call.Call.Args[0]
			}
			// a loop over retain is a loop over the snapshot: retain is only ever
			// make([]bool, len(messages)) (C13/SNAPSHOT/retain-length)
			if sl == nil || !eng.SameField(m.loadedField(sl), m.fMessages) && !eng.SameField(m.loadedField(sl), m.fRetain) {
				continue
			}
			if !b.Dominates(b.Succs[0]) {
				continue
			}
			out = append(out, snapLoop{fn, b, rel.X, sl})
		}
	}
	return out
}

func (c *Ctx) c13Views(m *pop3Model) {
	r, p := c.R, c.P
	loops := m.snapshotLoops()
	r.Floor("C13/VIEWS", "loops over the snapshot", len(loops), 1)
	ord := map[string]int{}
	for _, lp := range loops {
		if lp.fn == m.deleteProc {
			continue // guarded by !retain[i], decided under C13/COMMIT
		}
		// body blocks = dominated by header's true successor and able to reach header
		body := map[*ssa.BasicBlock]bool{}
		for _, b := range lp.fn.Blocks {
			if lp.header.Succs[0].Dominates(b) {
				body[b] = true
			}
		}
		cons := siteCons(p, eng.IfOf(lp.header), ord, "snapshot-loop")
		var probs []string
		nEff := 0
		for b := range body {
			for _, in := range b.Instrs {
				switch x := in.(type) {
				case *ssa.Call:
					if eng.StaticCallee(x.Common()) != m.send {
						continue
					}
					nEff++
					if !m.retainGuard(b, lp.idx, true) {
						probs = append(probs, "line sent at "+p.InstrPos(in)+" is not conditional on retain[i]: a message marked deleted is still listed")
					}
					// number is i+1
					if !sprintfHasIndexPlusOne(x.Call.Args[len(x.Call.Args)-1], lp.idx) {
						probs = append(probs, "line sent at "+p.InstrPos(in)+" does not carry i+1 as the message number")
					}
					if why := m.viewMethod(lp.fn, x, b, lp.idx); why != "" {
						probs = append(probs, why)
					}
				case *ssa.BinOp:
					if x.Op != token.ADD || x == lp.idx {
						continue
					}
					// accumulation: feeds a phi in the header
					feeds := false
					for _, ref := range *x.Referrers() {
						if ph, ok := ref.(*ssa.Phi); ok && ph.Block() == lp.header {
							feeds = true
						}
					}
					if !feeds {
						continue
					}
					nEff++
					if !m.retainGuard(b, lp.idx, true) {
						probs = append(probs, "accumulation at "+p.InstrPos(in)+" is not conditional on retain[i]: STAT counts messages marked deleted")
					}
				case *ssa.Store:
					// accumulation kept in memory: a local variable or a field of a local record
					// (drop.count++, drop.size += msg.Size()) updated from its own previous value
					addr := x.Addr
					base := addr
					if fa, ok := addr.(*ssa.FieldAddr); ok {
						base = fa.X
					}
					if _, isLocal := base.(*ssa.Alloc); !isLocal {
						continue
					}
					bo, ok := x.Val.(*ssa.BinOp)
					if !ok || bo.Op != token.ADD {
						continue
					}
					self := false
					for _, opnd := range []ssa.Value{bo.X, bo.Y} {
						if u, ok := eng.StripConv(opnd).(*ssa.UnOp); ok && u.Op == token.MUL {
							if u.X == addr {
								self = true
							}
							if fa1, ok := u.X.(*ssa.FieldAddr); ok {
								if fa2, ok := addr.(*ssa.FieldAddr); ok && fa1.X == fa2.X && fa1.Field == fa2.Field {
									self = true
								}
							}
						}
					}
					if !self {
						continue
					}
					nEff++
					if !m.retainGuard(b, lp.idx, true) {
						probs = append(probs, "accumulation at "+p.InstrPos(in)+" is not conditional on retain[i]: STAT counts messages marked deleted")
					}
				}
			}
		}
		if nEff == 0 {
			continue // e.g. the retain reset's own loop
		}
		sort.Strings(probs)
		if len(probs) > 0 {
			r.Bad("C13/VIEWS", cons, p.InstrPos(eng.IfOf(lp.header)), "%s", strings.Join(probs, "; "))
		} else {
			r.Ok("C13/VIEWS", cons, p.InstrPos(eng.IfOf(lp.header)), "%d per-message effects, all under retain[i]; numbers are i+1", nEff)
		}
		// D6 terminator after the loop
		hasSend := false
		for b := range body {
			for _, in := range b.Instrs {
				if call, ok := in.(*ssa.Call); ok && eng.StaticCallee(call.Common()) == m.send {
					hasSend = true
				}
			}
		}
		if hasSend {
			isTerm := func(in ssa.Instruction) bool {
				call, ok := in.(*ssa.Call)
				if !ok || eng.StaticCallee(call.Common()) != m.send {
					return false
				}
				s, isC := eng.ConstString(firstStringArg(call))
				return isC && s == "."
			}
			if ret := eng.BlockReaches(lp.header.Succs[1], eng.IsReturn, isTerm); ret != nil {
				r.Bad("C13/TERMINATOR", cons, p.InstrPos(ret), "a multi-line response can end without the \".\" line: the client waits forever")
			} else {
				r.Ok("C13/TERMINATOR", cons, p.InstrPos(eng.IfOf(lp.header)), "\".\" follows the listing on every path")
			}
		}
	}
	// per-message effects moved into the callback of a snapshot iterator
	for _, v := range m.visits() {
		if eng.Outer(v.closure) == m.deleteProc {
			continue
		}
		cons := "snapshot-visit@" + shortFn(v.closure)
		var probs []string
		nEff := 0
		hasSend := false
		eng.EachInstr(v.closure, func(in ssa.Instruction) {
			switch x := in.(type) {
			case *ssa.Call:
				if eng.StaticCallee(x.Common()) != m.send {
					return
				}
				nEff++
				hasSend = true
				if v.idxParam == nil || !sprintfHasIndexPlusOne(x.Call.Args[len(x.Call.Args)-1], v.idxParam) {
					probs = append(probs, "line sent at "+p.InstrPos(in)+" does not carry i+1 as the message number")
				}
			case *ssa.Store:
				// accumulation into a variable of the enclosing function
				if _, isFV := x.Addr.(*ssa.FreeVar); isFV {
					nEff++
				}
			}
		})
		if nEff == 0 {
			continue
		}
		if !v.want {
			probs = append(probs, "the callback is run by "+shortFn(v.iter)+" for messages with retain[i] false: messages marked deleted are listed or counted")
		}
		sort.Strings(probs)
		if len(probs) > 0 {
			r.Bad("C13/VIEWS", cons, p.InstrPos(v.site), "%s", strings.Join(probs, "; "))
		} else {
			r.Ok("C13/VIEWS", cons, p.InstrPos(v.site), "%d per-message effects in a callback %s runs only under retain[i]; numbers are i+1", nEff, shortFn(v.iter))
		}
		if hasSend {
			isTerm := func(in ssa.Instruction) bool {
				call, ok := in.(*ssa.Call)
				if !ok || eng.StaticCallee(call.Common()) != m.send {
					return false
				}
				s, isC := eng.ConstString(firstStringArg(call))
				return isC && s == "."
			}
			if ret := (&eng.Search{Target: eng.IsReturn, Avoid: isTerm}).After(v.site.(ssa.Instruction)); ret != nil {
				r.Bad("C13/TERMINATOR", cons, p.InstrPos(ret), "a multi-line response can end without the \".\" line: the client waits forever")
			} else {
				r.Ok("C13/TERMINATOR", cons, p.InstrPos(v.site), "\".\" follows the listing on every path")
			}
		}
	}
	// message numbers are positions in the snapshot: a line that carries loopIndex+1 must come
	// from a loop over Session.messages / Session.retain itself (or from a snapshot iterator
	// passing the snapshot position), never from a loop over a filtered copy — after a DELE the
	// positions in such a copy no longer are the session's message numbers
	for _, fn := range m.fns {
		fn := fn
		for _, b := range fn.Blocks {
			rel, ok := eng.EdgeRel(b, 0)
			if !ok || rel.Op != token.LSS || len(b.Succs) != 2 || !b.Dominates(b.Succs[0]) {
				continue
			}
			lc, isLen := rel.Y.(*ssa.Call)
			if !isLen || eng.CalleeName(lc.Common()) != "builtin.len" {
				continue
			}
			sl := lc.Call.Args[0]
			isSnap := func(v ssa.Value) bool {
				f := eng.LoadedField(v)
				return eng.SameField(f, m.fMessages) || eng.SameField(f, m.fRetain)
			}
			if isSnap(sl) || isSnap(resolveCell(sl)) {
				continue
			}
			// an accessor that hands out the snapshot itself
			if hc, idxR := eng.CallAndIndex(sl); hc != nil {
				if rets, g := eng.ReturnedValues(hc, idxR); g != nil && len(rets) > 0 {
					all := true
					for _, rv := range rets {
						if !isSnap(rv) {
							all = false
						}
					}
					if all {
						continue
					}
				}
			}
			idx := rel.X
			for _, bb := range fn.Blocks {
				if !b.Succs[0].Dominates(bb) {
					continue
				}
				for _, in := range bb.Instrs {
					call, isCall := in.(*ssa.Call)
					if !isCall || eng.StaticCallee(call.Common()) != m.send {
						continue
					}
					if sprintfHasIndexPlusOne(call.Call.Args[len(call.Call.Args)-1], idx) {
						r.Bad("C13/VIEWS", siteCons(p, in, ord, "number-from-copy"), p.InstrPos(in), "the line numbers its entries by position in a slice that is not the session snapshot (a filtered or derived copy): once a message has been marked with DELE the listing renumbers the remaining messages, while RETR/DELE/LIST n keep the original numbers — a client acting on the listing retrieves or deletes the wrong message")
					}
				}
			}
		}
	}
	// single-message LIST / UIDL replies: sends whose text uses messages[n-1] with parsed n
	nSingle := 0
	for _, fn := range m.fns {
		fn := fn
		eng.EachInstr(fn, func(in ssa.Instruction) {
			call, ok := in.(*ssa.Call)
			if !ok || !m.sendLike(eng.StaticCallee(call.Common())) {
				return
			}
			idx := parsedIndexInSprintf(call.Call.Args[len(call.Call.Args)-1], m)
			if idx == nil {
				return
			}
			// only LIST/UIDL arms (possibly established by the callers of an extracted handler)
			arms := m.armsOf(fn, call.Block(), map[string]bool{"LIST": true, "UIDL": true, "RETR": true, "TOP": true, "DELE": true, "STAT": true}, 0)
			arm := ""
			for k := range arms {
				if k != "LIST" && k != "UIDL" {
					return
				}
				if arm == "" || k < arm {
					arm = k
				}
			}
			if arm == "" {
				return
			}
			if len(arms) > 1 {
				arm = "LIST+UIDL"
			}
			// only positive (+OK) replies
			if pre, ok := eng.ReplyPrefix(firstStringArg(call)); ok && !strings.HasPrefix(pre, "+OK") {
				return
			}
			nSingle++
			cons := "single-" + arm + "@" + shortFn(fn)
			if why := m.viewMethod(fn, call, call.Block(), idx); why != "" {
				r.Bad("C13/VIEWS", cons+":value", p.InstrPos(in), "%s", why)
			}
			if m.retainGuard(call.Block(), idx, true) {
				r.Ok("C13/VIEWS", cons, p.InstrPos(in), "single-message %s reply is guarded by retain[n-1]", arm)
			} else {
				r.Bad("C13/VIEWS", cons, p.InstrPos(in), "single-message %s answers for a message marked deleted (no retain[n-1] guard)", arm)
			}
		})
	}
	r.Floor("C13/VIEWS", "single-message LIST/UIDL replies", nSingle, 1)
}

// sprintfHasIndexPlusOne: v = fmt.Sprintf(fmt, args…) with an argument equal to the loop's
// incremented index + 1 (go/ssa: index value is already phi+1, so i+1 = idx + 1).
func sprintfHasIndexPlusOne(v ssa.Value, idx ssa.Value) bool {
	for _, a := range sprintfArgs(v) {
		a = unwrapIface(a)
		if b, ok := a.(*ssa.BinOp); ok && b.Op == token.ADD && b.X == idx {
			if k, ok := eng.ConstInt(b.Y); ok && k == 1 {
				return true
			}
		}
	}
	return false
}

func sprintfArgs(v ssa.Value) []ssa.Value {
	// either fmt.Sprintf(format, operands…) or, for a printf-style send, the operand pack itself
	sl, ok := v.(*ssa.Slice)
	if !ok {
		call, isCall := v.(*ssa.Call)
		if !isCall || eng.CalleeName(call.Common()) != "fmt.Sprintf" || len(call.Call.Args) < 2 {
			return nil
		}
		sl, ok = call.Call.Args[1].(*ssa.Slice)
		if !ok {
			return nil
		}
	}
	al, ok := sl.X.(*ssa.Alloc)
	if !ok {
		return nil
	}
	var out []ssa.Value
	for _, ref := range *al.Referrers() {
		if ia, ok := ref.(*ssa.IndexAddr); ok {
			for _, r2 := range *ia.Referrers() {
				if st, ok := r2.(*ssa.Store); ok {
					out = append(out, st.Val)
				}
			}
		}
	}
	return out
}

// parsedIndexInSprintf: the reply text uses messages[idx].X() with idx not a loop index;
// returns idx.
func parsedIndexInSprintf(v ssa.Value, m *pop3Model) ssa.Value {
	loopIdx := map[ssa.Value]bool{}
	for _, lp := range m.snapshotLoops() {
		loopIdx[lp.idx] = true
	}
	elemIdx := func(x ssa.Value) ssa.Value {
		if hc, isCall := unwrapIface(x).(*ssa.Call); isCall {
			// the element through a 1-based accessor (s.drop.message(n))
			if acc := m.accessor(eng.StaticCallee(hc.Common())); acc != nil && acc.kind == "elem" && eng.SameField(acc.field, m.fMessages) && acc.nParam < len(hc.Call.Args) {
				return oneBasedIdx{hc.Call.Args[acc.nParam]}
			}
			return nil
		}
		u, ok := unwrapIface(x).(*ssa.UnOp)
		if !ok {
			return nil
		}
		ia, ok := u.X.(*ssa.IndexAddr)
		if !ok || !eng.SameField(m.loadedField(ia.X), m.fMessages) {
			return nil
		}
		if loopIdx[eng.StripConv(ia.Index)] || loopIdx[ia.Index] {
			return nil
		}
		return ia.Index
	}
	for _, a := range sprintfArgs(v) {
		a = unwrapIface(a)
		call, ok := a.(*ssa.Call)
		if !ok {
			continue
		}
		if call.Call.IsInvoke() {
			if idx := elemIdx(call.Call.Value); idx != nil {
				return idx
			}
		}
		for _, arg := range call.Call.Args {
			if idx := elemIdx(arg); idx != nil {
				return idx
			}
		}
	}
	return nil
}

func fromParse(v ssa.Value) bool {
	return fromCall(v, "strconv.ParseInt", 0) || fromCall(v, "strconv.Atoi", 0) || fromCall(v, "strconv.ParseUint", 0)
}

// guardsBound: in fn, block at is dominated by nv >= 1 and nv <= len(messages).
func (m *pop3Model) guardsBound(fn *ssa.Function, nv ssa.Value, at *ssa.BasicBlock) (lower, upper bool) {
	for _, bb := range fn.Blocks {
		for e := 0; e < len(bb.Succs) && len(bb.Succs) == 2; e++ {
			if !eng.EdgeDominates(bb, e, at) {
				continue
			}
			// the upper bound asked of a helper (if !s.drop.holds(n) { …; return }): the helper's
			// single result is n <= len(messages) of its own parameter
			if v, pol, okT := eng.CondTruth(bb, e); okT && pol {
				if hc, isCall := v.(*ssa.Call); isCall {
					if acc := m.accessor(eng.StaticCallee(hc.Common())); acc != nil && acc.kind == "upper" && acc.nParam < len(hc.Call.Args) && eng.StripConv(hc.Call.Args[acc.nParam]) == nv {
						upper = true
					}
				}
			}
			rel, ok := eng.EdgeRel(bb, e)
			if !ok {
				continue
			}
			x, y := eng.StripConv(rel.X), eng.StripConv(rel.Y)
			_ = y
			if x == nv {
				if kk, isC := eng.ConstInt(y); isC {
					if (rel.Op == token.GEQ && kk >= 1) || (rel.Op == token.GTR && kk >= 0) {
						lower = true
					}
				}
				if lx := eng.LenOf(y); lx != nil && eng.SameField(m.loadedField(lx), m.fMessages) {
					if rel.Op == token.LEQ {
						upper = true
					}
				}
			}
		}
	}
	return
}

// boundedNumber decides whether nv (the 1-based message number used at `at`) is within
// 1..len(messages): either nv is parsed here and guarded here, or it is the value result of a
// module helper whose ok result is known true at `at` and whose every (value, true) return is
// a parsed number guarded inside the helper.
func (m *pop3Model) boundedNumber(nv ssa.Value, at *ssa.BasicBlock) (decided bool, lower, upper bool) {
	nv = eng.StripConv(nv)
	if fromParse(nv) {
		l, u := m.guardsBound(at.Parent(), nv, at)
		return true, l, u
	}
	call, idx := eng.CallAndIndex(nv)
	if call == nil {
		return false, false, false
	}
	g := eng.StaticCallee(call.Common())
	if g == nil || !eng.InModule(g) || len(g.Blocks) == 0 {
		return false, false, false
	}
	// which boolean result is known true at `at`?
	okIdx := -1
	for _, ref := range *call.Referrers() {
		ex, isEx := ref.(*ssa.Extract)
		if !isEx {
			continue
		}
		if b, isB := ex.Type().Underlying().(*types.Basic); !isB || b.Kind() != types.Bool {
			continue
		}
		for _, bb := range at.Parent().Blocks {
			for e := 0; e < len(bb.Succs) && len(bb.Succs) == 2; e++ {
				v, pol, ok := eng.CondTruth(bb, e)
				if ok && pol && v == ssa.Value(ex) && eng.EdgeDominates(bb, e, at) {
					okIdx = ex.Index
				}
			}
		}
	}
	if okIdx < 0 {
		return false, false, false
	}
	lower, upper = true, true
	n := 0
	eng.EachInstr(g, func(in ssa.Instruction) {
		ret, isRet := in.(*ssa.Return)
		if !isRet || eng.IsRecoverBlock(ret.Block()) {
			return
		}
		res := eng.ReturnResults(ret)
		if bv, isC := eng.ConstBool(res[okIdx]); isC && !bv {
			return // (…, false): not used by the caller
		}
		n++
		rv := eng.StripConv(res[idx])
		if !fromParse(rv) {
			lower, upper = false, false
			return
		}
		l, u := m.guardsBound(g, rv, ret.Block())
		lower = lower && l
		upper = upper && u
	})
	return n > 0, lower, upper
}

func (c *Ctx) c13Index(m *pop3Model) {
	r, p := c.R, c.P
	loops := m.snapshotLoops()
	loopIdx := map[ssa.Value]bool{}
	for _, lp := range loops {
		loopIdx[lp.idx] = true
	}
	n := 0
	ord := map[string]int{}
	for _, fn := range m.fns {
		fn := fn
		eng.EachInstr(fn, func(in ssa.Instruction) {
			ia, ok := in.(*ssa.IndexAddr)
			if !ok {
				return
			}
			f := eng.LoadedField(ia.X)
			if !eng.SameField(f, m.fMessages) && !eng.SameField(f, m.fRetain) {
				return
			}
			idx := eng.StripConv(ia.Index)
			if loopIdx[idx] || loopIdx[ia.Index] {
				return // range index over the snapshot (equal lengths by C13/SNAPSHOT)
			}
			// retain reset ranges over retain itself
			if fn == m.retainReset {
				return
			}
			n++
			cons := siteCons(p, in, ord, "index:"+f.Name())
			// an index handed to a helper: judge the expression at the (single) call site
			atBlock := ia.Block()
			for hop := 0; hop < 3; hop++ {
				prm, isP := idx.(*ssa.Parameter)
				if !isP {
					break
				}
				sites := p.StaticCallSites(prm.Parent())
				pi := eng.ParamIndex(prm)
				if len(sites) != 1 || pi < 0 || pi >= len(sites[0].Args) {
					break
				}
				idx = eng.StripConv(sites[0].Args[pi])
				atBlock = sites[0].Instr.(ssa.Instruction).Block()
			}
			// index = n - k for a parsed n (k = 0 when the index is n itself)
			var nv ssa.Value
			var k int64
			if b, ok := idx.(*ssa.BinOp); ok && (b.Op == token.SUB || b.Op == token.ADD) {
				kk, isC := eng.ConstInt(b.Y)
				if isC {
					nv, k = eng.StripConv(b.X), kk
					if b.Op == token.ADD {
						k = -kk
					}
				}
			} else {
				nv, k = idx, 0
			}
			if nv == nil {
				r.Undecided("C13/PANIC/index", cons, p.InstrPos(in), "index expression is neither a loop index nor (message number) - k")
				return
			}
			decided, lower, upper := m.boundedNumber(nv, atBlock)
			if prm, isP := nv.(*ssa.Parameter); !decided && isP {
				// a 1-based accessor (d.message(n) = d.messages[n-1]): the number is bounded where
				// the accessor is called — at every call site
				sites := p.StaticCallSites(prm.Parent())
				pi := eng.ParamIndex(prm)
				if len(sites) > 0 && pi >= 0 {
					decided, lower, upper = true, true, true
					for _, cs := range sites {
						if pi >= len(cs.Args) {
							decided = false
							break
						}
						d2, l2, u2 := m.boundedNumber(eng.StripConv(cs.Args[pi]), cs.Instr.(ssa.Instruction).Block())
						if !d2 {
							decided = false
							break
						}
						lower, upper = lower && l2, upper && u2
					}
				}
			}
			if !decided {
				r.Undecided("C13/PANIC/index", cons, p.InstrPos(in), "index expression is neither a loop index nor (parsed message number) - k")
				return
			}
			if k != 1 {
				r.Bad("C13/PANIC/index", cons, p.InstrPos(in), "%s[n-(%d)]: with the guards 1 <= n <= len(messages) only n-1 is in range; this index panics for n = %s (and addresses the wrong message otherwise)", f.Name(), k, map[bool]string{true: "len(messages)", false: "1"}[k < 1])
				return
			}
			switch {
			case !lower:
				r.Bad("C13/PANIC/index", cons, p.InstrPos(in), "%s[n-1] is not dominated by n >= 1: an argument of 0 or less indexes out of range and the session goroutine panics (no recover: the process dies)", f.Name())
			case !upper:
				r.Bad("C13/PANIC/index", cons, p.InstrPos(in), "%s[n-1] is not dominated by n <= len(messages): a number beyond the snapshot panics the process", f.Name())
			default:
				r.Ok("C13/PANIC/index", cons, p.InstrPos(in), "1 <= n <= len(messages) established by dominating guards")
			}
		})
	}
	r.Floor("C13/PANIC/index", "argument-derived indices into the snapshot", n, 1)
}

// armsOf: the LIST/UIDL/… keywords under whose comparison edge the block executes, looking
// through static callers when the function itself has no such edge.
func (m *pop3Model) armsOf(fn *ssa.Function, at *ssa.BasicBlock, kws map[string]bool, depth int) map[string]bool {
	out := map[string]bool{}
	for _, e := range keywordEdges([]*ssa.Function{fn}, kws) {
		if eng.EdgeDominates(e.b, e.k, at) {
			out[e.kw] = true
		}
	}
	if len(out) > 0 || depth > 3 || fn.Parent() != nil {
		return out
	}
	for _, cs := range m.c.P.StaticCallSites(fn) {
		in := cs.Instr.(ssa.Instruction)
		for k := range m.armsOf(in.Parent(), in.Block(), kws, depth+1) {
			out[k] = true
		}
	}
	return out
}

// accessorOf: the storage.Message accessor a line carries for element idx: either a direct
// invoke on messages[idx], or a call of a func-typed parameter with messages[idx] as
// argument, in which case every caller must pass a closure that returns that accessor of
// its parameter. Returns the set of accessor names per arm.
func (m *pop3Model) accessorOf(fn *ssa.Function, send *ssa.Call, idx ssa.Value) (names map[string]string, found bool, why string) {
	names = map[string]string{}
	isElem := func(v ssa.Value) bool {
		if hc, isCall := unwrapIface(v).(*ssa.Call); isCall {
			if acc := m.accessor(eng.StaticCallee(hc.Common())); acc != nil && acc.kind == "elem" && eng.SameField(acc.field, m.fMessages) && acc.nParam < len(hc.Call.Args) {
				return sameIndex(oneBasedIdx{hc.Call.Args[acc.nParam]}, idx)
			}
			return false
		}
		u, ok := unwrapIface(v).(*ssa.UnOp)
		if !ok {
			return false
		}
		ia, ok := u.X.(*ssa.IndexAddr)
		return ok && eng.SameField(m.loadedField(ia.X), m.fMessages) && sameIndex(ia.Index, idx)
	}
	for _, a := range sprintfArgs(send.Call.Args[len(send.Call.Args)-1]) {
		a = unwrapIface(a)
		call, ok := a.(*ssa.Call)
		if !ok {
			continue
		}
		if call.Call.IsInvoke() && isElem(call.Call.Value) {
			names["*"] = call.Call.Method.Name()
			return names, true, ""
		}
		// attr(messages[idx]) with attr a parameter
		if pi := eng.ParamIndex(call.Call.Value); pi >= 0 && len(call.Call.Args) == 1 && isElem(call.Call.Args[0]) {
			for _, cs := range m.c.P.StaticCallSites(fn) {
				in := cs.Instr.(ssa.Instruction)
				arms := m.armsOf(in.Parent(), in.Block(), map[string]bool{"LIST": true, "UIDL": true}, 0)
				var g *ssa.Function
				switch fv := cs.Args[pi].(type) {
				case *ssa.MakeClosure:
					g, _ = fv.Fn.(*ssa.Function)
				case *ssa.Function:
					g = fv
				}
				if g == nil || len(g.Params) == 0 {
					return names, true, "the accessor passed at " + m.c.P.InstrPos(in) + " is not a function literal"
				}
				acc := ""
				for _, ret := range successReturns(g) {
					if ic, ok := unwrapIface(eng.ReturnResults(ret)[0]).(*ssa.Call); ok && ic.Call.IsInvoke() && ic.Call.Value == ssa.Value(g.Params[0]) {
						acc = ic.Call.Method.Name()
					}
				}
				for arm := range arms {
					names[arm] = acc
				}
			}
			return names, true, ""
		}
	}
	return names, false, ""
}

// viewMethod: under the LIST arm a line carries Size() of messages[idx], under UIDL ID();
// returns a complaint or "".
func (m *pop3Model) viewMethod(fn *ssa.Function, send *ssa.Call, at *ssa.BasicBlock, idx ssa.Value) string {
	want := map[string]string{"LIST": "Size", "UIDL": "ID"}
	arms := m.armsOf(fn, at, map[string]bool{"LIST": true, "UIDL": true}, 0)
	if len(arms) == 0 {
		return ""
	}
	names, found, why := m.accessorOf(fn, send, idx)
	if why != "" {
		return why
	}
	if !found {
		return "the line at " + m.c.P.InstrPos(send) + " does not carry an accessor of the snapshot element it numbers"
	}
	for arm := range arms {
		got := names[arm]
		if got == "" {
			got = names["*"]
		}
		if got != want[arm] {
			return "the " + arm + " line at " + m.c.P.InstrPos(send) + " carries " + got + "() instead of " + want[arm] + "()"
		}
	}
	return ""
}

// sameNamedStruct: t (a pointer to a struct) is the struct that declares field f.
func sameNamedStruct(t types.Type, f *types.Var) bool {
	if pt, ok := t.Underlying().(*types.Pointer); ok {
		t = pt.Elem()
	}
	st, ok := t.Underlying().(*types.Struct)
	if !ok {
		return false
	}
	for i := 0; i < st.NumFields(); i++ {
		if st.Field(i) == f || st.Field(i).Origin() == f.Origin() {
			return true
		}
	}
	return false
}

// firstStringArg: the text (or format) argument of a call of the session's send function.
func firstStringArg(call *ssa.Call) ssa.Value {
	for _, a := range call.Call.Args {
		if isString(a.Type()) {
			return a
		}
	}
	return call.Call.Args[len(call.Call.Args)-1]
}

// collectsMarked: the module helper called by hc returns a slice built only by appending
// snapshot elements messages[i], each append under the !retain[i] edge for the same i.
// Returns "" or what is wrong.
func (m *pop3Model) collectsMarked(hc *ssa.Call) string {
	g := eng.StaticCallee(hc.Common())
	if g == nil || !eng.InModule(g) || len(g.Blocks) == 0 {
		return "it is not a function of the module"
	}
	nApp := 0
	bad := ""
	eng.EachInstr(g, func(in ssa.Instruction) {
		call, ok := in.(*ssa.Call)
		if !ok || eng.CalleeName(call.Common()) != "builtin.append" {
			return
		}
		sl, ok := call.Call.Args[1].(*ssa.Slice)
		if !ok {
			bad = "appends a whole slice"
			return
		}
		al, ok := sl.X.(*ssa.Alloc)
		if !ok {
			bad = "appends a whole slice"
			return
		}
		for _, ref := range *al.Referrers() {
			ia, ok := ref.(*ssa.IndexAddr)
			if !ok {
				continue
			}
			for _, r2 := range *ia.Referrers() {
				st, ok := r2.(*ssa.Store)
				if !ok {
					continue
				}
				nApp++
				u, ok := st.Val.(*ssa.UnOp)
				if !ok {
					bad = "appends something that is not a snapshot element"
					continue
				}
				ea, ok := u.X.(*ssa.IndexAddr)
				if !ok || !eng.SameField(m.loadedField(ea.X), m.fMessages) {
					bad = "appends something that is not a snapshot element"
					continue
				}
				if !m.retainGuard(call.Block(), ea.Index, false) {
					bad = "appends snapshot[i] without the guard !retain[i] for the same i: unmarked messages would be deleted on QUIT"
				}
			}
		}
	})
	if bad != "" {
		return bad
	}
	if nApp == 0 {
		return "it appends nothing"
	}
	return ""
}

// c13SameMailbox: the snapshot and the commit name the same mailbox. The delete processor
// removes from the mailbox held in a session field (C13/COMMIT requires that); the loader must
// list that same mailbox — the name it passes to the store is a load of that field, or a value
// stored into it before the call, at every call site that supplies it — and once the
// snapshot exists the field is not written again.
func (c *Ctx) c13SameMailbox(m *pop3Model) {
	r, p := c.R, c.P
	rule := "C13/COMMIT/same-mailbox"
	r.Rule(rule, "the mailbox name every Store listing call of the session passes (GetMessages) is the session field RemoveMessage takes its mailbox from — loaded from it, or stored into it before the call, at every call site that supplies the name — and that field is written only in AUTHORIZATION state")
	// the field the delete processor names the mailbox with
	var fMb *types.Var
	for _, fn := range m.fns {
		fn := fn
		eng.EachInstr(fn, func(in ssa.Instruction) {
			ci, ok := in.(ssa.CallInstruction)
			if !ok || !eng.IsCallTo(ci.Common(), m.rmObj) {
				return
			}
			args := ci.Common().Args
			if len(args) < 2 {
				return
			}
			if f := m.loadedField(args[len(args)-2]); f != nil && fMb == nil {
				fMb = f
			}
		})
	}
	if fMb == nil {
		r.Undecided(rule, "mailbox-field", p.Pos(m.deleteProc.Pos()), "the session field RemoveMessage takes its mailbox from was not found")
		return
	}
	listObj := p.MethodObj("pkg/storage", "Store", "GetMessages")
	if listObj == nil {
		return
	}
	holds := func(site ssa.Instruction, v ssa.Value) bool {
		v = eng.StripConv(v)
		if eng.SameField(eng.LoadedField(v), fMb) {
			return true
		}
		ok := false
		eng.EachInstr(site.Parent(), func(x ssa.Instruction) {
			st, isSt := x.(*ssa.Store)
			if !isSt || eng.StripConv(st.Val) != v {
				return
			}
			if fa, isFA := st.Addr.(*ssa.FieldAddr); isFA && eng.SameField(eng.FieldOfAddr(fa), fMb) && eng.Dominates(x, site) {
				ok = true
			}
		})
		return ok
	}
	n := 0
	ord := map[string]int{}
	for _, fn := range m.fns {
		fn := fn
		eng.EachInstr(fn, func(in ssa.Instruction) {
			ci, ok := in.(ssa.CallInstruction)
			if !ok || !eng.IsCallTo(ci.Common(), listObj) {
				return
			}
			args := ci.Common().Args
			if len(args) < 1 {
				return
			}
			n++
			cons := siteCons(p, in, ord, "list")
			if p.Lift(in, args[len(args)-1], 0, holds) {
				r.Ok(rule, cons, p.InstrPos(in), "the listed mailbox is Session.%s, the one the delete processor removes from", fMb.Name())
			} else {
				r.Bad(rule, cons, p.InstrPos(in), "the mailbox listed here is not (at every call site that supplies the name) the session field %s that RemoveMessage addresses at QUIT: the session shows one mailbox and commits its deletions to another — the marked messages stay, or the messages with the same ids in another user's mailbox are removed", fMb.Name())
			}
		})
	}
	r.Floor(rule, "Store.GetMessages calls in pop3", n, 1)
	// the name is fixed once the snapshot exists
	auth := m.states["AUTHORIZATION"]
	nW := 0
	for _, fn := range m.fns {
		fn := fn
		eng.EachInstr(fn, func(in ssa.Instruction) {
			st, ok := in.(*ssa.Store)
			if !ok {
				return
			}
			fa, ok := st.Addr.(*ssa.FieldAddr)
			if !ok || !eng.SameField(eng.FieldOfAddr(fa), fMb) {
				return
			}
			if _, fresh := fa.X.(*ssa.Alloc); fresh {
				return
			}
			nW++
			var bad []string
			for _, cfg := range m.ts.ConfigsAt(in) {
				if cfg.A != auth {
					bad = append(bad, m.cfgStr(cfg))
				}
			}
			cons := siteCons(p, in, ord, "write:"+fMb.Name())
			if len(bad) > 0 {
				r.Bad(rule, cons, p.InstrPos(in), "Session.%s is written in %v: the mailbox the deletions are committed to is no longer the one the snapshot was taken from", fMb.Name(), bad)
			} else {
				r.Ok(rule, cons, p.InstrPos(in), "written only in AUTHORIZATION state")
			}
		})
	}
	r.Floor(rule, "writers of the session's mailbox field", nW, 1)
}

// snapshotFields finds the POP3 session's snapshot by type: the one []storage.Message field, the
// one []bool field next to it and the one int field next to them that is assigned a len() of
// the messages somewhere in the package, in Session or in a struct type of the package that
// Session holds by value or by pointer.
func snapshotFields(p *eng.Prog) (msgs, retain, count, holder *types.Var) {
	sess := p.Named(pop3Rel, "Session")
	if sess == nil {
		return
	}
	st, ok := sess.Underlying().(*types.Struct)
	if !ok {
		return
	}
	isMsgSlice := func(t types.Type) bool {
		sl, ok := t.Underlying().(*types.Slice)
		if !ok {
			return false
		}
		n, ok := sl.Elem().(*types.Named)
		return ok && n.Obj().Name() == "Message" && n.Obj().Pkg() != nil && strings.HasSuffix(n.Obj().Pkg().Path(), "/pkg/storage")
	}
	isBoolSlice := func(t types.Type) bool {
		sl, ok := t.Underlying().(*types.Slice)
		if !ok {
			return false
		}
		b, ok := sl.Elem().Underlying().(*types.Basic)
		return ok && b.Kind() == types.Bool
	}
	structs := []*types.Struct{st}
	holders := []*types.Var{nil}
	for i := 0; i < st.NumFields(); i++ {
		t := st.Field(i).Type()
		if pt, ok := t.(*types.Pointer); ok {
			t = pt.Elem()
		}
		if n, ok := t.(*types.Named); ok && n.Obj().Pkg() == sess.Obj().Pkg() && !st.Field(i).Embedded() {
			if inner, ok := n.Underlying().(*types.Struct); ok {
				structs = append(structs, inner)
				holders = append(holders, st.Field(i))
			}
		}
	}
	for si, s := range structs {
		var ms, rs, ints []*types.Var
		for i := 0; i < s.NumFields(); i++ {
			f := s.Field(i)
			switch {
			case isMsgSlice(f.Type()):
				ms = append(ms, f)
			case isBoolSlice(f.Type()):
				rs = append(rs, f)
			default:
				if b, ok := f.Type().Underlying().(*types.Basic); ok && b.Kind() == types.Int {
					ints = append(ints, f)
				}
			}
		}
		if len(ms) != 1 || len(rs) != 1 {
			continue
		}
		msgs, retain, holder = ms[0], rs[0], holders[si]
		// the count: an int field of the same record that some function sets to len(messages)
		for _, f := range ints {
			for _, fs := range eng.StoresToField(pkgFuncs(p, pop3Rel), f) {
				if lx := eng.LenOf(fs.Store.Val); lx != nil && eng.SameField(eng.LoadedField(lx), msgs) {
					count = f
				}
			}
		}
		return
	}
	return
}

// ResolveCallee: a handler taken from a package-level table keyed by the session state
// (stateHandlers[s.state]) is the table's entry for the current state.
func (m *pop3Model) ResolveCallee(call *ssa.Call, c eng.TSConfig) *ssa.Function {
	return eng.TableCallee(call.Call.Value, func(idx ssa.Value) (int64, bool) {
		if eng.SameField(eng.LoadedField(eng.StripConv(idx)), m.fState) {
			return c.A, true
		}
		return 0, false
	})
}

// oneBasedIdx wraps a 1-based message number n that stands for the index n-1 (the argument of a
// 1-based accessor), so that it can be compared with explicit n-1 index expressions.
type oneBasedIdx struct{ ssa.Value }

// pop3Accessor describes a helper of the snapshot record: "elem" returns field[n-1] of its
// number parameter, "upper" returns n <= len(messages).
type pop3Accessor struct {
	kind   string
	field  *types.Var
	nParam int
}

func (m *pop3Model) accessor(g *ssa.Function) *pop3Accessor {
	if g == nil || len(g.Blocks) != 1 || eng.FuncPkgPath(g) != eng.Mod+"/"+pop3Rel {
		return nil
	}
	ret, ok := g.Blocks[0].Instrs[len(g.Blocks[0].Instrs)-1].(*ssa.Return)
	if !ok || len(ret.Results) != 1 {
		return nil
	}
	prmOf := func(v ssa.Value) int {
		if prm, ok := eng.StripConv(v).(*ssa.Parameter); ok && prm.Parent() == g {
			return eng.ParamIndex(prm)
		}
		return -1
	}
	rv := ret.Results[0]
	if u, ok := rv.(*ssa.UnOp); ok && u.Op == token.MUL {
		if ia, ok := u.X.(*ssa.IndexAddr); ok {
			f := eng.LoadedField(ia.X)
			if !eng.SameField(f, m.fMessages) && !eng.SameField(f, m.fRetain) {
				return nil
			}
			if bo, ok := eng.StripConv(ia.Index).(*ssa.BinOp); ok && bo.Op == token.SUB {
				if k, isC := eng.ConstInt(bo.Y); isC && k == 1 {
					if pi := prmOf(bo.X); pi >= 0 {
						return &pop3Accessor{kind: "elem", field: f, nParam: pi}
					}
				}
			}
		}
		return nil
	}
	if rel, ok := eng.CondRel(rv); ok && rel.Op == token.LEQ {
		if pi := prmOf(rel.X); pi >= 0 {
			if lx := eng.LenOf(eng.StripConv(rel.Y)); lx != nil && eng.SameField(eng.LoadedField(lx), m.fMessages) {
				return &pop3Accessor{kind: "upper", nParam: pi}
			}
		}
	}
	return nil
}

// sendLike: g writes a reply: the reply writer itself, or a printf-style wrapper of the package
// around it (sendf(format, args…) = send(fmt.Sprintf(format, args…))).
func (m *pop3Model) sendLike(g *ssa.Function) bool {
	if g == nil {
		return false
	}
	if g == m.send {
		return true
	}
	if eng.FuncPkgPath(g) != eng.Mod+"/"+pop3Rel || !g.Signature.Variadic() || len(g.Blocks) == 0 {
		return false
	}
	calls := false
	eng.EachInstr(g, func(in ssa.Instruction) {
		if call, ok := in.(*ssa.Call); ok && eng.StaticCallee(call.Common()) == m.send {
			calls = true
		}
	})
	return calls
}

// c13FreshList: the snapshot a POP3 session takes at login is its own. Every store's
// GetMessages hands out a slice built for that call (made, or appended to from empty), never the
// container the store itself keeps and edits: a later removal that compacts the store's list in
// place would otherwise shift the message numbers under a session in TRANSACTION state.
func (c *Ctx) c13FreshList() {
	r, p := c.R, c.P
	rule := "C13/SNAPSHOT/fresh-list"
	r.Rule(rule, "every Store implementer's GetMessages returns a slice created for that call (not a container the store keeps)")
	stT := p.Named("pkg/storage", "Store")
	if stT == nil {
		return
	}
	iface, ok := stT.Underlying().(*types.Interface)
	if !ok {
		return
	}
	n := 0
	for _, T := range p.Implementers(iface, false) {
		fn := p.MethodOf(T, "GetMessages")
		if fn == nil || len(fn.Blocks) == 0 {
			continue
		}
		n++
		cons := eng.ShortType(T) + ".GetMessages"
		bad := ""
		for _, ret := range successReturns(fn) {
			res := eng.ReturnResults(ret)
			if len(res) == 0 {
				continue
			}
			if okF, why := c.freshSlice(res[0], 0); !okF {
				bad = why
			}
		}
		if bad != "" {
			r.Bad(rule, cons, p.Pos(fn.Pos()), "GetMessages hands out %s: the POP3 session's snapshot shares its backing array with the store, so a removal by another actor renumbers (and a QUIT then deletes) other messages than the session marked", bad)
		} else {
			r.Ok(rule, cons, p.Pos(fn.Pos()), "the returned list is created for the call")
		}
	}
	r.Floor(rule, "Store implementers", n, 2)
}
