package rules

import (
	"go/token"
	"go/types"
	"sort"
	"strings"

	"golang.org/x/tools/go/ssa"

	"ibcheck/eng"
)

func init() { Registry["C17"] = checkC17 }

const luaRel = "pkg/extension/luahost"

func checkC17(c *Ctx) {
	r := c.R
	r.Explanation = "Decides the plumbing between extension hooks and the code that honours them: (D1) the synchronous EventBroker.Emit calls listeners in slice order inside one loop, returns the first non-nil result from the edge on which it was non-nil without calling another listener, and otherwise returns nil; (D2) in the MAIL and RCPT handlers, with a = φ(Defer, result.Action): the a==Deny edge replies with the hook's ErrorCode/ErrorMsg and returns without touching state or recipients, the domain-policy call is control-dependent on a==Defer, and the accepting step is reachable with a!=Defer without the policy call (C05 decides the converse); (D3) in Deliver the store-policy filter runs only on the edge where the before-store hook returned nil, and destinations/metadata come from the post-hook message (C01/ONCE, C01/META); (D4) every Lua CallByParam has Protect: true, the before-handlers return nil on its error edge, and the unwrap helpers never return a non-nil value together with an error; (D5) pooled Lua states are exclusive: pool fields are touched only under the pool mutex, getState shrinks the pool before handing out the popped state, and each user defers putState exactly once after obtaining a state."
	r.NotDecided = []string{"Lua semantics and the handler script grammar", "cross-session state inside Lua globals", "a state that is not returned on the getInbucket error path (a leak, not a corruption)"}
	r.Assumptions = []string{"gopher-lua: CallByParam with Protect=true returns Lua errors as Go errors instead of panicking"}
	r.Rule("C17/FIRST", "EventBroker.Emit: one listener call site, in one loop over listenerFuncs; a non-nil result is returned on its non-nil edge with no further listener call; the fall-through returns nil; the called element is read under the broker's lock unless nothing edits the list's backing array in place")
	r.Rule("C17/MAP", "MAIL/RCPT: the a==Deny edge sends a reply built from ErrorCode and ErrorMsg of the hook result and returns without state/recipient changes; the policy call is dominated by a==Defer; the accepting step is reachable on a!=Defer without the policy call")
	r.Rule("C17/REPLACE", "Deliver: Recipient.ShouldStore is consulted only on the edge where BeforeMessageStored returned nil")
	r.Rule("C17/LUA/protect", "every (*LState).CallByParam passes lua.P{Protect: true}; before-handlers return nil on its error edge; unwrap* never return (non-nil, error)")
	r.Rule("C17/POOL", "statePool.states/channels only under the pool mutex; getState stores the shrunk slice before returning the popped state; every function that obtains a state defers putState once, after the success check")
	r.Rule("C17/LUA/fresh", "a Lua-callable constructor (func(*lua.LState) int) hands Lua only objects it allocates during that call: no value wrapped into LUserData.Value inside such a function derives from a captured variable or a package-level variable (it would be shared by every call and every pooled state)")
	c.c17Fresh()
	r.Rule("C17/LUA/isolated", "a Lua handler that exposes its (by-value) event parameter to Lua first replaces every pointer- or slice-typed field of that struct by a freshly allocated copy: what a script writes through the object cannot reach the caller's or another listener's data unless the handler returns it")
	c.c17Isolated()
	c.c17First()
	c.c17Map()
	c.c17Replace()
	c.c17Lua()
	c.c17AnswerVerbatim()
	c.c17Pool()
}

func (c *Ctx) c17First() {
	r, p := c.R, c.P
	ebT := p.Named("pkg/extension", "EventBroker")
	if ebT == nil {
		return
	}
	obj, _, _ := types.LookupFieldOrMethod(types.NewPointer(ebT), true, ebT.Obj().Pkg(), "Emit")
	emitObj, _ := obj.(*types.Func)
	if emitObj == nil {
		r.Fatal("UNRESOLVED anchor=EventBroker.Emit")
		return
	}
	n := 0
	seen := map[string]bool{}
	for _, fn := range p.Funcs {
		if o := eng.FuncObj(fn); o == nil || o != emitObj.Origin() {
			continue
		}
		n++
		var calls []*ssa.Call
		eng.EachInstr(fn, func(in ssa.Instruction) {
			call, ok := in.(*ssa.Call)
			if !ok || eng.StaticCallee(call.Common()) != nil || call.Call.IsInvoke() {
				return
			}
			if _, isB := call.Call.Value.(*ssa.Builtin); isB {
				return
			}
			// function value taken from an element of a slice field of the broker (the element
			// itself, or a func-typed field of a registration record)
			v := call.Call.Value
			for i := 0; i < 4; i++ {
				switch x := v.(type) {
				case *ssa.UnOp:
					if x.Op == token.MUL {
						v = x.X
						continue
					}
				case *ssa.FieldAddr:
					v = x.X
					continue
				case *ssa.Field:
					v = x.X
					continue
				}
				break
			}
			// the range variable is a local copy of the element
			if al, ok := v.(*ssa.Alloc); ok && al.Referrers() != nil {
				var vals []ssa.Value
				for _, ref := range *al.Referrers() {
					if st, ok := ref.(*ssa.Store); ok && st.Addr == ssa.Value(al) {
						vals = append(vals, st.Val)
					}
				}
				if len(vals) == 1 {
					if u, ok := vals[0].(*ssa.UnOp); ok && u.Op == token.MUL {
						v = u.X
					}
				}
			}
			if ia, ok := v.(*ssa.IndexAddr); ok {
				if f := eng.LoadedField(ia.X); f != nil {
					if _, isSlice := f.Type().Underlying().(*types.Slice); isSlice {
						calls = append(calls, call)
					}
				}
			}
		})
		key := "extension.EventBroker.Emit"
		if seen[key] {
			// instantiations share the body: one obligation per distinct verdict is enough
		}
		var probs []string
		if len(calls) != 1 {
			probs = append(probs, "expected exactly one listener call site, found "+itoa(int64(len(calls))))
		} else {
			call := calls[0]
			if len(loopHeaders(call.Block())) != 1 {
				probs = append(probs, "the listener call is not in exactly one loop")
			} else {
				// order = slice order: the element index starts at the first element and
				// advances by one (a range index, or i := 0; …; i++)
				okIdx := false
				v := call.Call.Value
				for i := 0; i < 4; i++ {
					switch x := v.(type) {
					case *ssa.UnOp:
						v = x.X
						continue
					case *ssa.FieldAddr:
						v = x.X
						continue
					}
					break
				}
				if al, ok := v.(*ssa.Alloc); ok && al.Referrers() != nil {
					for _, ref := range *al.Referrers() {
						if st, ok := ref.(*ssa.Store); ok && st.Addr == ssa.Value(al) {
							if u, ok := st.Val.(*ssa.UnOp); ok {
								v = u.X
							}
						}
					}
				}
				if ia, ok := v.(*ssa.IndexAddr); ok {
					idx := eng.StripConv(ia.Index)
					// range loops index with phi+1 where phi starts at -1
					if bo, ok := idx.(*ssa.BinOp); ok && bo.Op == token.ADD {
						if k, isC := eng.ConstInt(bo.Y); isC && k == 1 {
							if ph, ok := bo.X.(*ssa.Phi); ok {
								for _, e := range ph.Edges {
									if k0, isC := eng.ConstInt(e); isC && k0 == -1 {
										okIdx = true
									}
								}
							}
						}
					}
					if ph, ok := idx.(*ssa.Phi); ok && len(ph.Edges) == 2 {
						zero, inc := false, false
						for _, e := range ph.Edges {
							if k0, isC := eng.ConstInt(e); isC && k0 == 0 {
								zero = true
							}
							if bo, ok := e.(*ssa.BinOp); ok && bo.Op == token.ADD && bo.X == ssa.Value(ph) {
								if k1, isC := eng.ConstInt(bo.Y); isC && k1 == 1 {
									inc = true
								}
							}
						}
						okIdx = zero && inc
					}
				}
				if !okIdx {
					probs = append(probs, "the loop is not a forward range over the listener slice")
				}
			}
			// path-wise: (1) when the listener call runs again, the previous result was nil;
			// (2) every return yields the last listener result, or nil where no listener ran or
			// the last result was nil
			again, dropped, other := false, false, false
			complete := eng.EnumPaths(fn, 5000, func(in ssa.Instruction, pf *eng.PathFacts) bool {
				if in == ssa.Instruction(call) && pf.Executed(call) && pf.NilState(call) != eng.NSNil {
					again = true
				}
				ret, isRet := in.(*ssa.Return)
				if !isRet || eng.IsRecoverBlock(ret.Block()) {
					return false
				}
				rv := pf.Resolve(eng.ReturnResults(ret)[0])
				switch {
				case rv == ssa.Value(call):
				case eng.IsNilConst(rv):
					if pf.Executed(call) && pf.NilState(call) != eng.NSNil {
						dropped = true
					}
				default:
					other = true
				}
				return true
			})
			if !complete {
				probs = append(probs, "path bound exceeded")
			}
			// (1) again, over the loop: the path enumeration takes every edge once and so never
			// reaches the call a second time; search for a way from the call back to itself
			// that does not pass an edge on which its result is nil
			isResult := func(v ssa.Value) bool {
				if v == ssa.Value(call) {
					return true
				}
				for _, a := range eng.ValueAliases(call) {
					if a == v {
						return true
					}
				}
				if ph, ok := v.(*ssa.Phi); ok {
					for _, e := range ph.Edges {
						if e == ssa.Value(call) {
							return true
						}
					}
				}
				return false
			}
			notNilEdge := func(b *ssa.BasicBlock, k int) bool {
				if len(b.Succs) != 2 {
					return true
				}
				rel, ok := eng.EdgeRel(b, k)
				if !ok || rel.Op != token.EQL {
					return true
				}
				x, y := rel.X, rel.Y
				if eng.IsNilConst(x) {
					x, y = y, x
				}
				return !(eng.IsNilConst(y) && isResult(x))
			}
			if (&eng.Search{Target: func(in ssa.Instruction) bool { return in == ssa.Instruction(call) }, Edge: notNilEdge}).After(call) != nil {
				again = true
			}
			if again {
				probs = append(probs, "after a non-nil result another listener can still be called: a later hook overrides the first answer")
			}
			if dropped {
				probs = append(probs, "Emit can return nil although the last listener called answered: the listener result is not tested against nil or its answer is dropped")
			}
			if other {
				probs = append(probs, "on the non-nil edge Emit does not return that listener's result")
			}
		}
		// the list cannot shift under the walk: every element is read with the broker's lock
		// held, unless nothing in the module edits the list's backing array in place
		if len(calls) == 1 {
			if why := c.c17StableList(fn, calls[0]); why != "" {
				probs = append(probs, why)
			}
		}
		if seen[key] && len(probs) == 0 {
			continue
		}
		seen[key] = true
		if len(probs) > 0 {
			r.Bad("C17/FIRST", key, p.Pos(fn.Pos()), "%s", strings.Join(probs, "; "))
		} else {
			r.Ok("C17/FIRST", key, p.Pos(fn.Pos()), "first non-nil listener result wins; remaining listeners are not called; nil otherwise")
		}
	}
	r.Floor("C17/FIRST", "instantiations of EventBroker.Emit", n, 1)
}

// c17StableList: in Emit, the element of the listener slice that is called is read while the
// broker's lock is held (acquired on every path to the read, not released by an explicit call
// before it), or no function edits that slice's backing array in place. Returns "" or the reason.
func (c *Ctx) c17StableList(fn *ssa.Function, call *ssa.Call) string {
	p := c.P
	// the element access
	var ia *ssa.IndexAddr
	v := call.Call.Value
	for i := 0; i < 6 && ia == nil; i++ {
		switch x := v.(type) {
		case *ssa.UnOp:
			v = x.X
		case *ssa.FieldAddr:
			v = x.X
		case *ssa.Field:
			v = x.X
		case *ssa.Alloc:
			found := false
			if x.Referrers() != nil {
				for _, ref := range *x.Referrers() {
					if st, ok := ref.(*ssa.Store); ok && st.Addr == ssa.Value(x) {
						v, found = st.Val, true
					}
				}
			}
			if !found {
				return ""
			}
		case *ssa.IndexAddr:
			ia = x
		default:
			return ""
		}
	}
	if ia == nil {
		return ""
	}
	f := eng.LoadedField(ia.X)
	if f == nil {
		return ""
	}
	lockName := func(in ssa.Instruction, names ...string) bool {
		ci, ok := in.(*ssa.Call)
		if !ok {
			return false
		}
		n := eng.CalleeName(ci.Common())
		for _, w := range names {
			if n == w {
				return true
			}
		}
		return false
	}
	isAcquire := func(in ssa.Instruction) bool {
		return lockName(in, "(*sync.RWMutex).RLock", "(*sync.RWMutex).Lock", "(*sync.Mutex).Lock")
	}
	isRelease := func(in ssa.Instruction) bool {
		return lockName(in, "(*sync.RWMutex).RUnlock", "(*sync.RWMutex).Unlock", "(*sync.Mutex).Unlock")
	}
	atAccess := func(in ssa.Instruction) bool { return in == ssa.Instruction(ia) }
	held := (&eng.Search{Target: atAccess, Avoid: isAcquire}).FromEntry(fn) == nil
	eng.EachInstr(fn, func(in ssa.Instruction) {
		if in.Parent() == fn && isRelease(in) && (&eng.Search{Target: atAccess, Avoid: isAcquire}).After(in) != nil {
			held = false
		}
	})
	if held {
		return ""
	}
	// in-place editors of the same field: append(load(f)[:i], …) or a store through load(f)[i];
	// the list may reach the editor as a parameter (withoutListener(eb.listenerNames, eb.listenerFuncs, name))
	var isList func(v ssa.Value, depth int) bool
	isList = func(v ssa.Value, depth int) bool {
		if depth > 3 {
			return false
		}
		if eng.SameField(eng.LoadedField(v), f) {
			return true
		}
		if prm, ok := v.(*ssa.Parameter); ok {
			vals, known := p.ActualsOf(prm)
			if !known {
				return false
			}
			for _, a := range vals {
				if isList(a, depth+1) {
					return true
				}
			}
		}
		return false
	}
	var editors []string
	for _, g := range p.Funcs {
		g := g
		eng.EachInstr(g, func(in ssa.Instruction) {
			switch x := in.(type) {
			case *ssa.Call:
				if eng.CalleeName(x.Common()) == "builtin.append" && len(x.Call.Args) > 0 {
					if sl, ok := x.Call.Args[0].(*ssa.Slice); ok && isList(sl.X, 0) {
						editors = append(editors, p.InstrPos(in))
					}
				}
			case *ssa.Store:
				if ia2, ok := x.Addr.(*ssa.IndexAddr); ok && isList(ia2.X, 0) {
					editors = append(editors, p.InstrPos(in))
				}
			}
		})
	}
	if len(editors) == 0 {
		return ""
	}
	sort.Strings(editors)
	editors = dedupStrings(editors)
	return "the listeners are called from a list read without the broker's lock held (the lock is released, or never taken, before the element at " + p.InstrPos(ia) + " is read) while " + strings.Join(editors, ", ") + " edits that list's backing array in place: a listener removed or re-registered during an Emit shifts the later hooks under the walk, so a hook is skipped and a later one answers in its place"
}

func (c *Ctx) c17Map() {
	r, p := c.R, c.P
	m := c.smtp()
	if !m.ok {
		return
	}
	if _, ok := c.actionConst("ActionDefer"); !ok {
		r.Fatal("UNRESOLVED anchor=event.Action constants")
		return
	}
	if _, ok := c.actionConst("ActionDeny"); !ok {
		r.Fatal("UNRESOLVED anchor=event.Action constants")
		return
	}
	fCode := p.Field("pkg/extension/event", "SMTPResponse", "ErrorCode")
	fMsg := p.Field("pkg/extension/event", "SMTPResponse", "ErrorMsg")
	recipAccept := p.Method("pkg/policy", "Recipient", "ShouldAccept")
	originAccept := p.Method("pkg/policy", "Origin", "ShouldAccept")
	if fCode == nil || fMsg == nil || recipAccept == nil || originAccept == nil {
		return
	}
	isPolicy := func(in ssa.Instruction) bool {
		call, ok := in.(*ssa.Call)
		if !ok {
			return false
		}
		g := eng.StaticCallee(call.Common())
		return g == recipAccept || g == originAccept
	}
	accepts := func(in ssa.Instruction) bool {
		if st, ok := in.(*ssa.Store); ok {
			if fa, ok := st.Addr.(*ssa.FieldAddr); ok && eng.SameField(eng.FieldOfAddr(fa), m.fRecips) {
				return true
			}
		}
		return m.entersState("MAIL")(in)
	}
	changes := func(in ssa.Instruction) bool {
		if _, _, isCall := m.stateArg(in); isCall {
			return true
		}
		if st, ok := in.(*ssa.Store); ok {
			if fa, ok := st.Addr.(*ssa.FieldAddr); ok {
				f := eng.FieldOfAddr(fa)
				return eng.SameField(f, m.fRecips) || eng.SameField(f, m.fFrom)
			}
		}
		return false
	}
	n := 0
	for _, fn := range m.fns {
		fn := fn
		for _, emit := range hookEmits(fn) {
			n++
			he := c.newHookEval(fn, emit)
			cons := "hook-mapping@" + shortFn(fn)
			var probs []string
			// sendWith: in is a reply whose text is built from ErrorCode and ErrorMsg of a value in res
			sendWith := func(in ssa.Instruction, res func(ssa.Value) bool) bool {
				if !m.isSend(in) {
					return false
				}
				call := in.(*ssa.Call)
				hasCode, hasMsg := false, false
				for _, a := range sprintfArgs(call.Call.Args[len(call.Call.Args)-1]) {
					u, ok := unwrapIface(a).(*ssa.UnOp)
					if !ok {
						continue
					}
					fa, ok := u.X.(*ssa.FieldAddr)
					if !ok || !res(fa.X) {
						continue
					}
					f := eng.FieldOfAddr(fa)
					if eng.SameField(f, fCode) {
						hasCode = true
					}
					if eng.SameField(f, fMsg) {
						hasMsg = true
					}
				}
				return hasCode && hasMsg
			}
			usesHook := func(in ssa.Instruction) bool {
				if sendWith(in, func(v ssa.Value) bool { return he.res[v] }) {
					return true
				}
				// a helper of the package that receives the hook result and, on every path
				// through it, sends the reply built from that parameter
				call, ok := in.(*ssa.Call)
				if !ok {
					return false
				}
				g := eng.StaticCallee(call.Common())
				if g == nil || g == m.send || len(g.Blocks) == 0 || eng.FuncPkgPath(g) != eng.Mod+"/"+smtpRel {
					return false
				}
				for i, a := range call.Call.Args {
					if !he.res[a] || i >= len(g.Params) {
						continue
					}
					prm := g.Params[i]
					relay := func(x ssa.Instruction) bool {
						return sendWith(x, func(v ssa.Value) bool { return v == ssa.Value(prm) })
					}
					if (&eng.Search{Target: eng.IsReturnOf(g), Avoid: relay}).FromEntry(g) == nil {
						return true
					}
					// … or on every path the Deny case can take through it
					sub := c.newHookEvalParam(g, prm)
					if (&eng.Search{Target: eng.IsReturnOf(g), Avoid: relay, Edge: sub.feasible(hcDeny)}).FromEntry(g) == nil {
						return true
					}
				}
				return false
			}
			// Deny: refused with the hook's code and text, nothing accepted or changed
			fd := he.feasible(hcDeny)
			if hit := (&eng.Search{Target: accepts, Edge: fd, DeepHit: true}).After(emit); hit != nil {
				probs = append(probs, "with a Deny answer the accepting step at "+p.InstrPos(hit)+" is still reachable: a hook's deny is ignored")
			} else if hit := (&eng.Search{Target: changes, Edge: fd}).After(emit); hit != nil {
				probs = append(probs, "with a Deny answer the session state or envelope is changed at "+p.InstrPos(hit))
			}
			if ret := (&eng.Search{Target: eng.IsReturnOf(fn), Avoid: usesHook, Edge: fd}).After(emit); ret != nil {
				probs = append(probs, "with a Deny answer the handler can return at "+p.InstrPos(ret)+" without a reply built from the hook's ErrorCode and ErrorMsg")
			}
			// Allow: accepted without consulting the domain policy
			if (&eng.Search{Target: accepts, Avoid: isPolicy, Edge: he.feasible(hcAllow), Deep: true, DeepHit: true}).After(emit) == nil {
				probs = append(probs, "with an Allow answer the accepting step is not reachable without the domain-policy call: Allow cannot override policy")
			}
			// Defer / no answer: the domain policy decides
			for _, hc := range []hookCase{hcDefer, hcNil} {
				if hit := (&eng.Search{Target: accepts, Avoid: isPolicy, Edge: he.feasible(hc), Deep: true, DeepHit: true}).After(emit); hit != nil {
					probs = append(probs, "with "+hc.String()+" from the hook the accepting step at "+p.InstrPos(hit)+" is reachable without the domain-policy call: the answer is treated like Allow instead of falling back to policy")
				}
			}
			sort.Strings(probs)
			if len(probs) > 0 {
				r.Bad("C17/MAP", cons, p.InstrPos(emit), "%s", strings.Join(probs, "; "))
			} else {
				r.Ok("C17/MAP", cons, p.InstrPos(emit), "case analysis over the hook's answer (none / Defer / Allow / Deny): Deny → hook's code and text, nothing accepted; Allow → accepted without policy; Defer or none → policy decides")
			}
		}
	}
	r.Floor("C17/MAP", "handlers mapping a hook result", n, 1)
}

func (c *Ctx) c17Replace() {
	r, p := c.R, c.P
	deliver := p.Method("pkg/message", "StoreManager", "Deliver")
	shouldStore := p.Method("pkg/policy", "Recipient", "ShouldStore")
	if deliver == nil || shouldStore == nil {
		return
	}
	n, bad := 0, ""
	underNilEdge := func(at ssa.Instruction) bool {
		fn := at.Parent()
		for _, b := range fn.Blocks {
			for k := 0; k < len(b.Succs) && len(b.Succs) == 2; k++ {
				rel, ok := eng.EdgeRel(b, k)
				if !ok || rel.Op != token.EQL || !eng.IsNilConst(rel.Y) {
					continue
				}
				if ec, ok := rel.X.(*ssa.Call); ok && strings.HasSuffix(eng.CalleeName(ec.Common()), "Emit") && eng.EdgeDominates(b, k, at.Block()) {
					return true
				}
			}
		}
		return false
	}
	// reachableUnder: the instruction is reachable from its function's entry when boolean
	// parameters are fixed to the constants the call site passes
	reachableUnder := func(at ssa.Instruction, call ssa.CallInstruction) bool {
		fn := at.Parent()
		args := call.Common().Args
		edgeOK := func(b *ssa.BasicBlock, k int) bool {
			cv, pol, ok := eng.CondTruth(b, k)
			if !ok {
				return true
			}
			if i := eng.ParamIndex(cv); i >= 0 && i < len(args) {
				if bv, isC := eng.ConstBool(args[i]); isC && bv != pol {
					return false
				}
			}
			return true
		}
		return (&eng.Search{Target: func(in ssa.Instruction) bool { return in == at }, Edge: edgeOK}).FromEntry(fn) != nil
	}
	for g := range p.SyncReach(deliver) {
		if eng.FuncPkgPath(g) != eng.Mod+"/pkg/message" {
			continue
		}
		g := g
		eng.EachInstr(g, func(in ssa.Instruction) {
			call, ok := in.(*ssa.Call)
			if !ok || eng.StaticCallee(call.Common()) != shouldStore {
				return
			}
			n++
			if underNilEdge(in) {
				return // guarded where it stands (in Deliver or in a helper that emits itself)
			}
			if g == deliver || g.Parent() != nil {
				bad = p.InstrPos(call)
				return
			}
			// in a helper: every call site must be under the nil edge, or pass constants that
			// make the ShouldStore call unreachable
			for _, cs := range p.StaticCallSites(g) {
				site := cs.Instr.(ssa.Instruction)
				if underNilEdge(site) {
					continue
				}
				if !reachableUnder(in, cs.Instr) {
					continue
				}
				bad = p.InstrPos(call) + " (via " + p.InstrPos(site) + ")"
			}
		})
	}
	r.Floor("C17/REPLACE", "ShouldStore calls in Deliver", n, 1)
	r.Check(bad == "", "C17/REPLACE", "policy-only-without-hook", p.Pos(deliver.Pos()), "ShouldStore is consulted only where BeforeMessageStored returned nil", "Recipient.ShouldStore is consulted at "+bad+" even when the hook answered: the hook's mailbox list is filtered by policy")
}

func (c *Ctx) c17Lua() {
	r, p := c.R, c.P
	fns := pkgFuncs(p, luaRel)
	n := 0
	for _, fn := range fns {
		fn := fn
		eng.EachInstr(fn, func(in ssa.Instruction) {
			call, ok := in.(*ssa.Call)
			if !ok || eng.CalleeName(call.Common()) != "(*github.com/yuin/gopher-lua.LState).CallByParam" {
				return
			}
			n++
			cons := "CallByParam@" + shortFn(fn)
			// args[1] = load of a local lua.P whose Protect field is stored true, or a parameter
			// of a calling helper for which every caller passes such a value
			var protectOf func(v ssa.Value, depth int) bool
			protectOf = func(v ssa.Value, depth int) bool {
				if depth > 3 {
					return false
				}
				switch x := v.(type) {
				case *ssa.UnOp:
					al, ok := x.X.(*ssa.Alloc)
					if !ok || al.Referrers() == nil {
						return false
					}
					for _, ref := range *al.Referrers() {
						if fa, ok := ref.(*ssa.FieldAddr); ok && eng.FieldOfAddr(fa).Name() == "Protect" {
							for _, r2 := range *fa.Referrers() {
								if st, ok := r2.(*ssa.Store); ok {
									if b, isC := eng.ConstBool(st.Val); isC && b {
										return true
									}
								}
							}
						}
					}
				case *ssa.Parameter:
					g := x.Parent()
					pi := eng.ParamIndex(x)
					sites := p.StaticCallSites(g)
					if len(sites) == 0 || pi < 0 || g.Parent() != nil {
						return false
					}
					for _, cs := range sites {
						if pi >= len(cs.Args) || !protectOf(cs.Args[pi], depth+1) {
							return false
						}
					}
					return true
				}
				return false
			}
			prot := protectOf(call.Call.Args[1], 0)
			if !prot {
				r.Bad("C17/LUA/protect", cons, p.InstrPos(in), "CallByParam without Protect: true: a Lua error() panics the Go caller — in a before-hook that is the SMTP session goroutine, which has no recover, so a broken script kills the server and loses the mail")
				return
			}
			// error edge returns nil (for handlers with a result); a helper that reports the
			// failure as `false` is followed to its callers
			if fn.Signature.Results().Len() == 1 && isErrorType(fn.Signature.Results().At(0).Type()) {
				// a calling helper that hands the Lua error on: the handlers that call it must
				// answer nil on its error edge
				for _, cs := range p.StaticCallSites(fn) {
					hc, ok := cs.Instr.(*ssa.Call)
					if !ok {
						continue
					}
					C := hc.Parent()
					if C.Signature.Results().Len() != 1 || isErrorType(C.Signature.Results().At(0).Type()) {
						continue
					}
					var edges []*ssa.BasicBlock
					for _, b := range C.Blocks {
						for k := 0; k < len(b.Succs) && len(b.Succs) == 2; k++ {
							rel, ok := eng.EdgeRel(b, k)
							if !ok || rel.Op != token.NEQ || !eng.IsNilConst(rel.Y) {
								continue
							}
							same := rel.X == ssa.Value(hc)
							for _, a := range eng.ValueAliases(hc) {
								if rel.X == a {
									same = true
								}
							}
							if same {
								edges = append(edges, b.Succs[k])
							}
						}
					}
					if bad := c.luaFailureYieldsNil(C, edges, 0); bad != "" {
						r.Bad("C17/LUA/protect", cons, p.InstrPos(hc), "on a Lua error (reported by %s) the handler %s returns a non-nil answer at %s instead of behaving as if it had not answered", shortFn(fn), shortFn(C), bad)
						return
					}
				}
			} else if fn.Signature.Results().Len() == 1 {
				isErrV := func(v ssa.Value) bool {
					for _, a := range append(eng.ValueAliases(call), ssa.Value(call)) {
						if v == a {
							return true
						}
					}
					return false
				}
				var errEdges []*ssa.BasicBlock
				for _, b := range fn.Blocks {
					for k := 0; k < len(b.Succs) && len(b.Succs) == 2; k++ {
						rel, ok := eng.EdgeRel(b, k)
						if ok && rel.Op == token.NEQ && eng.IsNilConst(rel.Y) && isErrV(rel.X) {
							errEdges = append(errEdges, b.Succs[k])
						}
					}
				}
				if bad := c.luaFailureYieldsNil(fn, errEdges, 0); bad != "" {
					r.Bad("C17/LUA/protect", cons, p.InstrPos(in), "on a Lua error the handler returns a non-nil answer at %s instead of behaving as if it had not answered", bad)
					return
				}
			}
			r.Ok("C17/LUA/protect", cons, p.InstrPos(in), "Protect: true; the error edge returns nil")
		})
	}
	r.Floor("C17/LUA/protect", "CallByParam sites", n, 1)
	// a pooled Lua state goes back to the pool as it came out: per-call settings made on it
	// (a context, …) are undone on every path, or the next hook that draws the state inherits
	// them — a cancelled context makes every later before-hook on that state fail, i.e. answer
	// nothing: deny stops refusing, allow stops overriding, replacements are dropped
	r.Rule("C17/LUA/state-restored", "every (*LState).SetContext in the Lua host is followed on every path to the function's return by RemoveContext on that state (directly or deferred)")
	nCtx := 0
	ordC := map[string]int{}
	for _, fn := range fns {
		fn := fn
		eng.EachInstr(fn, func(in ssa.Instruction) {
			call, ok := in.(*ssa.Call)
			if !ok || eng.CalleeName(call.Common()) != "(*github.com/yuin/gopher-lua.LState).SetContext" {
				return
			}
			nCtx++
			cons := siteCons(p, in, ordC, "SetContext")
			recv := call.Call.Args[0]
			isRemove := eng.CallPred(func(cc *ssa.CallCommon) bool {
				return eng.CalleeName(cc) == "(*github.com/yuin/gopher-lua.LState).RemoveContext" && len(cc.Args) > 0 && (cc.Args[0] == recv || resolveCell(cc.Args[0]) == resolveCell(recv))
			})
			if ret := (&eng.Search{Target: eng.IsReturnOf(fn), Avoid: isRemove}).After(in); ret != nil {
				r.Bad("C17/LUA/state-restored", cons, p.InstrPos(ret), "the function can return at %s with the context still set on the Lua state (e.g. on the error path of the call): the state goes back to the pool carrying a context that is cancelled when the function returns, and every later hook that draws it fails as if it had not answered", p.InstrPos(ret))
			} else {
				r.Ok("C17/LUA/state-restored", cons, p.InstrPos(in), "RemoveContext on every path to return")
			}
		})
	}
	r.Count("SetContext sites in the Lua host", nCtx)
	// what was read out of one Lua state stays with that state: the handler table (and the Lua
	// functions in it) obtained from a pooled state must not be kept anywhere that outlives the
	// call — another session would run the first state's closures, sharing its globals and
	// upvalues with every concurrent session
	r.Rule("C17/LUA/state-bound", "a value obtained from an *LState by a function of the Lua host (the handler table from getInbucket) is not stored in a package variable, in a field of a long-lived object (Host, statePool) or in a sync/atomic container")
	{
		isLState := func(t types.Type) bool {
			pt, ok := t.(*types.Pointer)
			if !ok {
				return false
			}
			n, ok := pt.Elem().(*types.Named)
			return ok && n.Obj().Name() == "LState" && n.Obj().Pkg() != nil && strings.HasSuffix(n.Obj().Pkg().Path(), "gopher-lua")
		}
		// producers: functions of the package with an *LState parameter that return a pointer to
		// a package type (the table of handlers) taken from that state
		var sources []ssa.Value
		for _, fn := range fns {
			fn := fn
			eng.EachInstr(fn, func(in ssa.Instruction) {
				call, ok := in.(*ssa.Call)
				if !ok {
					return
				}
				g := eng.StaticCallee(call.Common())
				if g == nil || eng.FuncPkgPath(g) != eng.Mod+"/"+luaRel || g.Signature.Results().Len() == 0 {
					return
				}
				takes := false
				for _, prm := range g.Params {
					if isLState(prm.Type()) {
						takes = true
					}
				}
				rt, isPtr := g.Signature.Results().At(0).Type().(*types.Pointer)
				if !takes || !isPtr {
					return
				}
				if n, ok := rt.Elem().(*types.Named); !ok || n.Obj().Pkg() == nil || n.Obj().Pkg().Path() != eng.Mod+"/"+luaRel || n.Obj().Name() != "Inbucket" {
					return
				}
				if g.Signature.Results().Len() == 1 {
					sources = append(sources, call)
				} else if e := extractOf(call, 0); e != nil {
					sources = append(sources, e)
				}
			})
		}
		tainted := map[ssa.Value]bool{}
		work := append([]ssa.Value(nil), sources...)
		for _, v := range work {
			tainted[v] = true
		}
		var probs []string
		longLived := func(addr ssa.Value) string {
			for i := 0; i < 6; i++ {
				switch x := addr.(type) {
				case *ssa.Global:
					return "package variable " + x.Name()
				case *ssa.FieldAddr:
					if _, fresh := x.X.(*ssa.Alloc); fresh {
						return ""
					}
					if pt, ok := x.X.Type().(*types.Pointer); ok {
						if n, ok := pt.Elem().(*types.Named); ok && n.Obj().Pkg() != nil && n.Obj().Pkg().Path() == eng.Mod+"/"+luaRel {
							switch n.Obj().Name() {
							case "Host", "statePool":
								return "field " + eng.FieldOfAddr(x).Name() + " of " + n.Obj().Name()
							}
						}
					}
					addr = x.X
					continue
				case *ssa.UnOp:
					addr = x.X
					continue
				}
				break
			}
			return ""
		}
		for len(work) > 0 {
			v := work[len(work)-1]
			work = work[:len(work)-1]
			if v.Referrers() == nil {
				continue
			}
			add := func(nv ssa.Value) {
				if !tainted[nv] {
					tainted[nv] = true
					work = append(work, nv)
				}
			}
			for _, ref := range *v.Referrers() {
				switch x := ref.(type) {
				case *ssa.Phi, *ssa.Extract, *ssa.ChangeInterface, *ssa.MakeInterface:
					add(ref.(ssa.Value))
				case *ssa.Return:
					for i, rv := range x.Results {
						if rv != v {
							continue
						}
						for _, cs := range p.StaticCallSites(x.Parent()) {
							cv, ok := cs.Instr.(*ssa.Call)
							if !ok {
								continue
							}
							if len(x.Results) == 1 {
								add(cv)
							} else if e := extractOf(cv, i); e != nil {
								add(e)
							}
						}
					}
				case *ssa.Store:
					if x.Val == v {
						if where := longLived(x.Addr); where != "" {
							probs = append(probs, "stored in "+where+" at "+p.InstrPos(x))
						}
					}
				case *ssa.Call:
					name := eng.CalleeName(x.Common())
					if strings.Contains(name, "sync/atomic.") || strings.Contains(name, "sync.Map)") || strings.Contains(name, "sync.Pool)") {
						for _, a := range x.Call.Args[1:] {
							if a == v {
								where := longLived(x.Call.Args[0])
								if where == "" {
									where = "a " + name + " container"
								}
								probs = append(probs, "kept in "+where+" at "+p.InstrPos(x))
							}
						}
					}
				}
			}
		}
		sort.Strings(probs)
		if len(probs) > 0 {
			r.Bad("C17/LUA/state-bound", "handler-table", "", "the handler table read from one pooled Lua state is %s: later calls on other states run this state's functions, so script-level variables are shared, unsynchronised, between concurrent sessions (one session's hook sees or overwrites another's data)", strings.Join(probs, "; "))
		} else {
			r.Ok("C17/LUA/state-bound", "handler-table", "", "%d reads of the handler table from a Lua state; none is kept beyond the call", len(sources))
		}
		r.Floor("C17/LUA/state-bound", "reads of the handler table from a Lua state", len(sources), 1)
	}
	// unwrap helpers
	sm := c.stores()
	if !sm.ok {
		return
	}
	nU := 0
	for _, fn := range fns {
		if fn.Parent() != nil || !strings.HasPrefix(fn.Name(), "unwrap") || fn.Signature.Results().Len() != 2 {
			continue
		}
		if !types.Identical(fn.Signature.Results().At(1).Type(), types.Universe.Lookup("error").Type()) {
			continue // (value, ok bool) helpers
		}
		nU++
		var bad []string
		for _, t := range sm.an.TuplesOf(fn) {
			if len(t.S) == 2 && t.S[1]&eng.NSNon != 0 && t.S[1] == eng.NSNon && t.S[0]&eng.NSNon != 0 {
				bad = append(bad, tupleStr(t, p))
			}
		}
		cons := "luahost." + fn.Name()
		if len(bad) > 0 {
			r.Bad("C17/LUA/protect", cons, p.Pos(fn.Pos()), "can return a non-nil value together with an error (%s): the handler logs the error but still uses the value", strings.Join(bad, "; "))
		} else {
			r.Ok("C17/LUA/protect", cons, p.Pos(fn.Pos()), "an error is always accompanied by a nil value")
		}
	}
	r.Floor("C17/LUA/protect", "unwrap helpers", nU, 1)
}

func (c *Ctx) c17Pool() {
	r, p := c.R, c.P
	fStates := p.Field(luaRel, "statePool", "states")
	fChans := p.Field(luaRel, "statePool", "channels")
	fMu := p.Field(luaRel, "statePool", "Mutex")
	getState := p.Method(luaRel, "statePool", "getState")
	putState := p.Method(luaRel, "statePool", "putState")
	newPool := p.Func(luaRel, "newStatePool")
	if fStates == nil || fChans == nil || fMu == nil || getState == nil || putState == nil {
		return
	}
	ops := opsFor(fMu)
	fns := pkgFuncs(p, luaRel)
	// (a) guarded-by, with "lock must be held" helpers resolved through their callers
	nAcc := 0
	var heldAtAllCalls func(fn *ssa.Function, depth int) bool
	heldAtAllCalls = func(fn *ssa.Function, depth int) bool {
		if depth > 3 {
			return false
		}
		callers := p.CallersOf(fn)
		if len(callers) == 0 {
			return false
		}
		for _, e := range callers {
			C := e.Caller.Func
			site := e.Site.(ssa.Instruction)
			if alwaysHeld(C, site, ops, ops.isAcq) {
				continue
			}
			if !heldAtAllCalls(C, depth+1) {
				return false
			}
		}
		return true
	}
	for _, fn := range fns {
		fn := fn
		if fn == newPool {
			continue
		}
		eng.EachInstr(fn, func(in ssa.Instruction) {
			fa, ok := in.(*ssa.FieldAddr)
			if !ok {
				return
			}
			f := eng.FieldOfAddr(fa)
			if !eng.SameField(f, fStates) && !eng.SameField(f, fChans) {
				return
			}
			if _, fresh := fa.X.(*ssa.Alloc); fresh {
				return
			}
			nAcc++
			cons := "statePool." + f.Name() + "@" + shortFn(fn)
			if alwaysHeld(fn, in, ops, ops.isAcq) || heldAtAllCalls(fn, 0) {
				r.Ok("C17/POOL", cons, p.InstrPos(in), "accessed with the pool mutex held")
			} else {
				r.Bad("C17/POOL", cons, p.InstrPos(in), "statePool.%s is accessed without the pool mutex: two sessions can pop the same Lua state", f.Name())
			}
		})
	}
	r.Floor("C17/POOL", "accesses of statePool.states/channels", nAcc, 1)
	// (b) the function that pops a state (getState itself, or a helper whose result getState
	// returns): the shrink store dominates the return of the popped element
	var shrink *ssa.Store
	var popFn *ssa.Function
	for _, s := range eng.StoresToField(fns, fStates) {
		if sl, ok := s.Store.Val.(*ssa.Slice); ok && eng.SameField(eng.LoadedField(sl.X), fStates) {
			if _, isC := eng.ConstInt(sl.High); isC {
				continue // states[:0] flush, not a pop
			}
			if s.Fn == getState || reachesSync(getState, s.Fn) {
				shrink, popFn = s.Store, s.Fn
			}
		}
	}
	okB := false
	why := "getState does not store a shrunk pool slice"
	if shrink != nil {
		sl := shrink.Val.(*ssa.Slice)
		okB = true
		why = ""
		found := false
		eng.EachInstr(popFn, func(in ssa.Instruction) {
			ret, ok := in.(*ssa.Return)
			if !ok || eng.IsRecoverBlock(ret.Block()) {
				return
			}
			res := eng.ReturnResults(ret)
			u, ok := res[0].(*ssa.UnOp)
			if !ok {
				return
			}
			ia, ok := u.X.(*ssa.IndexAddr)
			if !ok || !eng.SameField(eng.LoadedField(ia.X), fStates) {
				return
			}
			found = true
			// popped index must equal the new length (High of the slice)
			if !sameIndex(ia.Index, sl.High) {
				okB, why = false, "the element returned is not the one cut off by the shrink (index differs from the new length)"
			}
			if !eng.Dominates(shrink, ret) {
				okB, why = false, "the pool is not shrunk before the popped state is returned: the next caller receives the same state"
			}
		})
		if !found {
			okB, why = false, "the function that shrinks the pool does not return the cut-off element"
		}
		if popFn != getState {
			// getState must hand out that helper's result
			hands := false
			for _, ret := range successReturns(getState) {
				if call, _ := eng.CallAndIndex(eng.ReturnResults(ret)[0]); call != nil && eng.StaticCallee(call.Common()) == popFn {
					hands = true
				}
			}
			if !hands {
				okB, why = false, "getState does not return the state popped by "+shortFn(popFn)
			}
		}
	}
	r.Check(okB, "C17/POOL", "getState-pop", p.Pos(getState.Pos()), "states[ln-1] is returned after states = states[:ln-1]", why)
	// (c) users: every call of getState (through prepare helper) is paired with a deferred putState
	nUsers := 0
	for _, fn := range fns {
		fn := fn
		if fn == getState || fn == putState {
			continue
		}
		var obtain *ssa.Call
		eng.EachInstr(fn, func(in ssa.Instruction) {
			call, ok := in.(*ssa.Call)
			if !ok {
				return
			}
			g := eng.StaticCallee(call.Common())
			if g == nil || eng.FuncPkgPath(g) != eng.Mod+"/"+luaRel {
				return
			}
			if g == getState || (reachesSync(g, getState) && returnsState(g)) {
				obtain = call
			}
		})
		if obtain == nil || returnsState(fn) {
			continue // helpers that hand the state to their caller are checked at the caller
		}
		nUsers++
		cons := "state-user@" + shortFn(fn)
		var puts []ssa.Instruction
		eng.EachInstr(fn, func(in ssa.Instruction) {
			if cc := eng.CallOf(in); cc != nil {
				g := eng.StaticCallee(cc)
				// putState itself, or a release helper of the package that only gives back
				if g == putState || g != nil && g != fn && eng.FuncPkgPath(g) == eng.Mod+"/"+luaRel && reachesSync(g, putState) && !reachesSync(g, getState) {
					puts = append(puts, in)
				}
			}
		})
		switch {
		case len(puts) == 0:
			r.Bad("C17/POOL", cons, p.InstrPos(obtain), "a Lua state is obtained but never returned with putState")
		case len(puts) > 1:
			r.Bad("C17/POOL", cons, p.InstrPos(obtain), "putState is called %d times: the same state can be handed to two sessions", len(puts))
		default:
			if _, isDefer := puts[0].(*ssa.Defer); !isDefer {
				// a plain call: no use of the state may follow it
				stateV := extractOf(obtain, 0)
				uses := map[ssa.Instruction]bool{}
				for _, v := range eng.ValueAliases(stateV) {
					if v.Referrers() != nil {
						for _, ref := range *v.Referrers() {
							uses[ref] = true
						}
					}
				}
				later := (&eng.Search{Target: func(in ssa.Instruction) bool { return uses[in] && in != puts[0] }}).After(puts[0])
				if later != nil {
					r.Bad("C17/POOL", cons, p.InstrPos(puts[0]), "the state is used at %s after putState returned it to the pool: it races with the next owner", p.InstrPos(later))
				} else {
					r.Ok("C17/POOL", cons, p.InstrPos(puts[0]), "putState is the last use of the state")
				}
			} else if !eng.Dominates(obtain, puts[0]) {
				r.Bad("C17/POOL", cons, p.InstrPos(puts[0]), "putState is deferred before the state was obtained")
			} else {
				r.Ok("C17/POOL", cons, p.InstrPos(puts[0]), "state obtained, putState deferred exactly once")
			}
		}
	}
	r.Floor("C17/POOL", "functions using a pooled state", nUsers, 1)
}

// returnsState: fn returns a *lua.LState among its results.
func returnsState(fn *ssa.Function) bool {
	res := fn.Signature.Results()
	for i := 0; i < res.Len(); i++ {
		if carriesState(res.At(i).Type(), 0) {
			return true
		}
	}
	return false
}

// carriesState: t is *lua.LState or a (pointer to a) module struct with such a field.
func carriesState(t types.Type, depth int) bool {
	if depth > 2 {
		return false
	}
	if strings.HasSuffix(t.String(), "gopher-lua.LState") {
		return true
	}
	if pt, ok := t.(*types.Pointer); ok {
		t = pt.Elem()
	}
	n, ok := t.(*types.Named)
	if !ok || n.Obj().Pkg() == nil || !strings.HasPrefix(n.Obj().Pkg().Path(), eng.Mod) {
		return false
	}
	st, ok := n.Underlying().(*types.Struct)
	if !ok {
		return false
	}
	for i := 0; i < st.NumFields(); i++ {
		if strings.HasSuffix(st.Field(i).Type().String(), "gopher-lua.LState") {
			return true
		}
	}
	return false
}

// c17Fresh: objects a Lua-callable constructor returns must be per-call allocations.
func (c *Ctx) c17Fresh() {
	r, p := c.R, c.P
	fns := pkgFuncs(p, luaRel)
	// wrappers: luahost functions storing a parameter into LUserData.Value
	isUDValue := func(addr ssa.Value) bool {
		fa, ok := addr.(*ssa.FieldAddr)
		if !ok {
			return false
		}
		f := eng.FieldOfAddr(fa)
		if f == nil || f.Name() != "Value" {
			return false
		}
		t := fa.X.Type()
		if pt, ok := t.Underlying().(*types.Pointer); ok {
			t = pt.Elem()
		}
		n, ok := t.(*types.Named)
		return ok && n.Obj().Name() == "LUserData"
	}
	unwrapMI := func(v ssa.Value) ssa.Value {
		for {
			switch x := v.(type) {
			case *ssa.MakeInterface:
				v = x.X
				continue
			case *ssa.ChangeInterface:
				v = x.X
				continue
			}
			return v
		}
	}
	wrapperParam := map[*ssa.Function]int{}
	for _, fn := range fns {
		fn := fn
		eng.EachInstr(fn, func(in ssa.Instruction) {
			st, ok := in.(*ssa.Store)
			if !ok || !isUDValue(st.Addr) {
				return
			}
			if i := eng.ParamIndex(unwrapMI(st.Val)); i >= 0 {
				wrapperParam[fn] = i
			}
		})
	}
	// shared: v derives (through loads, phis, address-of-field) from a free variable or a global
	var shared func(v ssa.Value, fn *ssa.Function, depth int) string
	shared = func(v ssa.Value, fn *ssa.Function, depth int) string {
		if depth > 8 {
			return ""
		}
		switch x := v.(type) {
		case *ssa.FreeVar:
			return "captured variable " + x.Name()
		case *ssa.Global:
			return "package variable " + x.Name()
		case *ssa.UnOp:
			return shared(x.X, fn, depth+1)
		case *ssa.FieldAddr:
			return shared(x.X, fn, depth+1)
		case *ssa.IndexAddr:
			return shared(x.X, fn, depth+1)
		case *ssa.Phi:
			for _, e := range x.Edges {
				if w := shared(e, fn, depth+1); w != "" {
					return w
				}
			}
		case *ssa.MakeInterface:
			return shared(x.X, fn, depth+1)
		case *ssa.Alloc:
			if x.Parent() != fn {
				return "variable of " + shortFn(x.Parent())
			}
			// a local cell: look at what is stored into it
			if cell := eng.CellOf(x); cell != nil {
				for _, st := range eng.CellStores(cell) {
					if _, isPtr := st.Val.Type().Underlying().(*types.Pointer); isPtr {
						if w := shared(st.Val, fn, depth+1); w != "" {
							return w
						}
					}
				}
			}
		}
		return ""
	}
	n := 0
	ord := map[string]int{}
	for _, fn := range fns {
		fn := fn
		sig := fn.Signature
		if sig.Params().Len() != 1 || sig.Results().Len() != 1 {
			continue
		}
		if pt, ok := sig.Params().At(0).Type().(*types.Pointer); !ok || !strings.HasSuffix(pt.Elem().String(), "gopher-lua.LState") {
			continue
		}
		if b, ok := sig.Results().At(0).Type().Underlying().(*types.Basic); !ok || b.Kind() != types.Int {
			continue
		}
		eng.EachInstr(fn, func(in ssa.Instruction) {
			var val ssa.Value
			switch x := in.(type) {
			case *ssa.Store:
				if isUDValue(x.Addr) {
					val = unwrapMI(x.Val)
				}
			case *ssa.Call:
				if g := eng.StaticCallee(x.Common()); g != nil {
					if i, ok := wrapperParam[g]; ok && i < len(x.Call.Args) {
						val = x.Call.Args[i]
					}
				}
			}
			if val == nil {
				return
			}
			n++
			cons := siteCons(p, in, ord, "wrapped-value")
			if w := shared(val, fn, 0); w != "" {
				r.Bad("C17/LUA/fresh", cons, p.InstrPos(in), "the object handed to Lua derives from a %s, so every call of this constructor (from every session and pooled state) returns and overwrites the same object: one hook's deny code/text replaces another's", w)
			} else {
				r.Ok("C17/LUA/fresh", cons, p.InstrPos(in), "the wrapped object is not derived from captured or package-level state")
			}
		})
	}
	r.Floor("C17/LUA/fresh", "objects wrapped for Lua inside Lua-callable functions", n, 1)
}

// luaFailureYieldsNil: from each start block (taken when the Lua call failed) every return of
// fn yields "no answer": nil for a pointer/interface result; for a bool-reporting helper
// `false`, and then the same is required of every caller on the false outcome of the call.
// Returns the position of an offending return, or "".
func (c *Ctx) luaFailureYieldsNil(fn *ssa.Function, starts []*ssa.BasicBlock, depth int) string {
	p := c.P
	if depth > 3 || fn.Signature.Results().Len() != 1 {
		return ""
	}
	_, isBool := fn.Signature.Results().At(0).Type().Underlying().(*types.Basic)
	for _, st := range starts {
		hit := eng.BlockReaches(st, func(x ssa.Instruction) bool {
			ret, ok := x.(*ssa.Return)
			if !ok {
				return false
			}
			v := eng.ReturnResults(ret)[0]
			if isBool {
				b, isC := eng.ConstBool(v)
				return !(isC && !b)
			}
			return !eng.IsNilConst(v)
		}, nil)
		if hit != nil {
			return p.InstrPos(hit)
		}
	}
	if !isBool {
		return ""
	}
	for _, cs := range p.StaticCallSites(fn) {
		caller := cs.Instr.Parent()
		if eng.FuncPkgPath(caller) != eng.FuncPkgPath(fn) {
			continue
		}
		callV, ok := cs.Instr.(*ssa.Call)
		if !ok {
			continue
		}
		if caller.Signature.Results().Len() == 0 {
			continue // an after-handler: there is no answer to withhold
		}
		var falseEdges []*ssa.BasicBlock
		for _, b := range caller.Blocks {
			for k := 0; k < len(b.Succs) && len(b.Succs) == 2; k++ {
				v, pol, ok := eng.CondTruth(b, k)
				if ok && !pol && v == ssa.Value(callV) {
					falseEdges = append(falseEdges, b.Succs[k])
				}
			}
		}
		if len(falseEdges) == 0 {
			return p.InstrPos(callV) + " (the failure report of " + shortFn(fn) + " is not tested)"
		}
		if bad := c.luaFailureYieldsNil(caller, falseEdges, depth+1); bad != "" {
			return bad
		}
	}
	return ""
}

// c17Isolated: see the rule text. The event structs are copied by value on the way to a
// listener, but their From/To/Mailboxes fields alias the caller's data; the Lua bindings make
// those writable (msg.from.address = ...).
func (c *Ctx) c17Isolated() {
	r, p := c.R, c.P
	fns := pkgFuncs(p, luaRel)
	var fresh func(v ssa.Value, depth int) bool
	fresh = func(v ssa.Value, depth int) bool {
		if depth > 5 {
			return false
		}
		switch x := v.(type) {
		case *ssa.Const:
			return x.IsNil()
		case *ssa.Alloc:
			return true
		case *ssa.MakeSlice:
			return true
		case *ssa.Phi:
			for _, e := range x.Edges {
				if !fresh(e, depth+1) {
					return false
				}
			}
			return true
		case *ssa.Extract:
			// one result of a cloning helper that returns several (from, to = cloneEnvelope(…))
			if call, ok := x.Tuple.(*ssa.Call); ok {
				if rets, g := eng.ReturnedValues(call, x.Index); g != nil && len(rets) > 0 {
					for _, rv := range rets {
						if !fresh(rv, depth+1) {
							return false
						}
					}
					return true
				}
			}
		case *ssa.Call:
			if eng.CalleeName(x.Common()) == "builtin.append" {
				return fresh(x.Call.Args[0], depth+1)
			}
			if rets, g := eng.ReturnedValues(x, 0); g != nil && len(rets) > 0 {
				for _, rv := range rets {
					if !fresh(rv, depth+1) {
						return false
					}
				}
				return true
			}
		}
		return false
	}
	// fieldsRefreshed: which fields of the struct addressed by base are stored a fresh value
	// in fn (before `before` when given)
	var refreshed func(fn *ssa.Function, base ssa.Value, before ssa.Instruction, depth int) map[int]bool
	refreshed = func(fn *ssa.Function, base ssa.Value, before ssa.Instruction, depth int) map[int]bool {
		out := map[int]bool{}
		if depth > 2 {
			return out
		}
		eng.EachInstr(fn, func(in ssa.Instruction) {
			if before != nil && !eng.Dominates(in, before) {
				return
			}
			switch x := in.(type) {
			case *ssa.Store:
				if fa, ok := x.Addr.(*ssa.FieldAddr); ok && fa.X == base && fresh(x.Val, 0) {
					out[fa.Field] = true
				}
				// the whole event replaced by the result of an isolating helper
				// (session = isolatedSMTPSession(session)): the fields that helper refreshes in
				// the copy it returns
				if x.Addr == base {
					if hc, ok := x.Val.(*ssa.Call); ok {
						if rets, g := eng.ReturnedValues(hc, 0); g != nil && eng.FuncPkgPath(g) == eng.Mod+"/"+luaRel && len(rets) > 0 {
							var common map[int]bool
							for _, rv := range rets {
								got := map[int]bool{}
								if u, ok := rv.(*ssa.UnOp); ok {
									if gal, ok := u.X.(*ssa.Alloc); ok {
										got = refreshed(g, gal, u, depth+1)
									}
								}
								if common == nil {
									common = got
								} else {
									for f := range common {
										if !got[f] {
											delete(common, f)
										}
									}
								}
							}
							for f := range common {
								out[f] = true
							}
						}
					}
				}
			case *ssa.Call:
				g := eng.StaticCallee(x.Common())
				if g == nil || eng.FuncPkgPath(g) != eng.Mod+"/"+luaRel || len(g.Blocks) == 0 {
					return
				}
				for i, a := range x.Call.Args {
					if a == base && i < len(g.Params) {
						for f := range refreshed(g, g.Params[i], nil, depth+1) {
							out[f] = true
						}
					}
				}
			}
		})
		return out
	}
	n := 0
	for _, fn := range fns {
		fn := fn
		eng.EachInstr(fn, func(in ssa.Instruction) {
			call, ok := in.(*ssa.Call)
			if !ok {
				return
			}
			// an exposure: the event is handed to a function of the package that turns it into Lua
			// user data (wrapX(ls, &msg)), or to a helper together with such a function
			// (invoke(c, 1, &msg, wrapInboundMessage))
			isWrap := func(g *ssa.Function) bool {
				if g == nil || eng.FuncPkgPath(g) != eng.Mod+"/"+luaRel {
					return false
				}
				res := g.Signature.Results()
				for i := 0; i < res.Len(); i++ {
					if pt, ok := res.At(i).Type().(*types.Pointer); ok {
						if n, ok := pt.Elem().(*types.Named); ok && n.Obj().Name() == "LUserData" {
							return true
						}
					}
				}
				return false
			}
			g := eng.StaticCallee(call.Common())
			exposes := isWrap(g)
			if !exposes && g != nil && (eng.FuncPkgPath(g) == eng.Mod+"/"+luaRel || g.Pkg == nil) {
				for _, a := range call.Call.Args {
					if f, _, isF := eng.FuncValueOf(a); isF && isWrap(f) {
						exposes = true
					}
				}
			}
			if !exposes {
				return
			}
			for _, a := range call.Call.Args {
				al, ok := a.(*ssa.Alloc)
				ctxFn, before := fn, ssa.Instruction(in)
				if !ok {
					// the handler's event captured by the function literal that talks to Lua
					// (h.withInbucket(name, func(…) { … wrapInboundMessage(ls, &msg) … }))
					fv, isFV := a.(*ssa.FreeVar)
					if !isFV || fn.Parent() == nil {
						continue
					}
					idx := -1
					for i, f0 := range fn.FreeVars {
						if f0 == fv {
							idx = i
						}
					}
					eng.EachInstr(fn.Parent(), func(pi ssa.Instruction) {
						if mc, isMC := pi.(*ssa.MakeClosure); isMC && mc.Fn == ssa.Value(fn) && idx >= 0 && idx < len(mc.Bindings) {
							if pal, isAl := mc.Bindings[idx].(*ssa.Alloc); isAl {
								al, ok = pal, true
								ctxFn, before = fn.Parent(), mc
							}
						}
					})
					if !ok {
						continue
					}
				}
				// the spilled by-value parameter of the handler
				isParam := false
				for _, ref := range *al.Referrers() {
					if st, ok := ref.(*ssa.Store); ok && st.Addr == ssa.Value(al) {
						if _, isP := st.Val.(*ssa.Parameter); isP {
							isParam = true
						}
					}
				}
				st, isStruct := al.Type().(*types.Pointer).Elem().Underlying().(*types.Struct)
				if !isParam || !isStruct {
					continue
				}
				n++
				got := refreshed(ctxFn, al, before, 0)
				var missing []string
				for i := 0; i < st.NumFields(); i++ {
					switch st.Field(i).Type().Underlying().(type) {
					case *types.Pointer, *types.Slice, *types.Map:
						if !got[i] {
							missing = append(missing, st.Field(i).Name())
						}
					}
				}
				cons := "event-param@" + shortFn(fn)
				if len(missing) > 0 {
					r.Bad("C17/LUA/isolated", cons, p.InstrPos(in), "the event handed to Lua still shares its field(s) %s with the caller: a script that writes through them (msg.from.address = …) and then raises an error, returns nothing or defers has nevertheless changed the sender/recipients the server goes on to use (and what other listeners and the store see)", strings.Join(missing, ", "))
				} else {
					r.Ok("C17/LUA/isolated", cons, p.InstrPos(in), "every pointer/slice field of the event is replaced by a fresh copy before Lua sees it")
				}
			}
		})
	}
	r.Floor("C17/LUA/isolated", "handlers exposing their event parameter to Lua", n, 1)
}

// c17AnswerVerbatim: "a replaced inbound message is delivered to exactly the mailboxes and with
// the sender, recipients and subject the hook returned". Once the script has run, the host does
// not write to the message it answered with: after a CallByParam — in the function that makes
// the call and, behind its return, in the handlers that called it — no store to a field of an
// event.InboundMessage is reachable. (Copying the inbound message *before* the call, to isolate
// it from the script, is the C17/LUA/isolated rule's business and lies before the call.)
func (c *Ctx) c17AnswerVerbatim() {
	p, r := c.P, c.R
	rule := "C17/LUA/answer-verbatim"
	r.Rule(rule, "after (*LState).CallByParam no store to a field of event.InboundMessage is reachable in the Lua host (followed into callees and behind the caller's return): the script's answer is handed on as the script left it")
	imT := p.Named("pkg/extension/event", "InboundMessage")
	if imT == nil {
		return
	}
	writesIM := func(in ssa.Instruction) bool {
		st, ok := in.(*ssa.Store)
		if !ok {
			return false
		}
		fa, ok := st.Addr.(*ssa.FieldAddr)
		if !ok {
			return false
		}
		pt, ok := fa.X.Type().Underlying().(*types.Pointer)
		return ok && types.Identical(pt.Elem(), imT)
	}
	n := 0
	for _, fn := range pkgFuncs(p, luaRel) {
		fn := fn
		eng.EachInstr(fn, func(in ssa.Instruction) {
			call, ok := in.(*ssa.Call)
			if !ok || eng.CalleeName(call.Common()) != "(*github.com/yuin/gopher-lua.LState).CallByParam" {
				return
			}
			n++
			cons := "after-CallByParam@" + shortFn(fn)
			var bad ssa.Instruction
			seen := map[ssa.Instruction]bool{}
			var from func(at ssa.Instruction, depth int)
			from = func(at ssa.Instruction, depth int) {
				if bad != nil || seen[at] || depth > 2 {
					return
				}
				seen[at] = true
				s1 := &eng.Search{Target: writesIM, Deep: true, DeepHit: true}
				if hit := s1.After(at); hit != nil {
					bad = hit
					return
				}
				if eng.FuncPkgPath(at.Parent()) != eng.Mod+"/"+luaRel {
					return
				}
				for _, cs := range p.StaticCallSites(at.Parent()) {
					if cl, isCall := cs.Instr.(*ssa.Call); isCall && eng.FuncPkgPath(cl.Parent()) == eng.Mod+"/"+luaRel {
						from(cl, depth+1)
					}
				}
			}
			from(call, 0)
			if bad != nil {
				r.Bad(rule, cons, p.InstrPos(call), "after the script has answered, the host writes a field of an inbound message at %s: what is delivered is no longer what the hook returned — a field the script set on purpose (an empty mailbox list to drop the mail, an empty subject) is replaced", p.InstrPos(bad))
			} else {
				r.Ok(rule, cons, p.InstrPos(call), "no write to an inbound message after the call")
			}
		})
	}
	r.Floor(rule, "CallByParam sites", n, 1)
}
