package rules

import (
	"go/token"
	"go/types"
	"sort"
	"strings"

	"golang.org/x/tools/go/ssa"

	"ibcheck/eng"
)

func init() { Registry["C12"] = checkC12 }

// fieldSingleStore resolves a struct field (of the storage package's own types) to the only
// value ever stored into it, or nil. Set by checkC12.
var fieldSingleStore func(f *types.Var) ssa.Value

// resolveCell looks through a load of a single-store local cell.
func resolveCell(v ssa.Value) ssa.Value {
	for i := 0; i < 4; i++ {
		// a field of a per-scan state struct that is stored exactly once in its package
		// (p.cutoff set when the pass is constructed)
		if f := eng.LoadedField(v); f != nil && fieldSingleStore != nil {
			if sv := fieldSingleStore(f); sv != nil {
				v = sv
				continue
			}
		}
		ad := eng.LoadAddr(v)
		if ad == nil {
			return v
		}
		cell := eng.CellOf(ad)
		if cell == nil || eng.CellEscapes(cell) {
			return v
		}
		sts := eng.CellStores(cell)
		if len(sts) != 1 {
			return v
		}
		v = sts[0].Val
	}
	return v
}

// isNegPeriod: v = -period (−1*p, p*−1, or unary minus), period a load of field f.
func isNegPeriod(v ssa.Value, isPeriod func(ssa.Value) bool) bool {
	v = eng.StripConv(v)
	switch x := v.(type) {
	case *ssa.BinOp:
		if x.Op == token.MUL {
			if k, ok := eng.ConstInt(x.X); ok && k == -1 && isPeriod(x.Y) {
				return true
			}
			if k, ok := eng.ConstInt(x.Y); ok && k == -1 && isPeriod(x.X) {
				return true
			}
		}
		if x.Op == token.SUB {
			if k, ok := eng.ConstInt(x.X); ok && k == 0 && isPeriod(x.Y) {
				return true
			}
		}
	case *ssa.UnOp:
		if x.Op == token.SUB && isPeriod(x.X) {
			return true
		}
	}
	return false
}

func isTimeNow(v ssa.Value) bool {
	v = resolveCell(v)
	call, ok := v.(*ssa.Call)
	return ok && eng.CalleeName(call.Common()) == "time.Now"
}

func checkC12(c *Ctx) {
	r, p := c.R, c.P
	{
		fns := pkgFuncs(p, "pkg/storage")
		memo := map[*types.Var]ssa.Value{}
		fieldSingleStore = func(f *types.Var) ssa.Value {
			if v, ok := memo[f]; ok {
				return v
			}
			memo[f] = nil
			if f.Pkg() == nil || f.Pkg().Path() != eng.Mod+"/pkg/storage" {
				return nil
			}
			sts := eng.StoresToField(fns, f)
			if len(sts) == 1 {
				memo[f] = sts[0].Store.Val
			}
			return memo[f]
		}
	}
	r.Explanation = "Decides the shape of the retention scan: (D1) the scan's RemoveMessage call is control-dependent on a recognised 'older than cutoff' predicate over the same message's Date() with cutoff = time.Now() + (−period) (forms recognised after normalisation: d.Before(cutoff), cutoff.After(d), time.Since(d) > period, now.Sub(d) > period), and its arguments are Mailbox() and ID() of that very message; (D2) every non-test call of the scan lies on an edge that implies retentionPeriod > 0; (D3) every blocking operation of the scanner's own functions is a select with a ctx.Done() arm that leaves, every exit of Start closes the shutdown channel and Join waits on it; (D4) both VisitMailboxes call the visitor with no lock held (so its RemoveMessage cannot self-deadlock) and hand it a freshly made slice, not the store's own container."
	r.NotDecided = []string{"clock/boundary behaviour at exactly the cutoff", "completeness of a scan racing with directory changes in the file store", "promptness in seconds", "blocking inside the stores (bounded by C09/NOBLOCK, not by cancellation)"}
	r.Assumptions = []string{"time.Time.Before/After/Sub and time.Since semantics"}
	r.Rule("C12/GUARD/expired", "RemoveMessage in the scan is dominated by the true edge of an older-than-cutoff predicate on the same message's Date(), cutoff = Now().Add(−retentionPeriod); arguments are Mailbox() and ID() of that message")
	r.Rule("C12/ZERO", "every call of the scan is dominated by an edge implying retentionPeriod > 0 (a guard weakened to `< 0` lets period 0 scan with cutoff = now and delete everything); the field holds the configured RetentionPeriod unchanged")
	r.Rule("C12/CANCEL", "RetentionScanner.Start / DoScan / visitor: every blocking operation is a select with a ctx.Done() arm that leaves; every exit of Start closes retentionShutdown; Join receives from it")
	r.Rule("C12/COMPLETE", "a failed RemoveMessage does not end the scan: from its error edge no return inside the message loop, no jump out of that loop and no visitor result other than true is reachable except where ctx cancellation was observed")
	r.Rule("C12/VISIT", "both stores' VisitMailboxes call the visitor with no lock held and pass it a freshly allocated slice")
	scan := p.Method("pkg/storage", "RetentionScanner", "DoScan")
	start := p.Method("pkg/storage", "RetentionScanner", "Start")
	fPeriod := retentionPeriodField(p)
	rmObj := p.MethodObj("pkg/storage", "Store", "RemoveMessage")
	if scan == nil || start == nil || fPeriod == nil || rmObj == nil {
		return
	}
	isPeriod := func(v ssa.Value) bool { return eng.SameField(eng.LoadedField(eng.StripConv(v)), fPeriod) }
	// ---- D1
	n := 0
	var scanFns []*ssa.Function
	for fn := range p.SyncReach(scan) {
		if eng.FuncPkgPath(fn) == eng.Mod+"/pkg/storage" {
			scanFns = append(scanFns, fn)
		}
	}
	sort.Slice(scanFns, func(i, j int) bool { return scanFns[i].String() < scanFns[j].String() })
	for _, fn := range scanFns {
		fn := fn
		eng.EachInstr(fn, func(in ssa.Instruction) {
			call, ok := in.(*ssa.Call)
			if !ok || !eng.IsCallTo(call.Common(), rmObj) {
				return
			}
			n++
			cons := "remove@" + shortFn(fn)
			args := call.Call.Args
			mbc, ok1 := args[len(args)-2].(*ssa.Call)
			idc, ok2 := args[len(args)-1].(*ssa.Call)
			if !ok1 || !ok2 || !mbc.Call.IsInvoke() || !idc.Call.IsInvoke() || mbc.Call.Method.Name() != "Mailbox" || idc.Call.Method.Name() != "ID" || mbc.Call.Value != idc.Call.Value {
				r.Bad("C12/GUARD/expired", cons, p.InstrPos(in), "RemoveMessage is not called with Mailbox() and ID() of one and the same message")
				return
			}
			msg := idc.Call.Value
			guard := ""
			// the age test may sit in a caller when the removal was extracted into a helper
			// that receives the message as a parameter
			p.Lift(in, msg, 0, func(site ssa.Instruction, subj ssa.Value) bool {
				found := false
				for _, b := range site.Parent().Blocks {
					for k := 0; k < len(b.Succs) && len(b.Succs) == 2; k++ {
						if !eng.EdgeDominates(b, k, site.Block()) {
							continue
						}
						if why, ok := c.expiredEdge(b, k, subj, isPeriod); ok {
							guard = why
							found = true
						} else if why != "" && !found {
							guard = "!" + why
						}
					}
				}
				return found
			})
			switch {
			case guard == "":
				r.Bad("C12/GUARD/expired", cons, p.InstrPos(in), "the removal is not control-dependent on an age test of the message: every visited message is deleted")
			case strings.HasPrefix(guard, "!"):
				r.Bad("C12/GUARD/expired", cons, p.InstrPos(in), "%s", guard[1:])
			default:
				r.Ok("C12/GUARD/expired", cons, p.InstrPos(in), "%s", guard)
			}
		})
	}
	// the scan removes through RemoveMessage only: a bulk removal acts on whatever the mailbox
	// holds when it runs, not on the snapshot the age test was made on
	{
		storeIface := p.Named("pkg/storage", "Store")
		var bulk []string
		if storeIface != nil {
			for fn := range p.SyncReach(scan) {
				if eng.FuncPkgPath(fn) != eng.FuncPkgPath(scan) {
					continue
				}
				eng.EachInstr(fn, func(in ssa.Instruction) {
					call, ok := in.(*ssa.Call)
					if !ok || !call.Call.IsInvoke() {
						return
					}
					if !types.Identical(call.Call.Value.Type(), storeIface) {
						return
					}
					switch call.Call.Method.Name() {
					case "PurgeMessages", "AddMessage", "MarkSeen":
						bulk = append(bulk, "Store."+call.Call.Method.Name()+" at "+p.InstrPos(in))
					}
				})
			}
		}
		sort.Strings(bulk)
		if len(bulk) > 0 {
			r.Bad("C12/GUARD/expired", "scan-store-calls", p.Pos(scan.Pos()), "the scan changes the store through %s: a purge removes every message the mailbox holds at that moment, including mail delivered after the snapshot whose ages were tested", strings.Join(bulk, ", "))
		} else {
			r.Ok("C12/GUARD/expired", "scan-store-calls", p.Pos(scan.Pos()), "the scan mutates the store only through RemoveMessage of tested messages")
		}
	}
	r.Floor("C12/GUARD/expired", "RemoveMessage sites in the scan", n, 1)

	// ---- D2
	// the field the guard tests is the configured period itself: a value adjusted on the way
	// (clamped to a minimum, defaulted) no longer says "0 = disabled"
	{
		sts := eng.StoresToField(pkgFuncs(p, "pkg/storage"), fPeriod)
		for i, st := range sts {
			cons := "period-source@" + shortFn(eng.Outer(st.Fn))
			if len(sts) > 1 {
				cons += "#" + itoa(int64(i+1))
			}
			v := eng.StripConv(resolveCell(eng.StripConv(st.Store.Val)))
			f := eng.LoadedField(v)
			if f != nil && f.Name() == "RetentionPeriod" && f.Pkg() != nil && f.Pkg().Path() == eng.Mod+"/pkg/config" {
				r.Ok("C12/ZERO", cons, p.InstrPos(st.Store), "retentionPeriod is the configured RetentionPeriod, unchanged")
			} else {
				r.Bad("C12/ZERO", cons, p.InstrPos(st.Store), "retentionPeriod is not the configured RetentionPeriod itself (it is computed or adjusted before it is stored): a configured period of 0, which must disable retention, can become a positive period that passes the `> 0` guard, and the scan then deletes mail")
			}
		}
		r.Floor("C12/ZERO", "stores to RetentionScanner.retentionPeriod", len(sts), 1)
	}
	callers := p.CallersOf(scan)
	r.Floor("C12/ZERO", "non-test callers of the scan", len(callers), 1)
	for _, e := range callers {
		fn := e.Caller.Func
		site := e.Site.(ssa.Instruction)
		cons := "scan-call@" + shortFn(fn)
		okPos, why := false, "no dominating comparison of retentionPeriod with 0"
		for _, b := range fn.Blocks {
			for k := 0; k < len(b.Succs) && len(b.Succs) == 2; k++ {
				rel, ok := eng.EdgeRel(b, k)
				if !ok || !eng.EdgeDominates(b, k, site.Block()) {
					continue
				}
				if isPeriod(rel.Y) {
					rel = rel.Swap()
				}
				if !isPeriod(rel.X) {
					continue
				}
				kk, isC := eng.ConstInt(rel.Y)
				if !isC {
					continue
				}
				if (rel.Op == token.GTR && kk >= 0) || (rel.Op == token.GEQ && kk >= 1) {
					okPos = true
				} else {
					why = "the scan runs on the edge retentionPeriod " + rel.Op.String() + " " + itoa(kk) + ", which admits 0: with period 0 the cutoff is now and every message is deleted"
				}
			}
		}
		if !okPos {
			// the guard may sit in the callers of a helper that runs the scan loop
			var lifted func(g *ssa.Function, depth int) bool
			lifted = func(g *ssa.Function, depth int) bool {
				if depth > 3 {
					return false
				}
				sites := p.StaticCallSites(g)
				if len(sites) == 0 {
					return false
				}
				for _, cs := range sites {
					cfn := cs.Instr.Parent()
					at := cs.Instr.(ssa.Instruction)
					dom := false
					for _, b := range cfn.Blocks {
						for k := 0; k < len(b.Succs) && len(b.Succs) == 2; k++ {
							rel, ok := eng.EdgeRel(b, k)
							if !ok || !eng.EdgeDominates(b, k, at.Block()) {
								continue
							}
							if isPeriod(rel.Y) {
								rel = rel.Swap()
							}
							if !isPeriod(rel.X) {
								continue
							}
							if kk, isC := eng.ConstInt(rel.Y); isC && ((rel.Op == token.GTR && kk >= 0) || (rel.Op == token.GEQ && kk >= 1)) {
								dom = true
							}
						}
					}
					if !dom && !lifted(cfn, depth+1) {
						return false
					}
				}
				return true
			}
			if lifted(fn, 0) {
				okPos = true
			}
		}
		r.Check(okPos, "C12/ZERO", cons, p.InstrPos(site), "the scan is called only where retentionPeriod > 0 (in the function or in every caller)", why)
	}
	// ---- D3
	c.retentionCancel("C12/CANCEL")
	// ---- D4
	c.c12Visit()
	c.c12Complete(scan, rmObj)
	// a delivery racing the scan must not be lost with a mailbox entry the scan's removal
	// drops (decided by C07's entries-persist rule and C09's create rule)
	nB := c.borrow(func(c2 *Ctx) {
		if sm := c2.stores(); sm.ok {
			c2.c07Mem(sm)
		}
	}, "C07/ID/monotone/mem.Store.boxes:entries-persist", "C12/RACE/entries-persist", "memory store: mailbox entries are never deleted or replaced, so a message delivered while the scan removes the last expired message of that mailbox is not dropped with the entry")
	r.Floor("C12/RACE/entries-persist", "borrowed obligations", nB, 1)
	// the scan's removals cannot hang: nothing that blocks on the size enforcer (which itself
	// takes mailbox locks) runs while a mailbox lock is held (decided by C09's no-blocking rule).
	// A scan stuck in RemoveMessage never reaches its cancellation test, so Start and Join never
	// return after shutdown either
	nNB := c.borrow(func(c2 *Ctx) {
		if pm2 := c2.pairing(); pm2.ok {
			c2.c09NoBlock(pm2)
		}
	}, "C09/NOBLOCK", "C12/CANCEL/store-cannot-block", "no enforcer rendezvous, channel operation or lock re-acquisition is reachable while a store lock is held: a removal issued by the scan always returns")
	r.Floor("C12/CANCEL/store-cannot-block", "borrowed obligations", nNB, 1)
	// the scan's removal must not write back an index it loaded before a concurrent delivery
	// committed (decided by C09's bucket-lock rule): the fresh message would vanish with it
	// the scan removes by id what it tested as a snapshot: an id must never come to name another
	// message (decided by C07: the memory store's id counter only ever increments)
	nI := c.borrow(func(c2 *Ctx) {
		if sm2 := c2.stores(); sm2.ok {
			c2.c07Mem(sm2)
		}
	}, "C07/ID/monotone/", "C12/RACE/ids-never-reused", "memory store: message ids are never issued twice, so RemoveMessage(mailbox, id) of an expired message cannot hit mail delivered after the snapshot")
	r.Floor("C12/RACE/ids-never-reused", "borrowed obligations", nI, 1)
	nF := c.borrow(func(c2 *Ctx) {
		if pm2 := c2.pairing(); pm2.ok {
			c2.c09File(pm2)
		}
	}, "C09/GUARD/file/(*file.Store).RemoveMessage", "C12/RACE/file-remove-atomic", "file store: RemoveMessage loads the index, removes and writes it back inside one critical section of the bucket lock")
	r.Floor("C12/RACE/file-remove-atomic", "borrowed obligations", nF, 1)
	// "even while new mail is being delivered": a delivery that lets go of the bucket lock between
	// reserving its place and committing the index lets the scan's removal of the mailbox's last
	// expired message take the directory — and the raw file being written — away underneath it
	nFA := c.borrow(func(c2 *Ctx) {
		if pm2 := c2.pairing(); pm2.ok {
			c2.c09File(pm2)
		}
	}, "C09/GUARD/file/(*file.Store).AddMessage", "C12/RACE/file-add-atomic", "file store: AddMessage loads the index, writes the body and commits the index inside one critical section of the bucket lock, so a scan cannot remove the mailbox directory under a delivery in flight")
	r.Floor("C12/RACE/file-add-atomic", "borrowed obligations", nFA, 1)
	// the file store's ids are not reissued either (the scan removes by id)
	c.fileIDUnique("C12/RACE/file-ids-never-reused")
}

func itoa(k int64) string {
	neg := k < 0
	if neg {
		k = -k
	}
	s := ""
	if k == 0 {
		s = "0"
	}
	for k > 0 {
		s = string(rune('0'+k%10)) + s
		k /= 10
	}
	if neg {
		s = "-" + s
	}
	return s
}

// expiredEdge recognises edge (b,k) as "msg is older than now−period". Returns a
// description; ok=false with a non-empty description means an age test of the wrong shape.
func (c *Ctx) expiredEdge(b *ssa.BasicBlock, k int, msg ssa.Value, isPeriod func(ssa.Value) bool) (string, bool) {
	p := c.P
	isDate := func(v ssa.Value) bool {
		call, ok := v.(*ssa.Call)
		return ok && call.Call.IsInvoke() && call.Call.Method.Name() == "Date" && call.Call.Value == msg
	}
	isCutoff := func(v ssa.Value) (bool, string) {
		// through a local, and through a parameter of the per-mailbox helper
		// (sweepMailbox(messages, cutoff, …))
		v = resolveCell(p.Actual(resolveCell(v)))
		call, ok := v.(*ssa.Call)
		if !ok || eng.CalleeName(call.Common()) != "(time.Time).Add" {
			return false, ""
		}
		if !isTimeNow(call.Call.Args[0]) {
			return false, "cutoff is not based on time.Now()"
		}
		if isNegPeriod(call.Call.Args[1], isPeriod) {
			return true, ""
		}
		if isPeriod(call.Call.Args[1]) {
			return false, "cutoff = Now().Add(+retentionPeriod) lies in the future: every message is 'expired'"
		}
		return false, "cutoff offset is not −retentionPeriod"
	}
	v, pol, ok := eng.CondTruth(b, k)
	if ok {
		if call, isCall := v.(*ssa.Call); isCall {
			switch eng.CalleeName(call.Common()) {
			case "(time.Time).Before":
				if isDate(call.Call.Args[0]) {
					okC, why := isCutoff(call.Call.Args[1])
					if okC && pol {
						return "removal under msg.Date().Before(Now().Add(−period)) at " + p.InstrPos(call), true
					}
					if okC && !pol {
						return "the removal is on the FALSE edge of Date().Before(cutoff): it deletes the young messages and keeps the expired ones", false
					}
					return why, false
				}
				if okC, _ := isCutoff(call.Call.Args[0]); okC && isDate(call.Call.Args[1]) {
					return "cutoff.Before(Date()) selects messages YOUNGER than the cutoff", false
				}
			case "(time.Time).After":
				if okC, why := isCutoff(call.Call.Args[0]); isDate(call.Call.Args[1]) {
					if okC && pol {
						return "removal under cutoff.After(msg.Date()) at " + p.InstrPos(call), true
					}
					return why, false
				}
				if isDate(call.Call.Args[0]) {
					return "Date().After(cutoff) selects messages YOUNGER than the cutoff", false
				}
			}
		}
	}
	if rel, ok := eng.EdgeRel(b, k); ok {
		age := func(v ssa.Value) bool {
			call, ok := v.(*ssa.Call)
			if !ok {
				return false
			}
			switch eng.CalleeName(call.Common()) {
			case "time.Since":
				return isDate(call.Call.Args[0])
			case "(time.Time).Sub":
				return isTimeNow(call.Call.Args[0]) && isDate(call.Call.Args[1])
			}
			return false
		}
		if age(rel.Y) {
			rel = rel.Swap()
		}
		if age(rel.X) && isPeriod(rel.Y) {
			if rel.Op == token.GTR || rel.Op == token.GEQ {
				return "removal under age(msg) > retentionPeriod at " + p.InstrPos(eng.IfOf(b)), true
			}
			return "the removal is on the edge age(msg) " + rel.Op.String() + " period: it deletes the young messages", false
		}
	}
	return "", false
}

func (c *Ctx) c12Visit() {
	r, p := c.R, c.P
	for _, rel := range []string{"pkg/storage/mem", "pkg/storage/file"} {
		vm := p.Method(rel, "Store", "VisitMailboxes")
		if vm == nil {
			continue
		}
		var locks []lockOps
		if rel == "pkg/storage/mem" {
			if f := p.MutexField(rel, "Store"); f != nil {
				locks = append(locks, opsFor(f))
			}
		}
		if f := p.MutexField(rel, "mbox"); f != nil {
			locks = append(locks, opsFor(f))
		}
		// the visitor may be called in VisitMailboxes itself or in a helper of the package that
		// receives it (visitMailboxDirs(names, f))
		var vfns []*ssa.Function
		for g := range p.SyncReach(vm) {
			if eng.FuncPkgPath(g) == eng.FuncPkgPath(vm) {
				vfns = append(vfns, g)
			}
		}
		sortFuncs(vfns)
		nVis := 0
		for _, g := range vfns {
			g := g
			eng.EachInstr(g, func(in ssa.Instruction) {
				call, ok := in.(*ssa.Call)
				if !ok {
					return
				}
				prm, isParam := call.Call.Value.(*ssa.Parameter)
				if !isParam {
					if u, isU := call.Call.Value.(*ssa.UnOp); isU {
						if cell := eng.CellOf(u.X); cell != nil {
							if sts := eng.CellStores(cell); len(sts) == 1 {
								prm, isParam = sts[0].Val.(*ssa.Parameter)
							}
						}
					}
				}
				if !isParam || !visitorSigOfType(prm.Type()) {
					return
				}
				if av, isP := p.Actual(prm).(*ssa.Parameter); !isP || av.Parent() != vm {
					return
				}
				nVis++
				cons := "visitor@" + shortFn(vm)
				held := false
				for _, lo := range locks {
					if !neverHeld(g, in, lo) {
						held = true
					}
					if g != vm {
						for _, cs := range p.StaticCallSites(g) {
							site := cs.Instr.(ssa.Instruction)
							if !neverHeld(site.Parent(), site, lo) {
								held = true
							}
						}
					}
				}
				if held {
					r.Bad("C12/VISIT", cons, p.InstrPos(in), "the visitor runs while a store lock is held: its RemoveMessage takes the same lock and deadlocks the scan")
					return
				}
				// freshness of the slice handed over
				fresh, why := c.freshSlice(call.Call.Args[0], 0)
				if !fresh {
					r.Bad("C12/VISIT", cons+":fresh", p.InstrPos(in), "the visitor receives %s: removals during the visit mutate the list being iterated", why)
					return
				}
				r.Ok("C12/VISIT", cons, p.InstrPos(in), "visitor called lock-free with a freshly made slice")
			})
		}
		if nVis == 0 {
			r.Undecided("C12/VISIT", "visitor@"+shortFn(vm), p.Pos(vm.Pos()), "the call of the visitor was not found in VisitMailboxes or the helpers it runs")
		}
	}
}

// freshSlice: v originates from make([]T, …) (possibly through appends, returns and
// single-store locals), never from a struct field.
func (c *Ctx) freshSlice(v ssa.Value, depth int) (bool, string) {
	if depth > 10 {
		return false, "a slice of unknown origin"
	}
	switch x := v.(type) {
	case *ssa.MakeSlice:
		return true, ""
	case *ssa.Const:
		return true, ""
	case *ssa.Slice:
		if al, ok := x.X.(*ssa.Alloc); ok && strings.HasPrefix(eng.ShortType(al.Type()), "*[") {
			return true, ""
		}
		return c.freshSlice(x.X, depth+1)
	case *ssa.Phi:
		for _, e := range x.Edges {
			if e == v {
				continue
			}
			if ok, why := c.freshSlice(e, depth+1); !ok {
				return false, why
			}
		}
		return true, ""
	case *ssa.Call:
		if eng.CalleeName(x.Common()) == "builtin.append" {
			return c.freshSlice(x.Call.Args[0], depth+1)
		}
		if g := eng.StaticCallee(x.Common()); g != nil && eng.InModule(g) && g.Blocks != nil {
			// a runner's result is what the callback given at this call returns
			if eng.RunnerParam(g) >= 0 {
				if rets, h := eng.ReturnedValues(x, 0); h != nil && h != g && len(rets) > 0 {
					for _, rv := range rets {
						if ok, why := c.freshSlice(rv, depth+1); !ok {
							return false, why
						}
					}
					return true, ""
				}
			}
			return c.freshResult(g, 0, depth+1)
		}
	case *ssa.Extract:
		if call, ok := x.Tuple.(*ssa.Call); ok {
			if g := eng.StaticCallee(call.Common()); g != nil && eng.InModule(g) && g.Blocks != nil {
				if eng.RunnerParam(g) >= 0 {
					if rets, h := eng.ReturnedValues(call, x.Index); h != nil && h != g && len(rets) > 0 {
						for _, rv := range rets {
							if ok, why := c.freshSlice(rv, depth+1); !ok {
								return false, why
							}
						}
						return true, ""
					}
				}
				return c.freshResult(g, x.Index, depth+1)
			}
		}
	case *ssa.UnOp:
		if f := eng.LoadedField(v); f != nil {
			return false, "the store's own container (field " + f.Name() + ")"
		}
		if ad := eng.LoadAddr(v); ad != nil {
			if cell := eng.CellOf(ad); cell != nil && !eng.CellEscapes(cell) {
				sts := eng.CellStores(cell)
				for _, st := range sts {
					// append(load(cell), …) stored back to the same cell keeps the origin
					if call, ok := st.Val.(*ssa.Call); ok && eng.CalleeName(call.Common()) == "builtin.append" {
						if la := eng.LoadAddr(call.Call.Args[0]); la != nil && eng.CellOf(la) == cell {
							continue
						}
					}
					if ok, why := c.freshSlice(st.Val, depth+1); !ok {
						return false, why
					}
				}
				return len(sts) > 0, "an unassigned local"
			}
		}
	}
	return false, "a slice of unknown origin (" + v.String() + ")"
}

func (c *Ctx) freshResult(g *ssa.Function, idx int, depth int) (bool, string) {
	okAll, why := true, ""
	n := 0
	eng.EachInstr(g, func(in ssa.Instruction) {
		ret, ok := in.(*ssa.Return)
		if !ok || eng.IsRecoverBlock(ret.Block()) {
			return
		}
		res := eng.ReturnResults(ret)
		if idx >= len(res) {
			return
		}
		n++
		if ok2, w := c.freshSlice(res[idx], depth+1); !ok2 {
			okAll, why = false, w
		}
	})
	return okAll && n > 0, why
}

// c12Complete: a removal that fails (most often: the message was deleted by a client between
// the snapshot and the removal, ErrNotExist) must not stop the pass — otherwise the rest of the
// mailbox, and every mailbox not yet visited, keeps its expired mail.
func (c *Ctx) c12Complete(scan *ssa.Function, rmObj *types.Func) {
	r, p := c.R, c.P
	var fns []*ssa.Function
	for fn := range p.SyncReach(scan) {
		if eng.FuncPkgPath(fn) == eng.FuncPkgPath(scan) {
			fns = append(fns, fn)
		}
	}
	sortFuncs(fns)
	isCtxDone := func(v ssa.Value) bool {
		call, ok := v.(*ssa.Call)
		return ok && call.Call.IsInvoke() && call.Call.Method.Name() == "Done"
	}
	n := 0
	ord := map[string]int{}
	for _, fn := range fns {
		fn := fn
		// blocks in which cancellation has been observed: the ctx.Done() arm of a select, the
		// true edge of ctx.Err() != nil
		cancelled := map[*ssa.BasicBlock]bool{}
		mark := func(root *ssa.BasicBlock) {
			for _, b := range fn.Blocks {
				if root.Dominates(b) {
					cancelled[b] = true
				}
			}
		}
		eng.EachInstr(fn, func(in ssa.Instruction) {
			if sel, ok := in.(*ssa.Select); ok {
				for i, st := range sel.States {
					if isCtxDone(st.Chan) {
						if arm := eng.SelectArm(sel, i); arm != nil {
							mark(arm)
						}
					}
				}
			}
		})
		for _, b := range fn.Blocks {
			for k := 0; k < len(b.Succs) && len(b.Succs) == 2; k++ {
				rel, ok := eng.EdgeRel(b, k)
				if !ok || rel.Op != token.NEQ || !eng.IsNilConst(rel.Y) {
					continue
				}
				if call, ok := rel.X.(*ssa.Call); ok && call.Call.IsInvoke() && call.Call.Method.Name() == "Err" && len(b.Succs[k].Preds) == 1 {
					mark(b.Succs[k])
				}
			}
		}
		eng.EachInstr(fn, func(in ssa.Instruction) {
			call, ok := in.(*ssa.Call)
			if !ok || !eng.IsCallTo(call.Common(), rmObj) {
				return
			}
			n++
			cons := siteCons(p, in, ord, "after-failed-removal")
			ev := errResultOf(call)
			if ev == nil {
				r.Ok("C12/COMPLETE", cons, p.InstrPos(in), "the removal's error is not consulted: the pass always continues")
				return
			}
			// the innermost loop around the removal
			var header *ssa.BasicBlock
			for _, h := range loopHeaders(call.Block()) {
				if header == nil || header.Dominates(h) {
					header = h
				}
			}
			inBody := func(b *ssa.BasicBlock) bool {
				if header == nil {
					return false
				}
				for _, hs := range loopHeaders(b) {
					if hs == header {
						return b != header
					}
				}
				return false
			}
			stops := func(x ssa.Instruction) bool {
				if cancelled[x.Block()] {
					return false
				}
				if ret, isRet := x.(*ssa.Return); isRet {
					if header != nil && inBody(x.Block()) {
						return true // leaves the message loop from inside
					}
					if visitorSig(fn) {
						b, isC := eng.ConstBool(eng.ReturnResults(ret)[0])
						return !(isC && b)
					}
					return false
				}
				return false
			}
			var hit ssa.Instruction
			for _, b := range fn.Blocks {
				for k := 0; k < len(b.Succs) && len(b.Succs) == 2; k++ {
					rel, ok := eng.EdgeRel(b, k)
					if !ok || rel.Op != token.NEQ || rel.X != ev || !eng.IsNilConst(rel.Y) {
						continue
					}
					avoid := func(x ssa.Instruction) bool {
						// going round the loop again is the continuation we want; what happens in
						// later iterations is judged from their own removal
						return cancelled[x.Block()] || header != nil && x.Block() == header
					}
					if h := (&eng.Search{Target: stops, Avoid: avoid}).FromBlockStart(b.Succs[k]); h != nil && hit == nil {
						hit = h
					}
					// a jump out of the loop body that bypasses the header (break / goto)
					if header != nil && hit == nil {
						seen := map[*ssa.BasicBlock]bool{}
						work := []*ssa.BasicBlock{b.Succs[k]}
						for len(work) > 0 && hit == nil {
							x := work[len(work)-1]
							work = work[:len(work)-1]
							if seen[x] || x == header || cancelled[x] {
								continue
							}
							seen[x] = true
							if !inBody(x) {
								if len(x.Instrs) > 0 {
									hit = x.Instrs[0]
								}
								break
							}
							work = append(work, x.Succs...)
						}
					}
				}
			}
			if hit != nil {
				r.Bad("C12/COMPLETE", cons, p.InstrPos(hit), "when RemoveMessage fails (e.g. storage.ErrNotExist because a client deleted the message after the snapshot) the pass ends at %s: the remaining expired messages of this mailbox and of every mailbox not yet visited are kept", p.InstrPos(hit))
			} else {
				r.Ok("C12/COMPLETE", cons, p.InstrPos(in), "a failed removal is logged and the pass goes on; the scan stops early only where cancellation was observed")
			}
		})
	}
	r.Floor("C12/COMPLETE", "RemoveMessage sites in the scan", n, 1)
}

// retentionPeriodField finds the scanner's retention period by what it is used for: the
// time.Duration field of RetentionScanner whose value — negated, scaled or as it is — becomes
// the argument of a time.Time.Add or is compared with a time.Since/Sub result (the cutoff), as
// opposed to the duration the scan sleeps for. By name when that does not single one out.
func retentionPeriodField(p *eng.Prog) *types.Var {
	T := p.Named("pkg/storage", "RetentionScanner")
	if T == nil {
		return nil
	}
	st, ok := T.Underlying().(*types.Struct)
	if !ok {
		return nil
	}
	isDur := func(t types.Type) bool {
		n, ok := t.(*types.Named)
		return ok && n.Obj().Pkg() != nil && n.Obj().Pkg().Path() == "time" && n.Obj().Name() == "Duration"
	}
	var cands []*types.Var
	for i := 0; i < st.NumFields(); i++ {
		f := st.Field(i)
		if !isDur(f.Type()) {
			continue
		}
		cut := false
		for _, fn := range pkgFuncs(p, "pkg/storage") {
			eng.EachInstr(fn, func(in ssa.Instruction) {
				u, ok := in.(*ssa.UnOp)
				if !ok || u.Op != token.MUL || !eng.SameField(eng.LoadedField(u), f) {
					return
				}
				seen := map[ssa.Value]bool{}
				work := []ssa.Value{u}
				for len(work) > 0 {
					v := work[len(work)-1]
					work = work[:len(work)-1]
					if seen[v] || v.Referrers() == nil {
						continue
					}
					seen[v] = true
					for _, ref := range *v.Referrers() {
						switch x := ref.(type) {
						case *ssa.BinOp:
							switch x.Op {
							case token.MUL, token.SUB, token.ADD:
								work = append(work, x)
							case token.GTR, token.LSS, token.GEQ, token.LEQ:
								other := x.X
								if other == v {
									other = x.Y
								}
								if oc, isCall := eng.StripConv(other).(*ssa.Call); isCall {
									switch eng.CalleeName(oc.Common()) {
									case "time.Since", "(time.Time).Sub":
										cut = true
									}
								}
							}
						case *ssa.UnOp:
							if x.Op == token.SUB {
								work = append(work, x)
							}
						case *ssa.Convert:
							work = append(work, x)
						case *ssa.Call:
							if eng.CalleeName(x.Common()) == "(time.Time).Add" {
								cut = true
							}
							// passed down to a helper of the package (cutoffFor(period))
							if g := eng.StaticCallee(x.Common()); g != nil && eng.FuncPkgPath(g) == eng.Mod+"/pkg/storage" {
								for i, a := range x.Call.Args {
									if a == v && i < len(g.Params) {
										work = append(work, g.Params[i])
									}
								}
							}
						}
					}
				}
			})
		}
		if cut {
			cands = append(cands, f)
		}
	}
	if len(cands) == 1 {
		return cands[0]
	}
	return p.Field("pkg/storage", "RetentionScanner", "retentionPeriod")
}
