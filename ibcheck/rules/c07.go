package rules

import (
	"fmt"
	"go/token"
	"go/types"
	"sort"
	"strings"

	"golang.org/x/tools/go/ssa"

	"ibcheck/eng"
)

func init() { Registry["C07"] = checkC07 }

// storeModel resolves the storage anchors shared by C07/C08/C09/C14/C16.
type storeModel struct {
	storeIface  *types.Interface
	msgIface    *types.Interface
	mgrIface    *types.Interface
	errNotExist *ssa.Global
	impls       []*types.Named // Store implementers incl. the test stub
	an          *eng.NilAn
	ok          bool
}

func (c *Ctx) stores() *storeModel {
	p := c.P
	m := &storeModel{}
	sn := p.Named("pkg/storage", "Store")
	mn := p.Named("pkg/storage", "Message")
	gn := p.Named("pkg/message", "Manager")
	eo := p.Obj("pkg/storage", "ErrNotExist")
	if sn == nil || mn == nil || gn == nil || eo == nil {
		return m
	}
	m.storeIface, _ = sn.Underlying().(*types.Interface)
	m.msgIface, _ = mn.Underlying().(*types.Interface)
	m.mgrIface, _ = gn.Underlying().(*types.Interface)
	if pk := p.SSA.Package(eo.Pkg()); pk != nil {
		m.errNotExist, _ = pk.Members["ErrNotExist"].(*ssa.Global)
	}
	if m.storeIface == nil || m.msgIface == nil || m.mgrIface == nil || m.errNotExist == nil {
		c.R.Fatal("UNRESOLVED anchor=storage.Store/Message/ErrNotExist or message.Manager")
		return m
	}
	m.impls = p.Implementers(m.storeIface, true)
	an := eng.NewNilAn(p)
	an.ElemNonNil = func(t types.Type) bool {
		// A-nonnil-elems: message containers ([]*Message, []storage.Message, map values)
		// never hold nil entries.
		if types.Implements(t, m.msgIface) {
			return true
		}
		if pt, ok := t.(*types.Pointer); ok {
			if n, ok := pt.Elem().(*types.Named); ok && n.Obj().Name() == "Message" {
				return true
			}
		}
		return false
	}
	an.Impl = func(cc *ssa.CallCommon) []*ssa.Function {
		if !cc.IsInvoke() {
			return nil
		}
		recv := cc.Value.Type()
		it, ok := recv.Underlying().(*types.Interface)
		if !ok {
			return nil
		}
		var out []*ssa.Function
		for _, n := range p.Implementers(it, false) {
			if f := p.MethodOf(n, cc.Method.Name()); f != nil && eng.InModule(f) && f.Blocks != nil {
				out = append(out, f)
			}
		}
		return out
	}
	m.an = an
	m.ok = true
	return m
}

func tupleStr(t eng.Tuple, p *eng.Prog) string {
	var parts []string
	for _, s := range t.S {
		parts = append(parts, s.String())
	}
	site := "?"
	if t.Ret != nil {
		site = p.InstrPos(t.Ret)
	}
	via := ""
	if t.Via != "" {
		via = " via " + t.Via
	}
	return fmt.Sprintf("(%s) at %s%s", strings.Join(parts, ", "), site, via)
}

// idParam returns the last string parameter of a method (mailbox, id string).
func idParam(fn *ssa.Function) *ssa.Parameter {
	for i := len(fn.Params) - 1; i >= 0; i-- {
		if b, ok := fn.Params[i].Type().Underlying().(*types.Basic); ok && b.Info()&types.IsString != 0 {
			return fn.Params[i]
		}
	}
	return nil
}

// derivesFrom reports whether v is the parameter id itself, possibly read back through a
// local cell that only ever holds id (captured parameters).
func derivesFrom(v ssa.Value, id ssa.Value, depth int) bool {
	if depth > 6 || v == nil {
		return false
	}
	v = eng.StripConv(v)
	if v == id {
		return true
	}
	if ad := eng.LoadAddr(v); ad != nil {
		cell := eng.CellOf(ad)
		if cell == nil || eng.CellEscapes(cell) {
			return false
		}
		sts := eng.CellStores(cell)
		if len(sts) == 0 {
			return false
		}
		for _, st := range sts {
			if !derivesFrom(st.Val, id, depth+1) {
				return false
			}
		}
		return true
	}
	return false
}

// idEqualityEdge: the edge (b,k) implies a string equality one of whose operands derives
// from id.
func idEqualityEdge(b *ssa.BasicBlock, k int, id ssa.Value) bool {
	r, ok := eng.EdgeRel(b, k)
	if !ok || r.Op != token.EQL {
		return false
	}
	if bt, ok := r.X.Type().Underlying().(*types.Basic); !ok || bt.Info()&types.IsString == 0 {
		return false
	}
	return derivesFrom(r.X, id, 0) || derivesFrom(r.Y, id, 0)
}

// underIdEquality: block at is dominated by an id-equality edge.
func underIdEquality(at *ssa.BasicBlock, id ssa.Value) bool {
	for _, b := range at.Parent().Blocks {
		for k := range b.Succs {
			if len(b.Succs) == 2 && idEqualityEdge(b, k, id) && eng.EdgeDominates(b, k, at) {
				return true
			}
		}
	}
	return false
}

// foundPtr: every non-nil source of v is "the message with this id": a map lookup keyed by
// id, an element selected under an id-equality branch, or the result of a module function
// for which the same holds w.r.t. the id argument.
func (c *Ctx) foundPtr(v ssa.Value, id ssa.Value, at *ssa.BasicBlock, depth int) bool {
	if depth > 8 {
		return false
	}
	switch x := v.(type) {
	case *ssa.Const:
		return x.IsNil()
	case *ssa.MakeInterface:
		return c.foundPtr(x.X, id, at, depth+1)
	case *ssa.ChangeInterface:
		return c.foundPtr(x.X, id, at, depth+1)
	case *ssa.Lookup:
		return derivesFrom(x.Index, id, 0)
	case *ssa.Extract:
		if l, ok := x.Tuple.(*ssa.Lookup); ok && x.Index == 0 {
			return derivesFrom(l.Index, id, 0)
		}
		if at != nil && underIdEquality(at, id) {
			return true
		}
		return false
	case *ssa.Phi:
		for i, e := range x.Edges {
			pred := x.Block().Preds[i]
			if !c.foundPtr(e, id, pred, depth+1) {
				return false
			}
		}
		return true
	case *ssa.Call:
		g := eng.StaticCallee(x.Common())
		if g == nil || !eng.InModule(g) || g.Blocks == nil {
			return false
		}
		// a runner hands back what the callback it is given returns (found := inMailbox(s, box,
		// mode, func(mb *mbox) *Message { return mb.messages[id] })): the message is looked up
		// in the callback, which captures the id
		if pi := eng.RunnerParam(g); pi >= 0 && pi < len(x.Call.Args) {
			if h, _, isFn := eng.FuncValueOf(x.Call.Args[pi]); isFn && h != nil && len(h.Blocks) > 0 {
				okAll, n := true, 0
				eng.EachInstr(h, func(in ssa.Instruction) {
					if ret, ok := in.(*ssa.Return); ok && in.Parent() == h && len(eng.ReturnResults(ret)) == 1 {
						n++
						if !c.foundPtr(eng.ReturnResults(ret)[0], id, ret.Block(), depth+1) {
							okAll = false
						}
					}
				})
				return okAll && n > 0
			}
		}
		// which parameter receives id?
		var gid ssa.Value
		for i, a := range x.Call.Args {
			if derivesFrom(a, id, 0) && i < len(g.Params) {
				gid = g.Params[i]
			}
		}
		if gid == nil {
			return false
		}
		okAll := true
		n := 0
		eng.EachInstr(g, func(in ssa.Instruction) {
			if ret, ok := in.(*ssa.Return); ok && len(eng.ReturnResults(ret)) == 1 {
				n++
				if !c.foundPtr(eng.ReturnResults(ret)[0], gid, ret.Block(), depth+1) {
					okAll = false
				}
			}
		})
		return okAll && n > 0
	case *ssa.UnOp:
		if x.Op != token.MUL {
			return false
		}
		if cell := eng.CellOf(x.X); cell != nil && !eng.CellEscapes(cell) {
			for _, st := range eng.CellStores(cell) {
				sid := id
				// inside a closure the id is itself a captured cell: derivesFrom handles it
				if !c.foundPtr(st.Val, sid, st.Block(), depth+1) {
					return false
				}
			}
			return true
		}
		// slice element selected under an id-equality branch
		if _, ok := x.X.(*ssa.IndexAddr); ok && at != nil && underIdEquality(at, id) {
			return true
		}
		// slice element at the position an index-finder returned for this id
		if ia, ok := x.X.(*ssa.IndexAddr); ok && c.foundIdx(ia.Index, id) {
			return true
		}
		return false
	}
	return false
}

// foundIdx: v is the result of a module helper that receives id and whose every return is
// either a negative constant (not found) or made under an id-equality branch.
func (c *Ctx) foundIdx(v ssa.Value, id ssa.Value) bool {
	// the same thing inline: a position variable that is a negative constant unless it was
	// assigned under an id-equality branch (pos := -1; for i, m := range … { if m.ID() == id {
	// pos = i; break } })
	if ph, isPhi := eng.StripConv(v).(*ssa.Phi); isPhi {
		nFound := 0
		for i, e := range ph.Edges {
			if k, isC := eng.ConstInt(e); isC && k < 0 {
				continue
			}
			if inner, isPhi2 := e.(*ssa.Phi); isPhi2 && inner != ph {
				// the loop-carried copy of the same variable
				allNeg := true
				for _, e2 := range inner.Edges {
					if k, isC := eng.ConstInt(e2); !(isC && k < 0) && e2 != ssa.Value(ph) && e2 != ssa.Value(inner) {
						allNeg = false
					}
				}
				if allNeg {
					continue
				}
			}
			if i < len(ph.Block().Preds) && underIdEquality(ph.Block().Preds[i], id) {
				nFound++
				continue
			}
			return false
		}
		return nFound > 0
	}
	call, ok := eng.StripConv(v).(*ssa.Call)
	if !ok {
		return false
	}
	g := eng.StaticCallee(call.Common())
	if g == nil || !eng.InModule(g) || len(g.Blocks) == 0 {
		return false
	}
	var gid ssa.Value
	for i, a := range call.Call.Args {
		if derivesFrom(a, id, 0) && i < len(g.Params) {
			gid = g.Params[i]
		}
	}
	if gid == nil {
		return false
	}
	okAll, nFound := true, 0
	eng.EachInstr(g, func(in ssa.Instruction) {
		ret, ok := in.(*ssa.Return)
		if !ok || len(eng.ReturnResults(ret)) != 1 {
			return
		}
		if k, isC := eng.ConstInt(eng.ReturnResults(ret)[0]); isC && k < 0 {
			return
		}
		if underIdEquality(ret.Block(), gid) {
			nFound++
			return
		}
		okAll = false
	})
	return okAll && nFound > 0
}

// nonExhaustiveSelection: the element compared with id on edge (b,k) is a slice element whose
// index is neither the induction variable of a loop over the slice nor the result of an
// index-finder for this id (e.g. it comes from a binary search, which presumes an order the
// store does not maintain). "" when the selection is exhaustive or of another shape.
func (c *Ctx) nonExhaustiveSelection(b *ssa.BasicBlock, k int, id ssa.Value) string {
	r, ok := eng.EdgeRel(b, k)
	if !ok {
		return ""
	}
	other := r.X
	if derivesFrom(r.X, id, 0) {
		other = r.Y
	}
	// other: load of a field of the element, or a getter call on it
	var elem ssa.Value
	switch x := eng.StripConv(other).(type) {
	case *ssa.UnOp:
		if fa, ok := x.X.(*ssa.FieldAddr); ok {
			elem = fa.X
		}
	case *ssa.Call:
		if x.Call.IsInvoke() {
			elem = unwrapIface(x.Call.Value)
		} else if len(x.Call.Args) > 0 {
			elem = x.Call.Args[0]
		}
	}
	if elem == nil {
		return ""
	}
	u, ok := elem.(*ssa.UnOp)
	if !ok || u.Op != token.MUL {
		return ""
	}
	ia, ok := u.X.(*ssa.IndexAddr)
	if !ok {
		return ""
	}
	idx := eng.StripConv(ia.Index)
	if c.foundIdx(idx, id) {
		return ""
	}
	// induction variable: phi with an edge i+1 (or the i+1 itself in the rotated range form)
	isInd := func(v ssa.Value) bool {
		if bo, ok := v.(*ssa.BinOp); ok && bo.Op == token.ADD {
			if k1, isC := eng.ConstInt(bo.Y); isC && k1 == 1 {
				v = bo.X
			}
		}
		ph, ok := v.(*ssa.Phi)
		if !ok {
			return false
		}
		for _, e := range ph.Edges {
			if bo, ok := e.(*ssa.BinOp); ok && bo.Op == token.ADD && bo.X == ssa.Value(ph) {
				if k1, isC := eng.ConstInt(bo.Y); isC && k1 == 1 {
					return true
				}
			}
		}
		return false
	}
	if isInd(idx) {
		return ""
	}
	return "the element compared with the id is selected by an index that is not a scan position (" + c.P.InstrPos(ia) + ")"
}

// foundWitnessAt: like foundWitness for an arbitrary instruction (a store of the success value).
func (c *Ctx) foundWitnessAt(at ssa.Instruction, id ssa.Value) (string, bool) {
	fn := at.Parent()
	for _, b := range fn.Blocks {
		if len(b.Succs) != 2 {
			continue
		}
		for k := 0; k < 2; k++ {
			if !eng.EdgeDominates(b, k, at.Block()) {
				continue
			}
			if v, pol, ok := eng.CondTruth(b, k); ok && pol && c.foundBool(v, id, 0) {
				return "true result of a finder for this id at " + c.P.InstrPos(eng.IfOf(b)), true
			}
			if idEqualityEdge(b, k, id) && c.nonExhaustiveSelection(b, k, id) == "" {
				return "id-equality branch at " + c.P.InstrPos(eng.IfOf(b)), true
			}
			r, ok := eng.EdgeRel(b, k)
			if !ok || r.Op != token.NEQ {
				continue
			}
			x, y := r.X, r.Y
			if eng.IsNilConst(x) {
				x, y = y, x
			}
			if eng.IsNilConst(y) && c.foundPtr(x, id, b, 0) {
				return "non-nil test of the looked-up message at " + c.P.InstrPos(eng.IfOf(b)), true
			}
		}
	}
	return "", false
}

// foundBool: v is the boolean result of a module helper that receives the id and returns
// true only where a found-witness for that id dominates (markSeen(id) bool).
func (c *Ctx) foundBool(v ssa.Value, id ssa.Value, depth int) bool {
	if depth > 2 {
		return false
	}
	call, ok := v.(*ssa.Call)
	if !ok {
		return false
	}
	g := eng.StaticCallee(call.Common())
	if g == nil || !eng.InModule(g) || len(g.Blocks) == 0 || g.Signature.Results().Len() != 1 {
		return false
	}
	if b, isB := g.Signature.Results().At(0).Type().Underlying().(*types.Basic); !isB || b.Kind() != types.Bool {
		return false
	}
	var gid ssa.Value
	for i, a := range call.Call.Args {
		if derivesFrom(a, id, 0) && i < len(g.Params) {
			gid = g.Params[i]
		}
	}
	if gid == nil {
		return false
	}
	okAll, nTrue := true, 0
	eng.EachInstr(g, func(in ssa.Instruction) {
		ret, isRet := in.(*ssa.Return)
		if !isRet || eng.IsRecoverBlock(ret.Block()) {
			return
		}
		res := eng.ReturnResults(ret)
		if bv, isC := eng.ConstBool(res[0]); isC && !bv {
			return
		}
		nTrue++
		if _, ok := c.foundWitnessDepth(ret, gid, depth+1); !ok {
			okAll = false
		}
	})
	return okAll && nTrue > 0
}

// foundFlag: v loads a boolean local (possibly captured by the closure that does the lookup)
// whose every assignment of a value other than false is itself witnessed for the id
// (marked := false; …{ if m := messages[id]; m != nil { …; marked = true } }; if !marked { … }).
func (c *Ctx) foundFlag(v ssa.Value, id ssa.Value) bool {
	ad := eng.LoadAddr(v)
	if ad == nil {
		return false
	}
	cell := eng.CellOf(ad)
	if cell == nil {
		return false
	}
	if b, isB := cell.Type().(*types.Pointer).Elem().Underlying().(*types.Basic); !isB || b.Kind() != types.Bool {
		return false
	}
	n := 0
	for _, st := range eng.CellStores(cell) {
		if bv, isC := eng.ConstBool(st.Val); isC && !bv {
			continue
		}
		n++
		if _, ok := c.foundWitnessAt(st, id); !ok {
			return false
		}
	}
	return n > 0
}

// foundWitness: ret is dominated by an id-equality edge or by `p != nil` with foundPtr(p).
func (c *Ctx) foundWitness(ret *ssa.Return, id ssa.Value) (string, bool) {
	return c.foundWitnessDepth(ret, id, 0)
}

func (c *Ctx) foundWitnessDepth(ret *ssa.Return, id ssa.Value, depth int) (string, bool) {
	fn := ret.Parent()
	for _, b := range fn.Blocks {
		if len(b.Succs) != 2 {
			continue
		}
		for k := 0; k < 2; k++ {
			if !eng.EdgeDominates(b, k, ret.Block()) {
				continue
			}
			if v, pol, ok := eng.CondTruth(b, k); ok && pol && c.foundBool(v, id, depth) {
				return "true result of a finder for this id at " + c.P.InstrPos(eng.IfOf(b)), true
			}
			if v, pol, ok := eng.CondTruth(b, k); ok && pol && c.foundFlag(v, id) {
				return "flag set only where the message was found, tested at " + c.P.InstrPos(eng.IfOf(b)), true
			}
			if idEqualityEdge(b, k, id) {
				if why := c.nonExhaustiveSelection(b, k, id); why != "" {
					continue // not a witness: see checkMutator's report of the return
				}
				return "id-equality branch at " + c.P.InstrPos(eng.IfOf(b)), true
			}
			r, ok := eng.EdgeRel(b, k)
			if ok {
				// position >= 0 returned by an index-finder for this id
				if k0, isC := eng.ConstInt(r.Y); isC && (r.Op == token.GEQ && k0 == 0 || r.Op == token.GTR && k0 == -1 || r.Op == token.NEQ && k0 == -1) && c.foundIdx(r.X, id) {
					return "found-position test at " + c.P.InstrPos(eng.IfOf(b)), true
				}
			}
			if !ok || r.Op != token.NEQ {
				continue
			}
			x, y := r.X, r.Y
			if eng.IsNilConst(x) {
				x, y = y, x
			}
			if !eng.IsNilConst(y) {
				continue
			}
			if c.foundPtr(x, id, b, 0) {
				return "non-nil test of the looked-up message at " + c.P.InstrPos(eng.IfOf(b)), true
			}
		}
	}
	return "", false
}

type mutRes struct {
	bad        []string
	ok         []string
	hasNotExit bool
}

// checkMutator walks the returns of fn (following tuple/err pass-through into module
// callees that receive the id).
func (c *Ctx) checkMutator(sm *storeModel, fn *ssa.Function, id ssa.Value, res *mutRes, seen map[*ssa.Function]bool) {
	if seen[fn] {
		return
	}
	seen[fn] = true
	an := sm.an
	eng.EachInstr(fn, func(in ssa.Instruction) {
		ret, ok := in.(*ssa.Return)
		if !ok || len(eng.ReturnResults(ret)) == 0 {
			return
		}
		if eng.IsRecoverBlock(ret.Block()) && !eng.DefersMayRecover(fn) {
			return
		}
		results := eng.ReturnResults(ret)
		e := results[len(results)-1]
		if u, ok := e.(*ssa.UnOp); ok && u.Op == token.MUL && u.X == ssa.Value(sm.errNotExist) {
			res.hasNotExit = true
			return
		}
		// the result of a runner (mb.update(func() error {…})): what the closure returns; its
		// returns are judged where they stand
		if call, ok := e.(*ssa.Call); ok {
			if g := eng.StaticCallee(call.Common()); g != nil {
				if pi := eng.RunnerParam(g); pi >= 0 && pi < len(call.Call.Args) {
					if h, _, ok := eng.FuncValueOf(call.Call.Args[pi]); ok && h != nil && eng.Outer(h) == eng.Outer(fn) {
						c.checkMutator(sm, h, id, res, seen)
						return
					}
				}
			}
		}
		// pass-through of a module callee that receives the id
		if call, ok := e.(*ssa.Call); ok {
			if g := eng.StaticCallee(call.Common()); g != nil && eng.InModule(g) && g.Blocks != nil {
				for i, a := range call.Call.Args {
					if derivesFrom(a, id, 0) && i < len(g.Params) {
						c.checkMutator(sm, g, g.Params[i], res, seen)
						return
					}
				}
			}
		}
		st := an.Eval(e, eng.Facts{}, ret.Block())
		if !st.MayBeNil() || eng.KnownNonNil(e, ret.Block()) {
			return // definitely an error return
		}
		site := c.P.InstrPos(ret)
		// the result is a variable (possibly assigned inside a closure): each assignment of a
		// value that may be nil must itself be witnessed; assignments of the not-found
		// sentinel provide the ErrNotExist return
		if ad := eng.LoadAddr(e); ad != nil {
			if cell := eng.CellOf(ad); cell != nil && !eng.CellEscapes(cell) {
				sts := eng.CellStores(cell)
				allOK, n := len(sts) > 0, 0
				for _, s2 := range sts {
					if u, ok := s2.Val.(*ssa.UnOp); ok && u.Op == token.MUL && u.X == ssa.Value(sm.errNotExist) {
						res.hasNotExit = true
						continue
					}
					sv := an.Eval(s2.Val, eng.Facts{}, s2.Block())
					if !sv.MayBeNil() {
						continue
					}
					n++
					// witness at the assignment: id as seen from the assigning function
					sid := id
					if s2.Parent() != fn {
						sid = id // captured parameters are followed by derivesFrom through their cells
					}
					if _, ok := c.foundWitnessAt(s2, sid); !ok {
						allOK = false
					}
				}
				if allOK && n > 0 {
					res.ok = append(res.ok, fmt.Sprintf("%s (result variable: every success assignment is witnessed)", site))
					return
				}
			}
		}
		if why, ok := c.foundWitness(ret, id); ok {
			res.ok = append(res.ok, fmt.Sprintf("%s (%s)", site, why))
		} else {
			res.bad = append(res.bad, fmt.Sprintf("%s in %s", site, shortFn(fn)))
		}
	})
}

func checkC07(c *Ctx) {
	r, p := c.R, c.P
	r.Explanation = "Sibling cross-check of every implementer of storage.Store (memory store, file store and the suite's reference stub): (D1) no path of GetMessage returns (nil message, nil error) — decided by a path-sensitive nil-state analysis over all CFG paths, interprocedural through static callees and tuple pass-through, including the 'latest' path; (D2) in MarkSeen and RemoveMessage every return that can report success is dominated by a found-witness (an equality branch on the id or a non-nil test of the message looked up by that id) and a return of storage.ErrNotExist exists; (D3) the memory store's id counter has exactly one writer, an increment of itself under the mailbox write lock, and nothing resets it; (D5) single-message removal deletes the entry keyed by the requested id / unlinks the raw file of the very element found by id."
	r.NotDecided = []string{"list order, 'latest' being the most recent, seen/size/content round trips under arbitrary histories", "id uniqueness in the file store (time+counter)", "observational equivalence of the two back-ends (histories over runtime values)"}
	r.Assumptions = []string{"A-nonnil-elems: message containers never hold nil entries", "package-level error sentinels are non-nil", "library functions returning (T, error) return a usable T when the error is nil"}
	r.Rule("C07/NOTFOUND/get", "no return path of a Store implementer's GetMessage yields (message possibly nil, error possibly nil): a missing message must be reported as storage.ErrNotExist, never as success or a nil result")
	r.Rule("C07/NOTFOUND/mutators", "in MarkSeen/RemoveMessage every return that may report success is dominated by a found-witness for the requested id, and a return of storage.ErrNotExist exists")
	r.Rule("C07/ID/monotone", "mem: mbox.last has exactly one writer, `last = last + 1`, inside a write-locked withMailbox closure; message ids are strconv.Itoa of it; mbox.first likewise only increments")
	r.Rule("C07/ONLY-NAMED", "single-message removal touches only the named message: mem deletes the map key that is the id parameter; file unlinks rawPath() of the element found by id")
	sm := c.stores()
	if !sm.ok {
		return
	}
	r.Floor("C07/NOTFOUND/get", "storage.Store implementers (mem, file, test stub)", len(sm.impls), 1)

	for _, T := range sm.impls {
		name := eng.ShortType(T)
		// D1
		if fn := p.MethodOf(T, "GetMessage"); fn != nil && eng.InModule(fn) && fn.Blocks != nil {
			ts := sm.an.TuplesOf(fn)
			var bad, all []string
			for _, t := range ts {
				all = append(all, tupleStr(t, p))
				if len(t.S) == 2 && t.S[0].MayBeNil() && t.S[1].MayBeNil() {
					bad = append(bad, tupleStr(t, p))
				}
			}
			sort.Strings(bad)
			r.Count("GetMessage return tuples", len(ts))
			if len(ts) == 0 {
				r.Undecided("C07/NOTFOUND/get", name, p.Pos(fn.Pos()), "no return tuples computed")
			} else if len(bad) > 0 {
				r.Bad("C07/NOTFOUND/get", name, p.Pos(fn.Pos()), "GetMessage can return a nil message together with a nil error: %s", strings.Join(bad, "; "))
			} else {
				r.Ok("C07/NOTFOUND/get", name, p.Pos(fn.Pos()), "%d return tuples, none (nil,nil): %s", len(ts), strings.Join(all, "; "))
			}
		} else {
			r.Undecided("C07/NOTFOUND/get", name, "", "GetMessage not found on implementer")
		}
		// D2
		for _, mname := range []string{"MarkSeen", "RemoveMessage"} {
			fn := p.MethodOf(T, mname)
			if fn == nil || !eng.InModule(fn) || fn.Blocks == nil {
				r.Undecided("C07/NOTFOUND/mutators", name+"."+mname, "", "method not found")
				continue
			}
			id := idParam(fn)
			if id == nil {
				r.Undecided("C07/NOTFOUND/mutators", name+"."+mname, p.Pos(fn.Pos()), "no id parameter")
				continue
			}
			res := &mutRes{}
			c.checkMutator(sm, fn, id, res, map[*ssa.Function]bool{})
			switch {
			case len(res.bad) > 0:
				r.Bad("C07/NOTFOUND/mutators", name+"."+mname, p.Pos(fn.Pos()), "can report success without having found the message: return at %s is not dominated by an id-equality branch or a non-nil test of the message looked up by id", strings.Join(res.bad, ", "))
			case !res.hasNotExit:
				r.Bad("C07/NOTFOUND/mutators", name+"."+mname, p.Pos(fn.Pos()), "no return of storage.ErrNotExist")
			default:
				r.Ok("C07/NOTFOUND/mutators", name+"."+mname, p.Pos(fn.Pos()), "success returns witnessed: %s; returns ErrNotExist", strings.Join(res.ok, "; "))
			}
		}
	}
	if len(sm.an.Truncated) > 0 {
		r.Undecided("C07/NOTFOUND/get", "path-bound", "", "path bound exceeded in %v", sm.an.Truncated)
	}
	r.Count("paths enumerated", sm.an.PathsSeen)
	c.c07Mem(sm)
	c.c07FileIDs()
	c.c07File(sm)
	c.c07Latest()
	// the model treats a failed or interrupted add as a no-op: a mailbox directory without an
	// index (which such an add leaves behind) must read as an empty mailbox, as in the memory
	// store (decided by C11's load-path rule)
	nA := c.borrow(func(c2 *Ctx) {
		if fm := c2.fsModel(); fm != nil {
			c2.c11AbsentIndex(fm)
		}
	}, "C11/READ/absent-index", "C07/EMPTY/absent-index", "file store: on the index load path every existence probe is made on the index itself, so a directory without index is an empty mailbox and not an error for list / get / mark-seen / remove / add")
	r.Floor("C07/EMPTY/absent-index", "borrowed obligations", nA, 1)
	c.c07Exhaustive()
	// the ordered-mailbox model evicts the oldest message when the cap is exceeded, in both
	// back-ends alike (decided by C08's cap rule): an eviction that picks its victim by
	// arithmetic on ids instead of walking the live messages diverges from the model — and from
	// the other back-end — as soon as the ids have a gap
	nC := c.borrow(func(c2 *Ctx) {
		if pm2 := c2.pairing(); pm2.ok {
			c2.c08Cap(pm2)
		}
	}, "C08/CAP/order", "C07/CAP/oldest-first", "cap eviction removes the oldest live message, in the memory store through a cursor that advances over the ids, in the file store from the head of the list")
	r.Floor("C07/CAP/oldest-first", "borrowed obligations", nC, 1)
}

func pkgFuncs(p *eng.Prog, rel string) []*ssa.Function {
	var out []*ssa.Function
	for _, fn := range p.Funcs {
		if eng.FuncPkgPath(fn) == eng.Mod+"/"+rel {
			out = append(out, fn)
		}
	}
	return out
}

// isIncrementOf: v == load(field)+1 of the same struct field.
func isIncrementOf(v ssa.Value, f *types.Var) bool {
	b, ok := v.(*ssa.BinOp)
	if !ok || b.Op != token.ADD {
		return false
	}
	if k, ok := eng.ConstInt(b.Y); !ok || k != 1 {
		return false
	}
	return eng.SameField(eng.LoadedField(b.X), f)
}

// c07FileIDs: a file-store message id is made from the clock (plus the process-wide sequence
// number): with a timestamp taken from the message being stored, two messages carrying the same
// Date collide whenever their sequence numbers agree modulo the counter's range, and then share
// an id and a raw file.
func (c *Ctx) c07FileIDs() {
	r, p := c.R, c.P
	r.Rule("C07/ID/file-clock", "file store: the time that goes into a new message's id is time.Now(), not a value taken from the message being stored")
	fFid := p.Field("pkg/storage/file", "Message", "Fid")
	if fFid == nil {
		return
	}
	isTime := func(t types.Type) bool {
		n, ok := t.(*types.Named)
		return ok && n.Obj().Pkg() != nil && n.Obj().Pkg().Path() == "time" && n.Obj().Name() == "Time"
	}
	var fromClock func(v ssa.Value, depth int) bool
	fromClock = func(v ssa.Value, depth int) bool {
		if depth > 5 {
			return false
		}
		v = resolveCell(p.Actual(resolveCell(v)))
		call, ok := v.(*ssa.Call)
		if !ok {
			return false
		}
		switch eng.CalleeName(call.Common()) {
		case "time.Now":
			return true
		case "(time.Time).UTC", "(time.Time).Local", "(time.Time).Round", "(time.Time).Truncate":
			return fromClock(call.Call.Args[0], depth+1)
		}
		return false
	}
	n := 0
	for _, st := range eng.StoresToField(pkgFuncs(p, "pkg/storage/file"), fFid) {
		// the id may reach the record through a constructor parameter (newMessage(id, …))
		idc, ok := resolveCell(p.Actual(resolveCell(st.Store.Val))).(*ssa.Call)
		if !ok {
			continue
		}
		g := eng.StaticCallee(idc.Common())
		if g == nil || eng.FuncPkgPath(g) != eng.Mod+"/pkg/storage/file" {
			continue
		}
		for _, a := range idc.Call.Args {
			if !isTime(a.Type()) {
				continue
			}
			n++
			cons := "id@" + shortFn(eng.Outer(st.Fn))
			if fromClock(a, 0) {
				r.Ok("C07/ID/file-clock", cons, p.InstrPos(st.Store), "the id's timestamp is time.Now()")
			} else {
				r.Bad("C07/ID/file-clock", cons, p.InstrPos(st.Store), "the timestamp that goes into the new message's id is not the clock: two messages that carry the same date get the same id once the sequence counter wraps, and then share one raw file (each reads back the other's content; removing one removes the other's body)")
			}
		}
	}
	r.Floor("C07/ID/file-clock", "id constructions with a timestamp in the file store", n, 1)
}

func (c *Ctx) c07Mem(sm *storeModel) {
	r, p := c.R, c.P
	fLast := p.Field("pkg/storage/mem", "mbox", "last")
	fFirst := p.OptField("pkg/storage/mem", "mbox", "first") // eviction cursor, if the store keeps one
	fMsgs := p.Field("pkg/storage/mem", "mbox", "messages")
	fID := p.Field("pkg/storage/mem", "Message", "id")
	withMailbox := p.OptMethod("pkg/storage/mem", "Store", "withMailbox")
	if fLast == nil || fMsgs == nil || fID == nil {
		return
	}
	fns := pkgFuncs(p, "pkg/storage/mem")
	counters := []*types.Var{fLast}
	if fFirst != nil {
		counters = append(counters, fFirst)
	}
	for _, fld := range counters {
		sts := eng.StoresToField(fns, fld)
		cons := "mem.mbox." + fld.Name()
		if len(sts) != 1 {
			var where []string
			for _, s := range sts {
				where = append(where, p.InstrPos(s.Store))
			}
			r.Bad("C07/ID/monotone", cons, strings.Join(where, ","), "expected exactly one writer (an increment), found %d: a second writer can reset or reuse ids", len(sts))
			continue
		}
		s := sts[0]
		if !isIncrementOf(s.Store.Val, fld) {
			r.Bad("C07/ID/monotone", cons, p.InstrPos(s.Store), "the only writer is not `%s = %s + 1`", fld.Name(), fld.Name())
			continue
		}
		if !c.inWriteLockedClosure(s.Fn, withMailbox) {
			r.Bad("C07/ID/monotone", cons, p.InstrPos(s.Store), "increment is not inside a closure passed to withMailbox with writeLock=true")
			continue
		}
		r.Ok("C07/ID/monotone", cons, p.InstrPos(s.Store), "single writer, increment by one, under the mailbox write lock")
	}
	// id derived from last
	idStores := eng.StoresToField(fns, fID)
	nOK := 0
	for _, s := range idStores {
		okID := false
		if call, ok := s.Store.Val.(*ssa.Call); ok && eng.CalleeName(call.Common()) == "strconv.Itoa" {
			if eng.SameField(eng.LoadedField(call.Call.Args[0]), fLast) {
				okID = true
			}
		}
		// or a load of a cell that holds Itoa(last)
		if ad := eng.LoadAddr(s.Store.Val); ad != nil && !okID {
			if cell := eng.CellOf(ad); cell != nil {
				all := true
				sts := eng.CellStores(cell)
				for _, st := range sts {
					call, ok := st.Val.(*ssa.Call)
					if !(ok && eng.CalleeName(call.Common()) == "strconv.Itoa" && eng.SameField(eng.LoadedField(call.Call.Args[0]), fLast)) {
						all = false
					}
				}
				okID = all && len(sts) > 0
			}
		}
		if okID {
			nOK++
			r.Ok("C07/ID/monotone", "mem.Message.id", p.InstrPos(s.Store), "id is strconv.Itoa(mbox.last)")
		} else {
			r.Bad("C07/ID/monotone", "mem.Message.id", p.InstrPos(s.Store), "message id is not derived from the monotone counter mbox.last")
		}
	}
	r.Floor("C07/ID/monotone", "writers of mem.Message.id", len(idStores), 1)
	// the counter lives in the mbox entry of Store.boxes: an entry must never be removed or
	// replaced, otherwise the next delivery restarts at id 1
	if fBoxes := p.Field("pkg/storage/mem", "Store", "boxes"); fBoxes != nil {
		nIns := 0
		var bad []string
		for _, fn := range fns {
			eng.EachInstr(fn, func(in ssa.Instruction) {
				switch x := in.(type) {
				case *ssa.MapUpdate:
					if eng.SameField(eng.LoadedField(x.Map), fBoxes) {
						nIns++
						// insert only on the lookup-miss edge (never overwrites an entry)
						miss := false
						for _, b := range fn.Blocks {
							for k := 0; k < len(b.Succs) && len(b.Succs) == 2; k++ {
								v, pol, ok := eng.CondTruth(b, k)
								if !ok || pol || !eng.EdgeDominates(b, k, x.Block()) {
									continue
								}
								if e, ok := v.(*ssa.Extract); ok && e.Index == 1 {
									if lk, ok := e.Tuple.(*ssa.Lookup); ok && eng.SameField(eng.LoadedField(lk.X), fBoxes) {
										miss = true
									}
								}
							}
						}
						if !miss {
							bad = append(bad, "mailbox entry overwritten at "+p.InstrPos(in)+" (not on the lookup-miss edge)")
						}
					}
				case *ssa.Call:
					if eng.CalleeName(x.Common()) == "builtin.delete" && eng.SameField(eng.LoadedField(x.Call.Args[0]), fBoxes) {
						bad = append(bad, "mailbox entry deleted at "+p.InstrPos(in))
					}
				case *ssa.Store:
					if fa, ok := x.Addr.(*ssa.FieldAddr); ok && eng.SameField(eng.FieldOfAddr(fa), fBoxes) {
						if _, fresh := fa.X.(*ssa.Alloc); !fresh {
							bad = append(bad, "Store.boxes replaced at "+p.InstrPos(in))
						}
					}
				}
			})
		}
		if len(bad) > 0 {
			r.Bad("C07/ID/monotone", "mem.Store.boxes:entries-persist", "", "%s: the per-mailbox id counter is kept in the entry, so after the mailbox is re-created ids start again at 1 and a stale id addresses a different, newer message", strings.Join(bad, "; "))
		} else {
			r.Ok("C07/ID/monotone", "mem.Store.boxes:entries-persist", "", "%d insert site(s), only on a lookup miss; entries are never deleted or replaced", nIns)
		}
		r.Floor("C07/ID/monotone", "insert sites of Store.boxes", nIns, 1)
	}

	c.fileIDUnique("C07/ID/file-unique")
	// what a mailbox holds is judged from its index on disk, never from a list that was not
	// loaded: a decision taken on an unloaded (empty-looking) list — "nothing here, remove the
	// directory" — destroys a populated mailbox (decided by C10's load-before-use rule)
	nLd := c.borrow(checkC10, "C10/NO-MEMORY-STATE/reads-messages", "C07/FILE/index-loaded-before-use", "every function of the file store that reads mbox.messages does so after the load-if-needed guard")
	r.Floor("C07/FILE/index-loaded-before-use", "borrowed obligations", nLd, 3)
	// 'latest' on an empty mailbox, and any other last-element or fixed-position access in the stores
	c.idxOnlyLenMinus = true
	c.parserIndex("C07/PANIC/last-element/mem", "pkg/storage/mem", nil, "memory store", 1)
	c.parserIndex("C07/PANIC/last-element/file", "pkg/storage/file", nil, "file store", 0)
	c.idxOnlyLenMinus = false
	r.Floor("C07/VISIT/stops", "visitor calls in the stores' VisitMailboxes", c.visitStops("C07/VISIT/stops"), 2)

	// D5: deletes reachable from RemoveMessage are keyed by the id parameter
	rm := p.Method("pkg/storage/mem", "Store", "RemoveMessage")
	if rm == nil {
		return
	}
	nDel := 0
	for fn := range p.ReachModule(rm) {
		if eng.FuncPkgPath(fn) != eng.Mod+"/pkg/storage/mem" {
			continue
		}
		// only functions on the removal path proper: those that receive an id
		eng.EachInstr(fn, func(in ssa.Instruction) {
			call, ok := in.(*ssa.Call)
			if !ok || eng.CalleeName(call.Common()) != "builtin.delete" {
				return
			}
			if !eng.SameField(eng.LoadedField(call.Call.Args[0]), fMsgs) {
				return
			}
			outer := eng.Outer(fn)
			id := idParam(outer)
			if id == nil {
				return // e.g. the enforcer: not an id-addressed removal
			}
			nDel++
			if derivesFrom(call.Call.Args[1], id, 0) {
				r.Ok("C07/ONLY-NAMED", "mem:"+shortFn(outer), p.InstrPos(call), "delete is keyed by the id parameter")
			} else {
				r.Bad("C07/ONLY-NAMED", "mem:"+shortFn(outer), p.InstrPos(call), "delete(mb.messages, k): k is not the id parameter — a removal can hit a different message")
			}
		})
	}
	r.Floor("C07/ONLY-NAMED", "id-addressed deletes in mem", nDel, 1)
}

// inWriteLockedClosure: fn is a closure whose every creation site passes it to withMailbox
// with a constant true writeLock argument, or a function that is only ever reached from such
// closures (a helper a refactoring extracted).
func (c *Ctx) inWriteLockedClosure(fn *ssa.Function, withMailbox *ssa.Function) bool {
	modes := c.withMailboxClosures(withMailbox)
	return lockModeOf(c.P, fn, modes, 0) == "w"
}

// lockModeOf: "w" if every way into fn runs under the mailbox write lock, "r" if under some
// mailbox lock, "" otherwise.
func lockModeOf(p *eng.Prog, fn *ssa.Function, modes map[*ssa.Function]string, depth int) string {
	if m, ok := modes[fn]; ok {
		if m == "?" {
			return ""
		}
		return m
	}
	if depth > 6 {
		return ""
	}
	cs := p.LogicalCallers(fn)
	if len(cs) == 0 {
		return ""
	}
	res := "w"
	for _, c := range cs {
		switch lockModeOf(p, c, modes, depth+1) {
		case "w":
		case "r":
			res = "r"
		default:
			return ""
		}
	}
	return res
}

func (c *Ctx) c07File(sm *storeModel) {
	r, p := c.R, c.P
	rawPath := p.Method("pkg/storage/file", "Message", "rawPath")
	rm := p.Method("pkg/storage/file", "mbox", "removeMessage")
	if rawPath == nil || rm == nil {
		return
	}
	id := idParam(rm)
	n := 0
	eng.EachInstr(rm, func(in ssa.Instruction) {
		call, ok := in.(*ssa.Call)
		if !ok {
			return
		}
		switch eng.CalleeName(call.Common()) {
		case "os.Remove", "os.RemoveAll":
		default:
			return
		}
		n++
		arg := call.Call.Args[0]
		rc, ok := arg.(*ssa.Call)
		if !ok || eng.StaticCallee(rc.Common()) != rawPath {
			r.Bad("C07/ONLY-NAMED", "file:"+shortFn(rm), p.InstrPos(call), "unlinks a path that is not rawPath() of a message")
			return
		}
		if c.foundPtr(rc.Call.Args[0], id, call.Block(), 0) && !eng.IsNilConst(rc.Call.Args[0]) {
			r.Ok("C07/ONLY-NAMED", "file:"+shortFn(rm), p.InstrPos(call), "unlinks rawPath() of the element selected under the id-equality branch")
		} else {
			r.Bad("C07/ONLY-NAMED", "file:"+shortFn(rm), p.InstrPos(call), "the raw file unlinked does not belong to the element found by id")
		}
	})
	// the unlink may sit in a helper that removes "the element at position i" (removeAt(i)):
	// the position removeMessage passes must be the one selected under the id-equality branch
	eng.EachInstr(rm, func(in ssa.Instruction) {
		hc, ok := in.(*ssa.Call)
		if !ok {
			return
		}
		g := eng.StaticCallee(hc.Common())
		if g == nil || g == rm || len(g.Blocks) == 0 || eng.FuncPkgPath(g) != eng.FuncPkgPath(rm) {
			return
		}
		eng.EachInstr(g, func(gi ssa.Instruction) {
			call, ok := gi.(*ssa.Call)
			if !ok || eng.CalleeName(call.Common()) != "os.Remove" {
				return
			}
			rc, ok := call.Call.Args[0].(*ssa.Call)
			if !ok || eng.StaticCallee(rc.Common()) != rawPath {
				return
			}
			// msg.removeRaw(): the helper unlinks rawPath() of the message it is given
			if mp, isP := eng.StripConv(resolveCell(rc.Call.Args[0])).(*ssa.Parameter); isP && mp.Parent() == g {
				pi := eng.ParamIndex(mp)
				if pi < 0 || pi >= len(hc.Call.Args) {
					return
				}
				n++
				cons := "file:" + shortFn(rm) + "→" + shortFn(g)
				if a := hc.Call.Args[pi]; c.foundPtr(a, id, hc.Block(), 0) && !eng.IsNilConst(a) {
					r.Ok("C07/ONLY-NAMED", cons, p.InstrPos(hc), "%s unlinks rawPath() of the message it is given; removeMessage passes the element selected under the id-equality branch", shortFn(g))
				} else {
					r.Bad("C07/ONLY-NAMED", cons, p.InstrPos(hc), "the message handed to %s is not the element found by id: another message's raw file is unlinked", shortFn(g))
				}
				return
			}
			u, ok := resolveCell(rc.Call.Args[0]).(*ssa.UnOp)
			if !ok {
				return
			}
			ia, ok := u.X.(*ssa.IndexAddr)
			if !ok {
				return
			}
			prm, ok := eng.StripConv(ia.Index).(*ssa.Parameter)
			if !ok || prm.Parent() != g {
				return
			}
			pi := eng.ParamIndex(prm)
			if pi < 0 || pi >= len(hc.Call.Args) {
				return
			}
			n++
			cons := "file:" + shortFn(rm) + "→" + shortFn(g)
			if c.foundIdx(hc.Call.Args[pi], id) || underIdEquality(hc.Block(), id) {
				r.Ok("C07/ONLY-NAMED", cons, p.InstrPos(hc), "%s unlinks rawPath() of the element at the position it is given; removeMessage passes the position selected under the id-equality branch", shortFn(g))
			} else {
				r.Bad("C07/ONLY-NAMED", cons, p.InstrPos(hc), "the position handed to %s is not the one of the element found by id: another message's raw file is unlinked", shortFn(g))
			}
		})
	})
	r.Floor("C07/ONLY-NAMED", "raw-file unlinks in file removeMessage", n, 1)
}

// c07Latest: what the "latest" id resolves to must be computed from the live message
// container alone. The id counters of a mailbox (integer fields of its struct) do not shrink
// when the newest message is removed, so an answer derived from them names a dead message
// while older ones are still there.
func (c *Ctx) c07Latest() {
	r, p := c.R, c.P
	r.Rule("C07/LATEST", "in each store's GetMessage the code dominated by the `id == \"latest\"` edge (callees and closures included) reads no integer field of the mailbox struct: 'latest' is selected from the live messages, not derived from the id counters")
	n := 0
	for _, rel := range []string{"pkg/storage/mem", "pkg/storage/file"} {
		get := p.Method(rel, "Store", "GetMessage")
		mboxT := p.Named(rel, "mbox")
		if get == nil || mboxT == nil {
			continue
		}
		st, ok := mboxT.Underlying().(*types.Struct)
		if !ok {
			continue
		}
		counters := map[*types.Var]bool{}
		for i := 0; i < st.NumFields(); i++ {
			if b, ok := st.Field(i).Type().Underlying().(*types.Basic); ok && b.Info()&types.IsInteger != 0 {
				counters[st.Field(i)] = true
			}
		}
		var fns []*ssa.Function
		for fn := range p.SyncReach(get) {
			if eng.FuncPkgPath(fn) == eng.Mod+"/"+rel {
				fns = append(fns, fn)
			}
		}
		sortFuncs(fns)
		for _, fn := range fns {
			for _, b := range fn.Blocks {
				for k := 0; k < len(b.Succs) && len(b.Succs) == 2; k++ {
					er, ok := eng.EdgeRel(b, k)
					if !ok || er.Op != token.EQL {
						continue
					}
					sx, okx := eng.ConstString(er.X)
					sy, oky := eng.ConstString(er.Y)
					if !(okx && sx == "latest") && !(oky && sy == "latest") {
						continue
					}
					n++
					cons := rel[strings.LastIndex(rel, "/")+1:] + ":" + shortFn(fn)
					// region: blocks dominated by the edge, plus everything they call or create
					region := map[*ssa.Function]bool{}
					var bad []string
					visitInstr := func(in ssa.Instruction) {
						if fa, ok := in.(*ssa.FieldAddr); ok {
							if f := eng.FieldOfAddr(fa); f != nil && (counters[f] || counters[f.Origin()]) {
								bad = append(bad, "mbox."+f.Name()+" at "+p.InstrPos(in))
							}
						}
					}
					var addFn func(g *ssa.Function)
					addFn = func(g *ssa.Function) {
						if g == nil || region[g] || eng.FuncPkgPath(g) != eng.Mod+"/"+rel || len(g.Blocks) == 0 {
							return
						}
						for h := range p.SyncReach(g) {
							if eng.FuncPkgPath(h) == eng.Mod+"/"+rel && !region[h] {
								region[h] = true
								eng.EachInstr(h, visitInstr)
							}
						}
					}
					for _, rb := range fn.Blocks {
						if !eng.EdgeDominates(b, k, rb) {
							continue
						}
						for _, in := range rb.Instrs {
							visitInstr(in)
							switch x := in.(type) {
							case *ssa.Call:
								addFn(eng.StaticCallee(x.Common()))
								for _, a := range x.Call.Args {
									if mc, ok := a.(*ssa.MakeClosure); ok {
										addFn(mc.Fn.(*ssa.Function))
									}
								}
							case *ssa.Defer:
								addFn(eng.StaticCallee(x.Common()))
							case *ssa.MakeClosure:
								addFn(x.Fn.(*ssa.Function))
							}
						}
					}
					sort.Strings(bad)
					if len(bad) > 0 {
						r.Bad("C07/LATEST", cons, p.InstrPos(eng.IfOf(b)), "the 'latest' branch reads the mailbox id counter (%s): after the newest message is removed the counter still names it, so 'latest' reports not-found (or a stale message) although older messages are live", strings.Join(bad, ", "))
					} else {
						r.Ok("C07/LATEST", cons, p.InstrPos(eng.IfOf(b)), "the 'latest' branch and its callees (%d functions) read no mailbox id counter", len(region))
					}
				}
			}
		}
	}
	r.Floor("C07/LATEST", "branches on id == \"latest\" in the stores", n, 1)
}

// c07Exhaustive: a lookup by id that compares elements with the id must consider every
// element (a scan, or a map lookup); a shortcut such as a binary search relies on an order
// the stores do not maintain (file ids wrap every 10000 deliveries; the clock can step back).
func (c *Ctx) c07Exhaustive() {
	r, p := c.R, c.P
	r.Rule("C07/FIND/exhaustive", "in the by-id operations of each store, an element compared with the requested id is selected by the position of a scan over the container (or by an index-finder that scans), never by a computed index")
	n := 0
	ord := map[string]int{}
	for _, rel := range []string{"pkg/storage/mem", "pkg/storage/file"} {
		var roots []*ssa.Function
		for _, mn := range []string{"GetMessage", "MarkSeen", "RemoveMessage"} {
			if fn := p.Method(rel, "Store", mn); fn != nil {
				roots = append(roots, fn)
			}
		}
		seen := map[*ssa.Function]bool{}
		var fns []*ssa.Function
		for _, rt := range roots {
			for fn := range p.SyncReach(rt) {
				if eng.FuncPkgPath(fn) == eng.Mod+"/"+rel && !seen[fn] {
					seen[fn] = true
					fns = append(fns, fn)
				}
			}
		}
		sortFuncs(fns)
		for _, fn := range fns {
			for _, prm := range fn.Params {
				if b, ok := prm.Type().Underlying().(*types.Basic); !ok || b.Info()&types.IsString == 0 {
					continue
				}
				for _, b := range fn.Blocks {
					for k := 0; k < len(b.Succs) && len(b.Succs) == 2; k++ {
						if !idEqualityEdge(b, k, prm) {
							continue
						}
						er, _ := eng.EdgeRel(b, k)
						if _, isC := eng.ConstString(er.X); isC {
							continue
						}
						if _, isC := eng.ConstString(er.Y); isC {
							continue // comparison with a literal such as "latest"
						}
						n++
						cons := siteCons(p, eng.IfOf(b), ord, "compare-with:"+prm.Name())
						if why := c.nonExhaustiveSelection(b, k, prm); why != "" {
							r.Bad("C07/FIND/exhaustive", cons, p.InstrPos(eng.IfOf(b)), "%s: a live message whose position does not match the assumed order is reported as not existing while the listing still shows it", why)
						} else {
							r.Ok("C07/FIND/exhaustive", cons, p.InstrPos(eng.IfOf(b)), "element selected by a scan position")
						}
					}
				}
			}
		}
	}
	r.Floor("C07/FIND/exhaustive", "element-vs-id comparisons in the stores", n, 1)
}

// fileIDUnique: a file-store message id names the message's raw file, so two live messages
// with one id share (and overwrite) one body. The id given to a new message therefore has a
// component taken from a process-wide source that only advances — a receive from a package-level
// channel fed by a counting generator, or an atomic add on a package-level counter — and not only
// quantities that come back (the clock's second, the length of the mailbox).
func (c *Ctx) fileIDUnique(rule string) {
	p, r := c.P, c.R
	r.Rule(rule, "file store: the id written into a new message is computed from a process-wide advancing source (receive from a package-level channel whose senders send a counter, or an atomic add on a package-level variable)")
	idm := p.Method(fileRel, "Message", "ID")
	var fID *types.Var
	if idm != nil {
		eng.EachInstr(idm, func(in ssa.Instruction) {
			if ret, ok := in.(*ssa.Return); ok && len(ret.Results) == 1 {
				if f := eng.LoadedField(ret.Results[0]); f != nil {
					fID = f
				}
			}
		})
	}
	if fID == nil {
		r.Undecided(rule, "file.Message.id-field", "", "the field that (*file.Message).ID returns could not be found")
		return
	}
	fns := pkgFuncs(p, fileRel)
	globalOf := func(v ssa.Value) *ssa.Global {
		if u, ok := v.(*ssa.UnOp); ok && u.Op == token.MUL {
			if g, ok := u.X.(*ssa.Global); ok {
				return g
			}
		}
		if g, ok := v.(*ssa.Global); ok {
			return g
		}
		return nil
	}
	var chans []*ssa.Global
	isSource := func(v ssa.Value) bool {
		switch x := v.(type) {
		case *ssa.UnOp:
			if x.Op == token.ARROW {
				ch := x.X
				if prm, isP := eng.StripConv(ch).(*ssa.Parameter); isP {
					ch = eng.StripConv(p.Actual(prm))
				}
				if g := globalOf(ch); g != nil {
					chans = append(chans, g)
					return true
				}
			}
		case *ssa.Call:
			nm := eng.CalleeName(x.Common())
			if strings.HasPrefix(nm, "sync/atomic.Add") || (strings.HasPrefix(nm, "(*sync/atomic.") && strings.HasSuffix(nm, ").Add")) {
				for _, a := range x.Call.Args {
					if globalOf(a) != nil {
						return true
					}
					if fa, ok := a.(*ssa.FieldAddr); ok && globalOf(fa.X) != nil {
						return true
					}
				}
			}
		}
		return false
	}
	n := 0
	for _, s := range eng.StoresToField(fns, fID) {
		n++
		cons := "id-writer@" + shortFn(s.Fn)
		chans = nil
		if !eng.BackSlice(s.Store.Val, isSource) {
			r.Bad(rule, cons, p.InstrPos(s.Store), "the id of a new message is not computed from any process-wide advancing source: within one second (the clock is the only other ingredient) a mailbox-local quantity such as its length returns to an earlier value after a removal or a cap eviction, the id of a message that is still stored is issued again, and the new body is written over the old one's raw file")
			continue
		}
		// the generator behind the channel counts
		bad := ""
		for _, g := range chans {
			sends := 0
			for _, fn := range p.Funcs {
				if !eng.InModule(fn) {
					continue
				}
				eng.EachInstr(fn, func(in ssa.Instruction) {
					sd, ok := in.(*ssa.Send)
					if !ok {
						return
					}
					ch := eng.StripConv(sd.Chan)
					if prm, isP := ch.(*ssa.Parameter); isP {
						ch = nil
						if vals, okA := p.ActualsOf(prm); okA {
							for _, a := range vals {
								if globalOf(eng.StripConv(a)) == g {
									ch = a
								}
							}
						}
					}
					if ch == nil || globalOf(eng.StripConv(ch)) != g {
						return
					}
					sends++
					counts := eng.BackSlice(sd.X, func(v ssa.Value) bool {
						b, ok := v.(*ssa.BinOp)
						if !ok || b.Op != token.ADD {
							return false
						}
						k, ok := b.Y.(*ssa.Const)
						return ok && k.Value != nil && k.Int64() == 1
					})
					if !counts {
						bad = "the value sent on " + g.Name() + " at " + p.InstrPos(in) + " is not a counter (no `+ 1` in its computation)"
					}
				})
			}
			if sends == 0 {
				bad = "nothing in the module sends on " + g.Name()
			}
		}
		if bad != "" {
			r.Bad(rule, cons, p.InstrPos(s.Store), "%s: ids are no longer distinct within a second", bad)
		} else {
			r.Ok(rule, cons, p.InstrPos(s.Store), "the id includes a value from a process-wide counting source")
		}
	}
	r.Floor(rule, "writers of the file message id", n, 1)
}
