package rules

import (
	"go/token"
	"go/types"
	"strings"

	"golang.org/x/tools/go/ssa"

	"ibcheck/eng"
)

// Context-sensitive resolution for the file-store rules. A refactoring may move the
// primitive file operations into helpers that receive the path as a parameter, or into the
// methods of a small carrier type built by a constructor (bufFile{path, file, w}). The rules
// keep talking about "os.Create of the raw path in AddMessage": the primitive inside the
// helper is re-evaluated with the arguments of the call chain that leads to it.

// fsEnv is a calling context: callee was called with args (receiver first), itself from parent.
type fsEnv struct {
	callee *ssa.Function
	args   []ssa.Value
	parent *fsEnv
}

func envOfChain(chain []*ssa.Call) *fsEnv {
	var env *fsEnv
	for _, c := range chain {
		g := eng.StaticCallee(c.Common())
		env = &fsEnv{callee: g, args: c.Call.Args, parent: env}
	}
	return env
}

// ctxValue resolves v as far as the context allows: parameters of the context's callees,
// single-store local cells, and fields of a carrier built by a package constructor.
func ctxValue(v ssa.Value, env *fsEnv) (ssa.Value, *fsEnv) {
	for i := 0; i < 10; i++ {
		if prm, ok := v.(*ssa.Parameter); ok {
			e := env
			for e != nil && e.callee != prm.Parent() {
				e = e.parent
			}
			if e == nil {
				return v, env
			}
			idx := eng.ParamIndex(prm)
			if idx < 0 || idx >= len(e.args) {
				return v, env
			}
			v, env = e.args[idx], e.parent
			continue
		}
		if w := resolveCell(v); w != v {
			v = w
			continue
		}
		if sv, e2, ok := carrierField(v, env); ok {
			v, env = sv, e2
			continue
		}
		return v, env
	}
	return v, env
}

// carrierField: v loads field f of a struct that a module function built and returned
// (directly, or as the receiver/argument bound in env); returns the value stored in that
// field by the constructor together with the constructor's context.
func carrierField(v ssa.Value, env *fsEnv) (ssa.Value, *fsEnv, bool) {
	u, ok := v.(*ssa.UnOp)
	if !ok || u.Op != token.MUL {
		return nil, nil, false
	}
	fa, ok := u.X.(*ssa.FieldAddr)
	if !ok {
		return nil, nil, false
	}
	base, benv := ctxValue(fa.X, env)
	call, idx := eng.CallAndIndex(base)
	if call == nil {
		return nil, nil, false
	}
	rets, g := eng.ReturnedValues(call, idx)
	if g == nil {
		return nil, nil, false
	}
	var found ssa.Value
	n := 0
	for _, rv := range rets {
		if eng.IsNilConst(rv) {
			continue // the error return
		}
		var al *ssa.Alloc
		switch x := rv.(type) {
		case *ssa.Alloc:
			al = x
		case *ssa.UnOp:
			al, _ = x.X.(*ssa.Alloc)
		}
		if al == nil || al.Referrers() == nil {
			return nil, nil, false
		}
		for _, ref := range *al.Referrers() {
			fa2, ok := ref.(*ssa.FieldAddr)
			if !ok || fa2.Field != fa.Field {
				continue
			}
			for _, r2 := range *fa2.Referrers() {
				if st, ok := r2.(*ssa.Store); ok && st.Addr == ssa.Value(fa2) {
					found = st.Val
					n++
				}
			}
		}
	}
	if n != 1 {
		return nil, nil, false
	}
	return found, &fsEnv{callee: g, args: call.Call.Args, parent: benv}, true
}

// fsEv is one primitive file operation as seen from a function: performed by a direct call,
// or inside a package helper the function calls.
type fsEv struct {
	at    ssa.Instruction // the instruction of the examined function (primitive or helper call)
	prim  *ssa.Call       // the primitive call
	op    string          // Create, Remove, Rename, Flush, Close, Copy …
	class []string        // path classes in context (path operations only)
	chain []*ssa.Call     // helper calls from the examined function down to prim's function
	// direct: at == prim. Otherwise the helper's contract:
	direct    bool
	onSuccess bool // the helper reports success (nil error) only after the operation succeeded
	always    bool // the operation runs on every path through the helper
	onFailure bool // the operation runs on every path on which the helper returns a non-nil error
}

var fsEventOps = map[string]string{
	"os.Create": "Create", "os.OpenFile": "OpenFile", "os.Remove": "Remove", "os.RemoveAll": "RemoveAll",
	"os.Rename": "Rename", "io.Copy": "Copy", "(*bufio.Writer).Flush": "Flush", "(*os.File).Close": "Close",
	"bufio.NewWriter": "NewWriter",
}

func (m *fsModel) isFileHelper(g *ssa.Function) bool {
	return g != nil && len(g.Blocks) > 0 && eng.FuncPkgPath(g) == eng.Mod+"/pkg/storage/file"
}

// events lists the operations of fn, looking into package helpers (bounded depth).
func (m *fsModel) events(fn *ssa.Function) []fsEv {
	return m.eventsDepth(fn, 0, map[*ssa.Function]bool{}, nil)
}

// eventsCtx is events for a function that is itself reached through the call chain prefix:
// path classes are evaluated with the arguments of that chain.
func (m *fsModel) eventsCtx(fn *ssa.Function, prefix []*ssa.Call) []fsEv {
	if len(prefix) == 0 {
		return m.events(fn)
	}
	return m.eventsDepth(fn, 0, map[*ssa.Function]bool{}, prefix)
}

func (m *fsModel) eventsDepth(fn *ssa.Function, depth int, busy map[*ssa.Function]bool, prefix []*ssa.Call) []fsEv {
	if depth == 0 && len(prefix) == 0 {
		if evs, ok := m.evMemo[fn]; ok {
			return evs
		}
	}
	var out []fsEv
	busy[fn] = true
	eng.EachInstr(fn, func(in ssa.Instruction) {
		call, ok := in.(*ssa.Call)
		if !ok {
			return
		}
		name := eng.CalleeName(call.Common())
		if op, ok := fsEventOps[name]; ok {
			if name == "os.OpenFile" {
				op = openFileKind(call)
			}
			ev := fsEv{at: in, prim: call, op: op, direct: true}
			for i := 0; i < fsMutators[name]; i++ {
				ev.class = append(ev.class, m.classIn(call.Call.Args[i], envOfChain(prefix), 0))
			}
			out = append(out, ev)
			return
		}
		g := eng.StaticCallee(call.Common())
		if !m.isFileHelper(g) || busy[g] || depth >= 3 {
			return
		}
		for _, ie := range m.eventsDepth(g, depth+1, busy, nil) {
			isAt := func(x ssa.Instruction) bool { return x == ie.at }
			ev := fsEv{at: in, prim: ie.prim, op: ie.op, chain: append([]*ssa.Call{call}, ie.chain...)}
			inner := ie.direct
			ev.onSuccess = (inner || ie.onSuccess) && succeedsOnlyAfterPred(g, isAt)
			ev.always = (inner || ie.always) && (&eng.Search{Target: eng.IsReturnOf(g), Avoid: isAt}).FromEntry(g) == nil
			ev.onFailure = ev.always || (inner || ie.always) && (&eng.Search{Target: func(x ssa.Instruction) bool {
				ret, ok := x.(*ssa.Return)
				if !ok || eng.IsRecoverBlock(ret.Block()) {
					return false
				}
				res := eng.ReturnResults(ret)
				return len(res) > 0 && isErrorType(res[len(res)-1].Type()) && !eng.IsNilConst(res[len(res)-1]) && !eng.KnownNil(res[len(res)-1], ret.Block())
			}, Avoid: isAt}).FromEntry(g) == nil
			env := envOfChain(append(append([]*ssa.Call(nil), prefix...), ev.chain...))
			for i := 0; i < fsMutators["os."+ie.op]; i++ {
				ev.class = append(ev.class, m.classIn(ie.prim.Call.Args[i], env, 0))
			}
			out = append(out, ev)
		}
	})
	delete(busy, fn)
	if depth == 0 && len(prefix) == 0 {
		if m.evMemo == nil {
			m.evMemo = map[*ssa.Function][]fsEv{}
		}
		m.evMemo[fn] = out
	}
	return out
}

// eventsAt returns the events located at instruction in (of the function it belongs to).
func (m *fsModel) eventsAt(in ssa.Instruction) []fsEv {
	var out []fsEv
	for _, ev := range m.events(in.Parent()) {
		if ev.at == in {
			out = append(out, ev)
		}
	}
	return out
}

// succeedsOnlyAfterPred: every return of g whose error result may be nil either returns the
// result of an instruction satisfying isOp, or is dominated by one known to have returned nil
// (or, for an operation without an error result, simply dominated by it).
func succeedsOnlyAfterPred(g *ssa.Function, isOp func(ssa.Instruction) bool) bool {
	if len(g.Blocks) == 0 {
		return false
	}
	var ops []*ssa.Call
	eng.EachInstr(g, func(in ssa.Instruction) {
		if call, ok := in.(*ssa.Call); ok && isOp(in) {
			ops = append(ops, call)
		}
	})
	if len(ops) == 0 {
		return false
	}
	errOf := func(c *ssa.Call) (ssa.Value, bool) {
		if tup, ok := c.Type().(*types.Tuple); ok {
			n := tup.Len()
			if n == 0 {
				return nil, false
			}
			for _, ref := range *c.Referrers() {
				if e, ok := ref.(*ssa.Extract); ok && e.Index == n-1 && isErrorType(e.Type()) {
					return e, true
				}
			}
			return nil, true // has an error result that is dropped
		}
		if isErrorType(c.Type()) {
			return c, true
		}
		return nil, false
	}
	okAll, n := true, 0
	eng.EachInstr(g, func(in ssa.Instruction) {
		ret, ok := in.(*ssa.Return)
		if !ok || eng.IsRecoverBlock(ret.Block()) {
			return
		}
		res := eng.ReturnResults(ret)
		if len(res) == 0 || !isErrorType(res[len(res)-1].Type()) {
			okAll = false
			return
		}
		e := res[len(res)-1]
		if definitelyNonNilErr(e) || eng.KnownNonNil(e, ret.Block()) {
			return
		}
		n++
		for _, c := range ops {
			ev, hasErr := errOf(c)
			if ev != nil && e == ev {
				return
			}
			if eng.Dominates(c, ret) && (!hasErr || ev != nil && eng.KnownNil(ev, ret.Block())) {
				return
			}
		}
		okAll = false
	})
	return okAll && n > 0
}

func isErrorType(t types.Type) bool {
	return types.Identical(t, types.Universe.Lookup("error").Type())
}

// openFileKind classifies an os.OpenFile call by its constant flag argument: "Create" when it
// is the long form of os.Create (O_CREATE|O_TRUNC, writable, neither O_EXCL nor O_APPEND),
// "OpenFile:excl" when it refuses an existing file, "OpenFile" otherwise.
func openFileKind(call *ssa.Call) string {
	if len(call.Call.Args) < 2 {
		return "OpenFile"
	}
	k, ok := eng.ConstInt(call.Call.Args[1])
	if !ok {
		return "OpenFile"
	}
	const (
		oWRONLY = 0x1
		oRDWR   = 0x2
		oAPPEND = 0x400
		oCREATE = 0x40
		oEXCL   = 0x80
		oTRUNC  = 0x200
	)
	switch {
	case k&oEXCL != 0:
		return "OpenFile:excl"
	case k&oCREATE != 0 && k&oTRUNC != 0 && k&oAPPEND == 0 && k&(oWRONLY|oRDWR) != 0:
		return "Create"
	}
	return "OpenFile"
}

// recordField: v loads a field of a per-call record (a struct literal built once, e.g.
// delivery{cap: s.cap}) whose field is stored exactly once in its package, into a freshly
// allocated struct; the result is the value stored there. Anything else gives (nil, false).
func recordField(p *eng.Prog, v ssa.Value) (ssa.Value, bool) {
	f := eng.LoadedField(v)
	if f == nil || f.Pkg() == nil || !strings.HasPrefix(f.Pkg().Path(), eng.Mod+"/") {
		return nil, false
	}
	sts := eng.StoresToField(pkgFuncs(p, strings.TrimPrefix(f.Pkg().Path(), eng.Mod+"/")), f)
	if len(sts) != 1 {
		return nil, false
	}
	if _, fresh := sts[0].Addr.X.(*ssa.Alloc); !fresh {
		return nil, false
	}
	return sts[0].Store.Val, true
}

// isLoadOfThroughRecords: v loads field f, possibly by way of per-call record fields the
// value was parked in (see recordField).
func isLoadOfThroughRecords(p *eng.Prog, v ssa.Value, f *types.Var) bool {
	for i := 0; i < 3; i++ {
		v = eng.StripConv(v)
		if eng.SameField(eng.LoadedField(v), f) {
			return true
		}
		// a local the value was copied to before a closure uses it (limit := s.cap)
		if w := eng.StripConv(resolveCell(v)); w != v {
			if eng.SameField(eng.LoadedField(w), f) {
				return true
			}
			v = w
		}
		w, ok := recordField(p, v)
		if !ok {
			return false
		}
		v = w
	}
	return false
}
