package rules

import (
	"fmt"
	"go/token"
	"go/types"
	"sort"
	"strings"

	"golang.org/x/tools/go/ssa"

	"ibcheck/eng"
)

func init() { Registry["C15"] = checkC15 }

// closeRace evaluates, for one channel's operations, whether a send can race with a close.
// Accepted idiom: send-then-close by the owner (the send is followed in the same block by a
// close of the same channel, i.e. the sender is the closer).
type closeRaceResult struct {
	closes, sends []eng.ChanOp
	racy          []eng.ChanOp
}

func closeRace(ops []eng.ChanOp) closeRaceResult {
	var res closeRaceResult
	for _, o := range ops {
		switch o.Kind {
		case "close":
			res.closes = append(res.closes, o)
		case "send":
			res.sends = append(res.sends, o)
		}
	}
	if len(res.closes) == 0 {
		return res
	}
	for _, s := range res.sends {
		owner := false
		for _, c := range res.closes {
			if c.Fn == s.Fn && c.In.Block() == s.In.Block() && eng.Dominates(s.In, c.In) {
				owner = true
			}
		}
		if !owner {
			res.racy = append(res.racy, s)
		}
	}
	return res
}

func chanShort(k string) string {
	k = strings.ReplaceAll(k, eng.Mod+"/", "")
	if i := strings.Index(k, "@"); i >= 0 && strings.HasPrefix(k, "field:") {
		k = k[:i]
	}
	return k
}

// listenerImpls: non-test implementers of msghub.Listener.
func (c *Ctx) listenerImpls() []*types.Named {
	ln := c.P.Named("pkg/msghub", "Listener")
	if ln == nil {
		return nil
	}
	return c.P.Implementers(ln.Underlying().(*types.Interface), false)
}

func checkC15(c *Ctx) {
	r, p := c.R, c.P
	r.Explanation = "Decides the concurrency skeleton of the message hub and its listeners from the channel-operation inventory and field-access sets: (D1) Hub.history and Hub.listeners are accessed only inside function literals that are handed to the hub's operation queue (or in the constructor), and the queue is received in exactly one function that is started once — so hub state is single-threaded and operations are FIFO; (D2) no implementer of msghub.Listener performs a blocking channel operation in Receive/Delete (the hub goroutine calls them; one full buffer would stall every listener); (D3) no channel that has a close site is sent to from a function other than its closer; (D4) no receive from a data-carrying channel is used as an 'already closed?' test in a function that closes it; (D5) hub broadcast loops are isolated from listener failures only if D2–D4 hold for every implementer."
	r.NotDecided = []string{"exactly-once and order of delivery to the WebSocket peer", "content of the history ring", "timing of slow consumers"}
	r.Assumptions = []string{"msghub.Listener methods are only invoked from hub operations (checked by C15/ACTOR for hub state; the interface is otherwise unexported use)"}
	r.Rule("C15/ACTOR", "Hub.history / Hub.listeners are accessed only in closures enqueued on Hub.opChan (or in New); opChan has exactly one receiving function, started by exactly one go statement")
	r.Rule("C15/NOBLOCK/listener", "Receive and Delete of every msghub.Listener implementer contain no blocking send/receive: each enqueue is a select with default (or another always-ready arm) reporting failure by error")
	r.Rule("C15/CLOSE-RACE", "a channel with a close site has no send site outside the closing function's send-then-close sequence: a concurrent send on a closed channel panics")
	r.Rule("C15/CLOSED-TEST", "a function that closes channel c must not use `select { case <-c: …already closed… default: close(c) }` when c also carries data: with events still buffered the receive succeeds, the channel is never closed and the listener is never removed")
	r.Rule("C15/ISOLATE", "per-listener calls in the hub's broadcast loops cannot panic or block: conjunction of NOBLOCK, CLOSE-RACE and CLOSED-TEST over all Listener implementers")

	// ---- D1 actor
	fHist := p.Field("pkg/msghub", "Hub", "history")
	fList := p.Field("pkg/msghub", "Hub", "listeners")
	fOp := p.Field("pkg/msghub", "Hub", "opChan")
	hubNew := p.Func("pkg/msghub", "New")
	if fHist == nil || fList == nil || fOp == nil || hubNew == nil {
		return
	}
	hubFns := pkgFuncs(p, "pkg/msghub")
	// enqueuers: functions whose func-typed parameter is only sent on opChan
	enqueuer := map[*ssa.Function]bool{}
	for _, fn := range hubFns {
		for _, prm := range fn.Params {
			if _, ok := prm.Type().Underlying().(*types.Signature); !ok || prm.Referrers() == nil {
				continue
			}
			all, n := true, 0
			for _, ref := range *prm.Referrers() {
				switch x := ref.(type) {
				case *ssa.Send:
					n++
					if !eng.SameField(eng.LoadedField(x.Chan), fOp) || x.X != ssa.Value(prm) {
						all = false
					}
				case *ssa.Select:
					n++
					okSel := false
					for _, st := range x.States {
						if st.Send == ssa.Value(prm) && eng.SameField(eng.LoadedField(st.Chan), fOp) {
							okSel = true
						}
					}
					if !okSel {
						all = false
					}
				case *ssa.DebugRef:
				default:
					all = false
				}
			}
			if all && n > 0 {
				enqueuer[fn] = true
			}
		}
	}
	isOpClosure := func(g *ssa.Function) bool {
		par := g.Parent()
		if par == nil {
			return false
		}
		okAll, n := true, 0
		eng.EachInstr(par, func(in ssa.Instruction) {
			mc, ok := in.(*ssa.MakeClosure)
			if !ok || mc.Fn != ssa.Value(g) {
				return
			}
			var uses func(v ssa.Value)
			uses = func(v ssa.Value) {
				for _, ref := range *v.Referrers() {
					switch x := ref.(type) {
					case *ssa.Send:
						n++
						if !eng.SameField(eng.LoadedField(x.Chan), fOp) {
							okAll = false
						}
					case *ssa.Call:
						n++
						if !enqueuer[eng.StaticCallee(x.Common())] {
							okAll = false
						}
					case *ssa.ChangeType:
						uses(x) // conversion to a named func type
					case *ssa.DebugRef:
					default:
						okAll = false
					}
				}
			}
			uses(mc)
		})
		return okAll && n > 0
	}
	// operations given as method values: MakeClosure of a bound-method wrapper handed to the
	// queue; the wrapped method is then an operation body too
	opFns := map[*ssa.Function]bool{}
	for _, fn := range hubFns {
		eng.EachInstr(fn, func(in ssa.Instruction) {
			mc, ok := in.(*ssa.MakeClosure)
			if !ok {
				return
			}
			g, _ := mc.Fn.(*ssa.Function)
			if g == nil || g.Parent() != nil {
				return // function literals are handled by isOpClosure
			}
			okAll, n := true, 0
			var uses func(v ssa.Value)
			uses = func(v ssa.Value) {
				for _, ref := range *v.Referrers() {
					switch x := ref.(type) {
					case *ssa.Send:
						n++
						if !eng.SameField(eng.LoadedField(x.Chan), fOp) {
							okAll = false
						}
					case *ssa.Call:
						n++
						if !enqueuer[eng.StaticCallee(x.Common())] {
							okAll = false
						}
					case *ssa.ChangeType:
						uses(x)
					case *ssa.DebugRef:
					default:
						okAll = false
					}
				}
			}
			uses(mc)
			if okAll && n > 0 {
				opFns[g] = true
				eng.EachInstr(g, func(y ssa.Instruction) {
					if call, ok := y.(*ssa.Call); ok {
						if h := eng.StaticCallee(call.Common()); h != nil {
							opFns[h] = true
						}
					}
				})
			}
		})
	}
	// the queue's consumer: with operations queued as records (a kind plus operands) instead of
	// closures, the operation bodies are what the consumer runs synchronously for a record it
	// received — functions reached from nowhere else run on the hub goroutine only
	consumers := map[*ssa.Function]bool{}
	for k, os := range eng.ChanOps(p.Funcs) {
		if !strings.HasPrefix(k, "field:") || !strings.Contains(k, "msghub.opChan@") {
			continue
		}
		for _, o := range os {
			if o.Kind == "recv" && !p.IsTestSupport(o.Fn) {
				consumers[o.Fn] = true
			}
		}
	}
	recordQueue := false
	if ch, ok := fOp.Type().Underlying().(*types.Chan); ok {
		if _, isFn := ch.Elem().Underlying().(*types.Signature); !isFn {
			recordQueue = true
		}
	}
	nAcc := 0
	badActor := map[string]string{}
	for _, fn := range p.Funcs {
		if p.IsTestSupport(fn) {
			continue
		}
		fn := fn
		eng.EachInstr(fn, func(in ssa.Instruction) {
			fa, ok := in.(*ssa.FieldAddr)
			if !ok {
				return
			}
			f := eng.FieldOfAddr(fa)
			if !eng.SameField(f, fHist) && !eng.SameField(f, fList) {
				return
			}
			if _, fresh := fa.X.(*ssa.Alloc); fresh && fn == hubNew {
				return
			}
			nAcc++
			// inside an operation closure, or in a helper that is only ever reached from
			// operation closures (or the constructor)
			okA, _ := p.OnlyReachedFrom(fn, func(g *ssa.Function) bool {
				return isOpClosure(g) || opFns[g] || g == hubNew || recordQueue && len(consumers) == 1 && consumers[g]
			})
			if recordQueue && len(consumers) == 1 && consumers[fn] {
				okA = true
			}
			// an exported method is an entry point of its own (it is also handed out as a method
			// value — hub.Dispatch registered with the event brokers — which does not make the
			// function that created the value its only caller)
			isEntry := func(g *ssa.Function) bool {
				return g.Parent() == nil && g != hubNew && !opFns[g] && g.Object() != nil && g.Object().Exported() && !(recordQueue && consumers[g])
			}
			if isEntry(fn) {
				okA = false
			}
			// the same for every function on a call chain into fn: a helper that Dispatch calls
			// directly runs on the caller's goroutine, whoever else calls it
			if okA {
				isRoot := func(g *ssa.Function) bool {
					return isOpClosure(g) || opFns[g] || g == hubNew || recordQueue && len(consumers) == 1 && consumers[g]
				}
				seenUp := map[*ssa.Function]bool{}
				var viaEntry func(g *ssa.Function, depth int) bool
				viaEntry = func(g *ssa.Function, depth int) bool {
					if seenUp[g] || depth > 12 {
						return false
					}
					seenUp[g] = true
					if isEntry(g) {
						return true
					}
					if isRoot(g) {
						return false
					}
					for _, cg := range p.LogicalCallers(g) {
						if viaEntry(cg, depth+1) {
							return true
						}
					}
					return false
				}
				if viaEntry(fn, 0) {
					okA = false
				}
			}
			if !okA {
				badActor["Hub."+f.Name()+"@"+shortFn(fn)] = p.InstrPos(in)
			}
		})
	}
	var ks []string
	for k := range badActor {
		ks = append(ks, k)
	}
	sort.Strings(ks)
	for _, k := range ks {
		r.Bad("C15/ACTOR", k, badActor[k], "hub state is touched outside an operation closure queued on Hub.opChan: it races with the hub goroutine and breaks FIFO order")
	}
	if len(ks) == 0 {
		r.Ok("C15/ACTOR", "hub-state", p.Pos(hubNew.Pos()), "%d accesses of Hub.history/listeners, all inside closures enqueued on opChan", nAcc)
	}
	r.Floor("C15/ACTOR", "accesses of Hub.history/listeners", nAcc, 1)
	ops := eng.ChanOps(p.Funcs)
	var opKey string
	for k := range ops {
		if strings.HasPrefix(k, "field:") && strings.Contains(k, "msghub.opChan@") {
			opKey = k
		}
	}
	recvFns := map[*ssa.Function]bool{}
	for _, o := range ops[opKey] {
		if o.Kind == "recv" && !p.IsTestSupport(o.Fn) {
			recvFns[o.Fn] = true
		}
	}
	if len(recvFns) == 1 {
		var rf *ssa.Function
		for f := range recvFns {
			rf = f
		}
		// the receiving function may be a step of the loop (serveNext) called from the one
		// function that is started as the hub goroutine: follow single synchronous callers
		loopFn := rf
		for depth := 0; depth < 3; depth++ {
			cs := p.CallersOf(loopFn)
			if len(cs) != 1 {
				break
			}
			if _, isCall := cs[0].Site.(*ssa.Call); !isCall || eng.FuncPkgPath(cs[0].Caller.Func) != eng.FuncPkgPath(rf) {
				break
			}
			loopFn = cs[0].Caller.Func
		}
		starts := 0
		for _, e := range p.CallersOf(loopFn) {
			if _, isGo := e.Site.(*ssa.Go); isGo {
				starts++
			} else {
				starts += 100
			}
		}
		if starts == 1 {
			r.Ok("C15/ACTOR", "single-consumer", p.Pos(rf.Pos()), "opChan is received only in %s, started by one go statement", shortFn(rf))
		} else {
			r.Bad("C15/ACTOR", "single-consumer", p.Pos(rf.Pos()), "the hub loop %s is not started by exactly one go statement (start sites score %d): two consumers would reorder operations", shortFn(rf), starts)
		}
	} else {
		r.Bad("C15/ACTOR", "single-consumer", p.Pos(hubNew.Pos()), "Hub.opChan is received in %d functions; operations are FIFO only with a single consumer", len(recvFns))
	}

	c.c15RingWalks(hubFns)
	c.c15ReplayRegister(hubFns, fHist, fList)
	c.c15Broadcast(hubFns, fList, fOp)
	c.c15DropFailed(hubFns, fList)
	c.c15FailedIsDropped(hubFns, fList)
	c.c15RecoverEffective(hubFns)
	c.c15QueueCapacity()
	c.c15CloseOnce()
	c.c15Wiring()
	c.c15Identity(hubFns)

	// ---- D2..D4 over listener implementers
	impls := c.listenerImpls()
	r.Floor("C15/NOBLOCK/listener", "msghub.Listener implementers (non-test)", len(impls), 1)
	isolated := true
	for _, T := range impls {
		tname := eng.ShortType(T)
		for _, mn := range []string{"Receive", "Delete"} {
			fn := p.MethodOf(T, mn)
			if fn == nil {
				continue
			}
			cons := tname + "." + mn
			var blocking []string
			// everything the method runs synchronously, in any package of the module: a call
			// back into the hub's own (blocking) enqueue from the hub goroutine is a self-deadlock
			for g := range p.SyncReach(fn) {
				g := g
				eng.EachInstr(g, func(in ssa.Instruction) {
					where := p.InstrPos(in)
					if g != fn {
						where += " in " + shortFn(g)
					}
					switch x := in.(type) {
					case *ssa.Send:
						blocking = append(blocking, "plain send at "+where)
					case *ssa.Select:
						if x.Blocking {
							blocking = append(blocking, "blocking select at "+where)
						}
					case *ssa.UnOp:
						if x.Op.String() == "<-" {
							blocking = append(blocking, "receive at "+where)
						}
					}
				})
			}
			sort.Strings(blocking)
			if len(blocking) > 0 {
				isolated = false
				r.Bad("C15/NOBLOCK/listener", cons, p.Pos(fn.Pos()), "called from the hub goroutine but can block (%s): once this listener's buffer is full the hub stops serving every listener", strings.Join(blocking, "; "))
			} else {
				r.Ok("C15/NOBLOCK/listener", cons, p.Pos(fn.Pos()), "no blocking channel operation")
			}
		}
	}
	// channels owned by listener types: close race and closed-test
	listenerChans := map[string]string{}
	for _, T := range impls {
		for _, oc := range ownedChanFields(T) {
			for k := range ops {
				if _, f := keyField(k, ops[k]); f != nil && eng.SameField(f, oc.f) {
					if _, dup := listenerChans[k]; !dup {
						listenerChans[k] = oc.name
					}
				}
			}
		}
	}
	var lks []string
	for k := range listenerChans {
		lks = append(lks, k)
	}
	sort.Strings(lks)
	for _, k := range lks {
		name := listenerChans[k]
		cr := closeRace(ops[k])
		if len(cr.racy) > 0 {
			isolated = false
			r.Bad("C15/CLOSE-RACE", name, p.InstrPos(cr.racy[0].In), "channel is closed at %s but sent to from %s (a different goroutine: the hub): a send after Close panics; with runOp's recover that aborts the rest of the broadcast", p.InstrPos(cr.closes[0].In), shortFn(cr.racy[0].Fn))
		} else {
			r.Ok("C15/CLOSE-RACE", name, "", "closes=%d sends=%d, no send outside the closer", len(cr.closes), len(cr.sends))
		}
		// closed-test
		bad := ""
		for _, o := range ops[k] {
			if o.Kind != "recv" || !o.InSelect || !o.Discard {
				continue
			}
			closesHere := false
			for _, c2 := range cr.closes {
				if c2.Fn == o.Fn {
					closesHere = true
				}
			}
			if closesHere && len(cr.sends) > 0 {
				bad = p.InstrPos(o.In)
			}
		}
		if bad != "" {
			isolated = false
			r.Bad("C15/CLOSED-TEST", name, bad, "a receive with its value discarded is used to test 'already closed' on a channel that carries events: with events buffered it consumes one, skips RemoveListener/close, and the listener later wedges the hub (also the only guard against a double close from the reader and writer goroutines)")
		} else {
			r.Ok("C15/CLOSED-TEST", name, "", "no receive-as-closed-test")
		}
	}
	r.Floor("C15/CLOSE-RACE", "listener-owned channels", len(lks), 1)
	if isolated {
		r.Ok("C15/ISOLATE", "hub-broadcast", p.Pos(hubNew.Pos()), "all Listener implementers are non-blocking and cannot panic on their queue")
	} else {
		r.Bad("C15/ISOLATE", "hub-broadcast", p.Pos(hubNew.Pos()), "the hub calls Receive/Delete of each listener inline in its broadcast loop; since an implementer can block or panic there (see NOBLOCK/CLOSE-RACE/CLOSED-TEST), one listener can stall the hub or make the others miss the event")
	}
}

// c15ReplayRegister: a joining listener gets the history and becomes a live listener in ONE
// hub operation. The operation queue has several producers; if replay and registration are
// two operations, an event dispatched by another goroutine can be queued between them — it
// enters the history after the replay ran and is broadcast before the listener is
// registered, so the listener never sees it.
func (c *Ctx) c15ReplayRegister(hubFns []*ssa.Function, fHist, fList *types.Var) {
	r, p := c.R, c.P
	r.Rule("C15/ACTOR/replay-register", "every hub operation that inserts into Hub.listeners replays Hub.history (ring.Do) earlier in the same operation, and every operation that replays the history to a listener registers it afterwards: replay and registration are one queued operation (helpers are looked through)")
	inHub := map[*ssa.Function]bool{}
	for _, fn := range hubFns {
		inHub[fn] = true
	}
	// roots: hub functions not statically called by another hub function (queued operations
	// and API methods); helpers are attributed to the roots that call them
	called := map[*ssa.Function]bool{}
	for _, fn := range hubFns {
		eng.EachInstr(fn, func(in ssa.Instruction) {
			if call, ok := in.(*ssa.Call); ok {
				if g := eng.StaticCallee(call.Common()); g != nil && inHub[g] {
					called[g] = true
				}
			}
		})
	}
	var find func(fn *ssa.Function, direct func(ssa.Instruction) bool, depth int) ssa.Instruction
	find = func(fn *ssa.Function, direct func(ssa.Instruction) bool, depth int) ssa.Instruction {
		if depth > 4 {
			return nil
		}
		var at ssa.Instruction
		eng.EachInstr(fn, func(in ssa.Instruction) {
			if direct(in) {
				at = in
				return
			}
			if call, ok := in.(*ssa.Call); ok {
				if g := eng.StaticCallee(call.Common()); g != nil && inHub[g] && g != fn && find(g, direct, depth+1) != nil {
					at = in
				}
			}
		})
		return at
	}
	// fromHistory: a ring node reached from Hub.history (the field itself, a copy, Next() of
	// such a node, a cursor phi over them)
	var fromHistory func(v ssa.Value, depth int) bool
	fromHistory = func(v ssa.Value, depth int) bool {
		if depth > 6 {
			return false
		}
		if eng.SameField(eng.LoadedField(v), fHist) {
			return true
		}
		switch x := v.(type) {
		case *ssa.Phi:
			for _, e := range x.Edges {
				if e != v && fromHistory(e, depth+1) {
					return true
				}
			}
		case *ssa.Call:
			if eng.CalleeName(x.Common()) == "(*container/ring.Ring).Next" || eng.CalleeName(x.Common()) == "(*container/ring.Ring).Prev" {
				return fromHistory(x.Call.Args[0], depth+1)
			}
		case *ssa.UnOp:
			if cell := eng.CellOf(x.X); cell != nil {
				for _, st := range eng.CellStores(cell) {
					if fromHistory(st.Val, depth+1) {
						return true
					}
				}
			}
		}
		return false
	}
	isReplay := func(in ssa.Instruction) bool {
		call, ok := in.(*ssa.Call)
		if !ok {
			return false
		}
		if eng.CalleeName(call.Common()) == "(*container/ring.Ring).Do" && eng.SameField(eng.LoadedField(call.Call.Args[0]), fHist) {
			return true
		}
		// the history handed, as value or by address, to a function together with a callback that
		// relays to a Listener (h.history.replay(func(msg) { l.Receive(msg) })): ring.Do is the
		// special case where the history is the ring itself
		if !call.Call.IsInvoke() {
			hist, relay := false, false
			for _, a := range call.Call.Args {
				if eng.SameField(eng.LoadedField(a), fHist) || eng.SameField(eng.AddrField(a), fHist) {
					hist = true
				}
				if cb, _, isFn := eng.FuncValueOf(a); isFn && cb != nil && len(cb.Blocks) > 0 {
					eng.EachInstr(cb, func(x ssa.Instruction) {
						if cc := eng.CallOf(x); cc != nil && cc.IsInvoke() {
							if n, ok := cc.Value.Type().(*types.Named); ok && n.Obj().Name() == "Listener" && n.Obj().Pkg() != nil && strings.HasSuffix(n.Obj().Pkg().Path(), "/pkg/msghub") {
								relay = true
							}
						}
					})
				}
			}
			if hist && relay {
				return true
			}
		}
		// an explicit walk: a Listener method called with the Value of a history node
		if !call.Call.IsInvoke() {
			return false
		}
		for _, a := range call.Call.Args {
			v := a
			for i := 0; i < 4; i++ {
				switch x := v.(type) {
				case *ssa.TypeAssert:
					v = x.X
					continue
				case *ssa.MakeInterface:
					v = x.X
					continue
				case *ssa.Extract:
					if ta, ok := x.Tuple.(*ssa.TypeAssert); ok {
						v = ta.X
						continue
					}
				}
				break
			}
			if u, ok := v.(*ssa.UnOp); ok {
				if fa, ok := u.X.(*ssa.FieldAddr); ok && eng.FieldOfAddr(fa) != nil && eng.FieldOfAddr(fa).Name() == "Value" && fromHistory(fa.X, 0) {
					return true
				}
			}
		}
		return false
	}
	isInsert := func(in ssa.Instruction) bool {
		mu, ok := in.(*ssa.MapUpdate)
		return ok && eng.SameField(eng.LoadedField(mu.Map), fList)
	}
	n := 0
	for _, fn := range hubFns {
		if called[fn] {
			continue
		}
		rp, ins := find(fn, isReplay, 0), find(fn, isInsert, 0)
		if rp == nil && ins == nil {
			continue
		}
		n++
		cons := shortFn(fn)
		switch {
		case rp != nil && ins != nil && rp.Parent() == ins.Parent() && (eng.Dominates(rp, ins) ||
			(&eng.Search{Target: func(x ssa.Instruction) bool { return x == ins }}).After(rp) != nil &&
				(&eng.Search{Target: func(x ssa.Instruction) bool { return x == rp }}).After(ins) == nil):
			r.Ok("C15/ACTOR/replay-register", cons, p.InstrPos(ins), "history replay at %s and registration in one operation", p.InstrPos(rp))
		case rp != nil && ins != nil:
			r.Bad("C15/ACTOR/replay-register", cons, p.InstrPos(ins), "the listener is registered before (or independently of) the history replay in the same operation: it can receive a live event before older history entries")
		case ins != nil:
			r.Bad("C15/ACTOR/replay-register", cons, p.InstrPos(ins), "a listener is registered in an operation that does not replay the history: if the replay is a separate queued operation, events dispatched by other goroutines between the two are never delivered to this listener")
		default:
			r.Bad("C15/ACTOR/replay-register", cons, p.InstrPos(rp), "the history is replayed to a listener in an operation that does not register it: events queued between this operation and the registration are never delivered to the listener")
		}
	}
	r.Floor("C15/ACTOR/replay-register", "hub operations that replay history or register listeners", n, 1)
}

// c15Broadcast: an operation that relays an event to the listeners does so on every path:
// the relay must not depend on the history being kept (ring.New(0) is nil) or on anything
// else.
func (c *Ctx) c15Broadcast(hubFns []*ssa.Function, fList, fOp *types.Var) {
	r, p := c.R, c.P
	// dispatchers: with operations queued as records, the functions between the receive and the
	// operation bodies — the one that receives from the queue and those that are handed the
	// record — select a body by the record's kind; the operation is the body, not the selector
	dispatcher := map[*ssa.Function]bool{}
	var elemT types.Type
	if ch, ok := fOp.Type().Underlying().(*types.Chan); ok {
		if _, isFn := ch.Elem().Underlying().(*types.Signature); !isFn {
			elemT = ch.Elem()
		}
	}
	isRecord := func(t types.Type) bool {
		if elemT == nil {
			return false
		}
		if pt, ok := t.(*types.Pointer); ok {
			t = pt.Elem()
		}
		et := elemT
		if pt, ok := et.(*types.Pointer); ok {
			et = pt.Elem()
		}
		return types.Identical(t, et)
	}
	if elemT != nil {
		for _, fn := range hubFns {
			for _, prm := range fn.Params {
				if isRecord(prm.Type()) {
					dispatcher[fn] = true
				}
			}
			eng.EachInstr(fn, func(in ssa.Instruction) {
				switch x := in.(type) {
				case *ssa.Select:
					for _, st := range x.States {
						if st.Dir == types.RecvOnly && eng.SameField(eng.LoadedField(st.Chan), fOp) {
							dispatcher[fn] = true
						}
					}
				case *ssa.UnOp:
					if x.Op == token.ARROW && eng.SameField(eng.LoadedField(x.X), fOp) {
						dispatcher[fn] = true
					}
				}
			})
		}
	}
	// selectsByKind: every branch that decides whether site runs compares a field of the
	// record (or the select's arm index / receive status) with a constant
	selectsByKind := func(site ssa.Instruction) (string, bool) {
		fn := site.Parent()
		for _, b := range fn.Blocks {
			if len(b.Succs) != 2 || b == site.Block() || !b.Dominates(site.Block()) {
				continue
			}
			// does the branch matter? some edge reaches a return without passing the site
			matters := false
			for k := range b.Succs {
				if eng.BlockReaches(b.Succs[k], eng.IsReturnOf(fn), func(in ssa.Instruction) bool { return in == site }) != nil {
					matters = true
				}
			}
			if !matters {
				continue
			}
			okCond := false
			if rel, ok := eng.EdgeRel(b, 0); ok {
				x, y := rel.X, rel.Y
				if _, isC := y.(*ssa.Const); !isC {
					x, y = y, x
				}
				if _, isC := y.(*ssa.Const); isC {
					switch v := eng.StripConv(x).(type) {
					case *ssa.Extract:
						if _, isSel := v.Tuple.(*ssa.Select); isSel {
							okCond = true
						}
					case *ssa.UnOp:
						if fa, ok := v.X.(*ssa.FieldAddr); ok && isRecord(fa.X.Type()) {
							okCond = true
						}
					case *ssa.Field:
						if isRecord(v.X.Type()) {
							okCond = true
						}
					}
				}
			}
			if v, _, ok := eng.CondTruth(b, 0); ok && !okCond {
				if ex, isEx := v.(*ssa.Extract); isEx {
					if _, isSel := ex.Tuple.(*ssa.Select); isSel {
						okCond = true
					}
				}
			}
			if !okCond {
				return p.InstrPos(eng.IfOf(b)), false
			}
		}
		return "", true
	}
	r.Rule("C15/ACTOR/broadcast-unconditional", "in every hub operation that relays to the registered listeners (a loop over Hub.listeners calling a Listener method, directly or in a helper), every path from entry to return passes that loop")
	inHub := map[*ssa.Function]bool{}
	for _, fn := range hubFns {
		inHub[fn] = true
	}
	called := map[*ssa.Function]bool{}
	for _, fn := range hubFns {
		eng.EachInstr(fn, func(in ssa.Instruction) {
			if call, ok := in.(*ssa.Call); ok {
				if g := eng.StaticCallee(call.Common()); g != nil && inHub[g] && !dispatcher[fn] {
					called[g] = true
				}
			}
		})
	}
	// relayers: functions that range over Hub.listeners and invoke something per listener
	// (a Listener method or a callback) on every path
	isRange := func(in ssa.Instruction) bool {
		x, ok := in.(*ssa.Range)
		return ok && eng.SameField(eng.LoadedField(x.X), fList)
	}
	always := map[*ssa.Function]bool{}
	relayPoint := func(in ssa.Instruction) bool {
		if isRange(in) {
			return true
		}
		if call, ok := in.(*ssa.Call); ok {
			if g := eng.StaticCallee(call.Common()); g != nil && always[g] {
				return true
			}
		}
		return false
	}
	mentions := func(fn *ssa.Function) ssa.Instruction {
		var at ssa.Instruction
		eng.EachInstr(fn, func(in ssa.Instruction) {
			if relayPoint(in) {
				at = in
			}
		})
		return at
	}
	for changed := true; changed; {
		changed = false
		for _, fn := range hubFns {
			if always[fn] || mentions(fn) == nil {
				continue
			}
			if ret := (&eng.Search{Target: eng.IsReturnOf(fn), Avoid: relayPoint}).FromEntry(fn); ret == nil || eng.IsRecoverBlock(ret.Block()) {
				always[fn] = true
				changed = true
			}
		}
	}
	n := 0
	for _, fn := range hubFns {
		if called[fn] {
			continue
		}
		if dispatcher[fn] {
			// the selector itself: the operation bodies it calls are judged on their own; what
			// decides whether a relaying body runs must be the record's kind alone
			eng.EachInstr(fn, func(in ssa.Instruction) {
				call, ok := in.(*ssa.Call)
				if !ok || isRange(in) {
					if isRange(in) {
						n++
						r.Undecided("C15/ACTOR/broadcast-unconditional", shortFn(fn)+":inline", p.InstrPos(in), "the relay loop sits in the function that selects the operation; the rule judges operation bodies that are functions of their own")
					}
					return
				}
				g := eng.StaticCallee(call.Common())
				if g == nil || !inHub[g] || (mentions(g) == nil && !dispatcher[g]) || g == fn {
					return
				}
				if dispatcher[g] {
					if where, ok := selectsByKind(in); !ok {
						n++
						r.Bad("C15/ACTOR/broadcast-unconditional", shortFn(fn)+"→"+shortFn(g), where, "whether the received operation is run at all depends on something other than the operation itself")
					}
					return
				}
				if where, ok := selectsByKind(in); !ok {
					n++
					r.Bad("C15/ACTOR/broadcast-unconditional", shortFn(fn)+"→"+shortFn(g), where, "the relaying operation %s is run only under a condition other than the queued operation's kind: with such a state or configuration monitors never see the event", shortFn(g))
				}
			})
			continue
		}
		at := mentions(fn)
		if at == nil {
			// a root that reaches a relayer only conditionally through a helper that is not
			// itself an always-relayer
			eng.EachInstr(fn, func(in ssa.Instruction) {
				if call, ok := in.(*ssa.Call); ok {
					if g := eng.StaticCallee(call.Common()); g != nil && inHub[g] && mentions(g) != nil {
						at = in
					}
				}
			})
			if at == nil {
				continue
			}
		}
		n++
		cons := shortFn(fn)
		if always[fn] {
			r.Ok("C15/ACTOR/broadcast-unconditional", cons, p.InstrPos(at), "every path relays to the listeners")
		} else {
			ret := (&eng.Search{Target: eng.IsReturnOf(fn), Avoid: relayPoint}).FromEntry(fn)
			where := p.InstrPos(at)
			if ret != nil {
				where = p.InstrPos(ret)
			}
			r.Bad("C15/ACTOR/broadcast-unconditional", cons, where, "the operation can return without relaying the event to the listeners (a path from entry to a return avoids the loop over Hub.listeners reached at %s): with such a state or configuration (e.g. history length 0, where the ring is nil) monitors never see the event", p.InstrPos(at))
		}
	}
	r.Floor("C15/ACTOR/broadcast-unconditional", "relaying hub operations", n, 1)
}

// c15QueueCapacity: the history is replayed to a joining listener inside one hub operation,
// i.e. before the listener's consumer can have drained anything; with a non-blocking enqueue
// the queue must therefore be able to hold the whole history.

// ownedChan is a channel a listener type owns: a channel-typed field of the type itself or of a
// struct type of its package that it holds by value or by pointer (a queue record shared by the
// listener types, possibly generic).
type ownedChan struct {
	f    *types.Var
	name string
}

func ownedChanFields(T *types.Named) []ownedChan {
	var out []ownedChan
	seen := map[*types.Var]bool{}
	var scan func(n *types.Named, prefix string, depth int)
	scan = func(n *types.Named, prefix string, depth int) {
		st, ok := n.Underlying().(*types.Struct)
		if !ok || depth > 2 {
			return
		}
		for i := 0; i < st.NumFields(); i++ {
			f := st.Field(i)
			if _, isChan := f.Type().Underlying().(*types.Chan); isChan {
				if !seen[f.Origin()] {
					seen[f.Origin()] = true
					out = append(out, ownedChan{f, prefix + "." + f.Name()})
				}
				continue
			}
			t := f.Type()
			if pt, ok := t.(*types.Pointer); ok {
				t = pt.Elem()
			}
			if inner, ok := t.(*types.Named); ok && inner.Obj().Pkg() == T.Obj().Pkg() && inner.Obj() != T.Obj() {
				scan(inner, prefix+"."+f.Name(), depth+1)
			}
		}
	}
	scan(T, eng.ShortType(T), 0)
	return out
}

func (c *Ctx) c15QueueCapacity() {
	r, p := c.R, c.P
	r.Rule("C15/REPLAY/queue-capacity", "the event queue of every msghub.Listener implementer is created with a capacity of (configured history length) + a positive constant")
	fHist := p.Field("pkg/config", "Web", "MonitorHistory")
	if fHist == nil {
		return
	}
	n := 0
	doneQ := map[*types.Var]bool{}
	for _, T := range c.listenerImpls() {
		pkgRel := strings.TrimPrefix(T.Obj().Pkg().Path(), eng.Mod+"/")
		for _, oc := range ownedChanFields(T) {
			f := oc.f
			if doneQ[f.Origin()] {
				continue // a queue record shared by several listener types is examined once
			}
			doneQ[f.Origin()] = true
			ch := f.Type().Underlying().(*types.Chan)
			if s, ok := ch.Elem().Underlying().(*types.Struct); ok && s.NumFields() == 0 {
				continue // a signal channel (chan struct{}), not an event queue
			}
			for _, s := range eng.StoresToField(pkgFuncs(p, pkgRel), f) {
				mk, ok := s.Store.Val.(*ssa.MakeChan)
				if !ok {
					continue
				}
				n++
				cons := oc.name
				if derivesFromHistoryLen(p, mk.Size, fHist, 0) {
					r.Ok("C15/REPLAY/queue-capacity", cons, p.InstrPos(mk), "capacity = history length + constant")
				} else {
					r.Bad("C15/REPLAY/queue-capacity", cons, p.InstrPos(mk), "the queue capacity does not grow with config.Web.MonitorHistory: with a longer history the replay at join overflows the queue before the consumer runs, and the joining monitor is dropped (or, with a blocking enqueue, stalls the hub)")
				}
			}
		}
	}
	r.Floor("C15/REPLAY/queue-capacity", "event queues of Listener implementers", n, 1)
}

// derivesFromHistoryLen: v = h + k (k > 0 constant) where h is a load of the history-length
// configuration field, possibly passed down as a parameter and clamped at zero.
func derivesFromHistoryLen(p *eng.Prog, v ssa.Value, fHist *types.Var, depth int) bool {
	if depth > 6 {
		return false
	}
	v = eng.StripConv(v)
	switch x := v.(type) {
	case *ssa.BinOp:
		if x.Op == token.ADD {
			if positiveConst(p, x.Y) {
				return isHistoryLen(p, x.X, fHist, depth+1)
			}
			if positiveConst(p, x.X) {
				return isHistoryLen(p, x.Y, fHist, depth+1)
			}
		}
	}
	return false
}

func isHistoryLen(p *eng.Prog, v ssa.Value, fHist *types.Var, depth int) bool {
	if depth > 6 {
		return false
	}
	v = eng.StripConv(v)
	if eng.SameField(eng.LoadedField(v), fHist) {
		return true
	}
	switch x := v.(type) {
	case *ssa.Phi:
		// clamp: phi(h, 0)
		some := false
		for _, e := range x.Edges {
			if k, isC := eng.ConstInt(e); isC && k >= 0 {
				continue
			}
			if !isHistoryLen(p, e, fHist, depth+1) {
				return false
			}
			some = true
		}
		return some
	case *ssa.Parameter:
		sites := p.StaticCallSites(x.Parent())
		i := eng.ParamIndex(x)
		if len(sites) == 0 || i < 0 {
			return false
		}
		for _, cs := range sites {
			if p.IsTestSupport(cs.Instr.Parent()) {
				continue
			}
			if i >= len(cs.Args) || !isHistoryLen(p, cs.Args[i], fHist, depth+1) {
				return false
			}
		}
		return true
	case *ssa.UnOp:
		// field of a struct copy (ctx.WebConfig.MonitorHistory): FieldAddr chain handled by LoadedField
		if ad := eng.LoadAddr(v); ad != nil {
			if cell := eng.CellOf(ad); cell != nil && !eng.CellEscapes(cell) {
				sts := eng.CellStores(cell)
				for _, st := range sts {
					if !isHistoryLen(p, st.Val, fHist, depth+1) {
						return false
					}
				}
				return len(sts) > 0
			}
		}
	}
	return false
}

// c15RingWalks: a hand-written walk over the history ring that ends when the cursor is back
// at its start must inspect all N slots. With a = offset of the initial cursor from the
// start S (0 or 1) the only complete shapes are: test after the advance (`p = p.Next();
// p == S → stop`) starting at S itself; or test before the body starting at S.Next() with
// S inspected separately (the shape of ring.Do). A top-tested loop starting at S.Next()
// alone visits N−1 slots, one starting at S none.
func (c *Ctx) c15RingWalks(hubFns []*ssa.Function) {
	r, p := c.R, c.P
	r.Rule("C15/HISTORY/full-cycle", "every loop in pkg/msghub that walks a *ring.Ring with Next() (or Prev()) until it is back at its start and reads slot values inspects all N slots (bottom-tested from the start, or top-tested from start.Next() with the start inspected separately, or a counting loop bounded by Len())")
	isRing := func(t types.Type) bool {
		pt, ok := t.(*types.Pointer)
		if !ok {
			return false
		}
		n, ok := pt.Elem().(*types.Named)
		return ok && n.Obj().Pkg() != nil && n.Obj().Pkg().Path() == "container/ring" && n.Obj().Name() == "Ring"
	}
	// a walk may go forwards (Next) or backwards (Prev); the slot count is the same either
	// way as long as every step of the walk goes the same way
	stepDir := ""
	stepOf := func(v ssa.Value) (ssa.Value, string) {
		if call, ok := v.(*ssa.Call); ok {
			switch eng.CalleeName(call.Common()) {
			case "(*container/ring.Ring).Next":
				return call.Call.Args[0], "Next"
			case "(*container/ring.Ring).Prev":
				return call.Call.Args[0], "Prev"
			}
		}
		return nil, ""
	}
	nextOf := func(v ssa.Value) ssa.Value {
		if base, d := stepOf(v); base != nil && (stepDir == "" || d == stepDir) {
			return base
		}
		return nil
	}
	readsValue := func(node ssa.Value) []ssa.Instruction {
		var out []ssa.Instruction
		if node.Referrers() == nil {
			return nil
		}
		for _, ref := range *node.Referrers() {
			// the slot handed to a visitor (visit(slot)): whoever receives it inspects it
			if call, ok := ref.(*ssa.Call); ok && eng.StaticCallee(call.Common()) == nil && !call.Call.IsInvoke() {
				for _, a := range call.Call.Args {
					if a == node {
						out = append(out, call)
					}
				}
			}
			if fa, ok := ref.(*ssa.FieldAddr); ok && eng.FieldOfAddr(fa) != nil && eng.FieldOfAddr(fa).Name() == "Value" {
				for _, r2 := range *fa.Referrers() {
					if u, ok := r2.(*ssa.UnOp); ok && u.Op == token.MUL {
						out = append(out, u)
					}
				}
			}
		}
		return out
	}
	n := 0
	for _, fn := range hubFns {
		for _, b := range fn.Blocks {
			for _, in := range b.Instrs {
				phi, ok := in.(*ssa.Phi)
				if !ok || !isRing(phi.Type()) || len(phi.Edges) != 2 {
					continue
				}
				var init ssa.Value
				adv := false
				stepDir = ""
				for _, e := range phi.Edges {
					if base, d := stepOf(e); base == ssa.Value(phi) {
						adv = true
						stepDir = d
					} else {
						init = e
					}
				}
				if !adv || init == nil {
					continue
				}
				if base, d := stepOf(init); base != nil && d != stepDir {
					n++
					r.Undecided("C15/HISTORY/full-cycle", "walk@"+shortFn(fn), p.InstrPos(phi), "ring walk that starts one step in one direction and advances in the other: completeness not decided")
					continue
				}
				// nodes of this iteration: phi (offset 0) and every Next(phi) (offset 1)
				var nodes []ssa.Value
				nodes = append(nodes, phi)
				for _, ref := range *phi.Referrers() {
					if call, ok := ref.(*ssa.Call); ok && nextOf(call) == ssa.Value(phi) {
						nodes = append(nodes, call)
					}
				}
				inspects := 0
				for _, nd := range nodes {
					inspects += len(readsValue(nd))
				}
				if inspects == 0 {
					continue // a cursor that is only moved
				}
				n++
				cons := "walk@" + shortFn(fn)
				// the start S and the offset a of the initial cursor
				S, a := init, 0
				if base := nextOf(init); base != nil {
					S, a = base, 1
				}
				sameStart := func(v ssa.Value) bool {
					if v == S || eng.SameLoadNoDom(v, S) {
						return true
					}
					// two loads of the same struct field that this function never stores to
					f := eng.LoadedField(v)
					if f == nil || !eng.SameField(f, eng.LoadedField(S)) {
						return false
					}
					return len(eng.StoresToField([]*ssa.Function{fn}, f)) == 0
				}
				// where is the cursor compared with the start, and on which node (offset t of the
				// compared node from the cursor: 0 = the cursor itself, 1 = cursor.Next())?
				var inspections []ssa.Instruction
				for _, nd := range nodes {
					inspections = append(inspections, readsValue(nd)...)
				}
				type test struct {
					t      int
					bottom bool
					known  bool
				}
				var tests []test
				for _, nd := range nodes {
					for _, ref := range *nd.Referrers() {
						bo, ok := ref.(*ssa.BinOp)
						if !ok || (bo.Op != token.EQL && bo.Op != token.NEQ) {
							continue
						}
						other := bo.Y
						if bo.Y == nd {
							other = bo.X
						}
						if !sameStart(other) {
							continue
						}
						tt := test{t: 1}
						if nd == ssa.Value(phi) {
							tt.t = 0
						}
						// placement relative to the inspections of the same iteration
						before, after := true, true
						for _, ins := range inspections {
							if !blockDominates(bo.Block(), bo, ins) {
								before = false
							}
							if !blockDominates(ins.Block(), ins, bo) {
								after = false
							}
						}
						switch {
						case after && !before:
							tt.bottom, tt.known = true, true
						case before && !after:
							tt.bottom, tt.known = false, true
						}
						tests = append(tests, tt)
					}
				}
				startInspected := len(readsValue(S)) > 0
				switch {
				case len(tests) == 0:
					if c15CountedByLen(phi) {
						r.Ok("C15/HISTORY/full-cycle", cons, p.InstrPos(phi), "counting loop bounded by Len()")
					} else {
						r.Undecided("C15/HISTORY/full-cycle", cons, p.InstrPos(phi), "ring walk whose termination is not a comparison of the cursor with its start nor a count up to Len(): completeness not decided")
					}
				case len(tests) > 1 || !tests[0].known:
					r.Undecided("C15/HISTORY/full-cycle", cons, p.InstrPos(phi), "ring walk with more than one start test, or a test whose position relative to the inspection is not fixed: completeness not decided")
				default:
					tt := tests[0]
					// with N slots, initial offset a and compared node at offset t: a bottom-tested
					// walk makes N iterations iff a+t == 1; a top-tested walk never does (N-(a+t))
					switch {
					case tt.bottom && a+tt.t == 1:
						r.Ok("C15/HISTORY/full-cycle", cons, p.InstrPos(phi), "inspect-then-test walk (start offset %d, tested node offset %d): N slots", a, tt.t)
					case !tt.bottom && a+tt.t == 1 && startInspected:
						r.Ok("C15/HISTORY/full-cycle", cons, p.InstrPos(phi), "test-then-inspect walk with the start inspected separately: N slots")
					case tt.bottom && a+tt.t == 0:
						r.Bad("C15/HISTORY/full-cycle", cons, p.InstrPos(phi), "the walk compares the cursor with the start right after inspecting the start itself: one slot of N")
					case tt.bottom:
						r.Bad("C15/HISTORY/full-cycle", cons, p.InstrPos(phi), "inspect-then-test walk with start offset %d and tested node offset %d: N−1 of N slots", a, tt.t)
					case a+tt.t == 0:
						r.Bad("C15/HISTORY/full-cycle", cons, p.InstrPos(phi), "the walk tests `cursor == start` before the first step from the start itself: it inspects nothing")
					default:
						r.Bad("C15/HISTORY/full-cycle", cons, p.InstrPos(phi), "the walk starts at start.Next() and stops as soon as the cursor equals the start, which is never inspected: N−1 of N slots; an entry sitting in the skipped slot is never found (a deleted message stays in the history replayed to new listeners)")
					}
				}
			}
		}
	}
	r.Floor("C15/HISTORY/full-cycle", "value-inspecting ring walks in pkg/msghub", n, 1)
}

// blockDominates: instruction x (in block bx) is executed before y on every path to y within
// one iteration: x dominates y.
func blockDominates(bx *ssa.BasicBlock, x, y ssa.Instruction) bool {
	_ = bx
	return eng.Dominates(x, y)
}

// c15CountedByLen: the loop of phi also has an integer induction variable compared with
// (*ring.Ring).Len().
func c15CountedByLen(phi *ssa.Phi) bool {
	for _, in := range phi.Block().Instrs {
		q, ok := in.(*ssa.Phi)
		if !ok || q == phi || q.Referrers() == nil {
			continue
		}
		for _, ref := range *q.Referrers() {
			if bo, ok := ref.(*ssa.BinOp); ok && bo.Op == token.LSS {
				if call, ok := bo.Y.(*ssa.Call); ok && eng.CalleeName(call.Common()) == "(*container/ring.Ring).Len" {
					return true
				}
			}
		}
		// counting down: remaining := r.Len(); remaining > 0; remaining--
		fromLen, dec := false, false
		for _, e := range q.Edges {
			if call, ok := e.(*ssa.Call); ok && eng.CalleeName(call.Common()) == "(*container/ring.Ring).Len" {
				fromLen = true
			}
			if bo, ok := e.(*ssa.BinOp); ok && bo.Op == token.SUB && bo.X == ssa.Value(q) {
				if k, isC := eng.ConstInt(bo.Y); isC && k == 1 {
					dec = true
				}
			}
		}
		if fromLen && dec && len(q.Edges) == 2 {
			for _, ref := range *q.Referrers() {
				bo, ok := ref.(*ssa.BinOp)
				if !ok || bo.X != ssa.Value(q) {
					continue
				}
				k, isC := eng.ConstInt(bo.Y)
				if isC && k == 0 && (bo.Op == token.GTR || bo.Op == token.NEQ) {
					return true
				}
			}
		}
	}
	return false
}

// keyField recovers the field of a "field:" channel key from one of its ops.
func keyField(k string, ops []eng.ChanOp) (string, *types.Var) {
	if !strings.HasPrefix(k, "field:") || len(ops) == 0 {
		return k, nil
	}
	o := ops[0]
	var v ssa.Value
	switch x := o.In.(type) {
	case *ssa.Send:
		v = x.Chan
	case *ssa.UnOp:
		v = x.X
	case *ssa.Select:
		v = x.States[o.State].Chan
	case *ssa.Call:
		v = x.Call.Args[0]
	case *ssa.Range:
		v = x.X
	}
	_, f := eng.ChanKey(v, 0)
	return k, f
}

var _ = fmt.Sprintf

// c15DropFailed: the listener the hub unregisters after a relay failed must be the listener
// whose call failed. The key of delete(Hub.listeners, k) is the range variable of the relay
// loop; when it is read through a variable shared by all iterations from a closure that runs
// after the loop (defer, go) it names whichever listener the loop visited last — a healthy
// monitor is dropped and silently stops receiving, while the failed one stays registered.
func (c *Ctx) c15DropFailed(hubFns []*ssa.Function, fList *types.Var) {
	r, p := c.R, c.P
	r.Rule("C15/ISOLATE/drop-the-failed", "every delete(Hub.listeners, k) removes the listener of the current relay-loop iteration: k is the loop's range key, read directly or through a per-iteration variable, never through a variable shared by the iterations from a deferred or go closure")
	rangeKey := func(v ssa.Value) *ssa.Next {
		for i := 0; i < 4; i++ {
			switch x := v.(type) {
			case *ssa.ChangeInterface:
				v = x.X
				continue
			case *ssa.MakeInterface:
				v = x.X
				continue
			}
			break
		}
		ex, ok := v.(*ssa.Extract)
		if !ok || ex.Index != 1 {
			return nil
		}
		nx, ok := ex.Tuple.(*ssa.Next)
		if !ok {
			return nil
		}
		rg, ok := nx.Iter.(*ssa.Range)
		if !ok || !eng.SameField(eng.LoadedField(rg.X), fList) {
			return nil
		}
		return nx
	}
	n := 0
	ord := map[string]int{}
	var all []*ssa.Function
	seen := map[*ssa.Function]bool{}
	var add func(fn *ssa.Function)
	add = func(fn *ssa.Function) {
		if seen[fn] {
			return
		}
		seen[fn] = true
		all = append(all, fn)
		for _, a := range fn.AnonFuncs {
			add(a)
		}
	}
	for _, fn := range hubFns {
		add(fn)
	}
	for _, fn := range all {
		fn := fn
		eng.EachInstr(fn, func(in ssa.Instruction) {
			call, ok := in.(*ssa.Call)
			if !ok || eng.CalleeName(call.Common()) != "builtin.delete" || !eng.SameField(eng.LoadedField(call.Call.Args[0]), fList) {
				return
			}
			n++
			cons := siteCons(p, in, ord, "delete")
			key := call.Call.Args[1]
			if rangeKey(key) != nil {
				// and it is dropped because its own relay failed: the removal lies on the
				// error edge of a Listener call made on that same key in this iteration
				var relays []*ssa.Call
				eng.EachInstr(fn, func(x ssa.Instruction) {
					if rc, ok := x.(*ssa.Call); ok && rc.Call.IsInvoke() && rangeKey(rc.Call.Value) == rangeKey(key) {
						relays = append(relays, rc)
					}
				})
				if len(relays) > 0 {
					guarded := false
					for _, rc := range relays {
						aliases := append(eng.ValueAliases(rc), ssa.Value(rc))
						for _, b := range fn.Blocks {
							for k := 0; k < len(b.Succs) && len(b.Succs) == 2; k++ {
								rel, ok := eng.EdgeRel(b, k)
								if !ok || rel.Op != token.NEQ {
									continue
								}
								x, y := rel.X, rel.Y
								if eng.IsNilConst(x) {
									x, y = y, x
								}
								if !eng.IsNilConst(y) {
									continue
								}
								for _, a := range aliases {
									if a == x && eng.EdgeDominates(b, k, in.Block()) {
										guarded = true
									}
								}
							}
						}
					}
					if !guarded {
						r.Bad("C15/ISOLATE/drop-the-failed", cons, p.InstrPos(in), "the relay loop's listener is removed although its relay did not fail (the removal is not on the error edge of the Listener call made on it): a healthy monitor is unregistered and sees no later event")
						return
					}
				}
				r.Ok("C15/ISOLATE/drop-the-failed", cons, p.InstrPos(in), "the key is the relay loop's own range key, removed on the error edge of its own relay")
				return
			}
			u, ok := key.(*ssa.UnOp)
			var cell *ssa.Alloc
			if ok && u.Op == token.MUL {
				cell = eng.CellOf(u.X)
			}
			if cell == nil {
				// named: v is a listener the caller of the operation named — a parameter, or a field
				// of a record parameter (the queued operation's operand: op.listener)
				named := func(v ssa.Value) bool {
					switch x := v.(type) {
					case *ssa.Parameter:
						return true
					case *ssa.Field:
						_, isP := x.X.(*ssa.Parameter)
						return isP
					case *ssa.UnOp:
						// a parameter of the exported operation, captured by the queued closure
						if cl := eng.CellOf(x.X); cl != nil && x.Op == token.MUL {
							sts := eng.CellStores(cl)
							all := len(sts) > 0
							for _, st := range sts {
								if _, isP := st.Val.(*ssa.Parameter); !isP {
									all = false
								}
							}
							if all {
								return true
							}
						}
						if fa, ok := x.X.(*ssa.FieldAddr); ok && x.Op == token.MUL {
							if _, isP := fa.X.(*ssa.Parameter); isP {
								return true
							}
							// a record parameter spilled to a local
							if al, isA := fa.X.(*ssa.Alloc); isA {
								sts := eng.CellStores(al)
								if len(sts) == 1 {
									_, isP := sts[0].Val.(*ssa.Parameter)
									return isP
								}
							}
						}
					}
					return false
				}
				if prm, isPrm := key.(*ssa.Parameter); isPrm && fn.Parent() == nil {
					// a helper that drops the listener it is given (dropOnError(l, err)): what the
					// hub's own code hands it must be the relay loop's key, or a listener named by
					// the caller of an explicit unregister operation
					var wrong []string
					for _, cs := range p.StaticCallSites(fn) {
						pi := eng.ParamIndex(prm)
						if pi < 0 || pi >= len(cs.Args) {
							continue
						}
						if a := cs.Args[pi]; rangeKey(a) == nil && !named(a) {
							wrong = append(wrong, p.InstrPos(cs.Instr.(ssa.Instruction)))
						}
					}
					if len(wrong) > 0 {
						sort.Strings(wrong)
						r.Undecided("C15/ISOLATE/drop-the-failed", cons, p.InstrPos(in), "the listener handed to %s at %s is neither the relay loop's key nor one the caller named", shortFn(fn), strings.Join(wrong, ", "))
						return
					}
					r.Ok("C15/ISOLATE/drop-the-failed", cons, p.InstrPos(in), "the key is the listener the caller named (the relay loop's key at every call in the hub)")
					return
				}
				if named(key) {
					r.Ok("C15/ISOLATE/drop-the-failed", cons, p.InstrPos(in), "the key is the listener the queued operation names")
					return
				}
				if fv, isFV := key.(*ssa.FreeVar); isFV {
					_ = fv
				}
				r.Undecided("C15/ISOLATE/drop-the-failed", cons, p.InstrPos(in), "cannot tell which listener the key names")
				return
			}
			var nx *ssa.Next
			okStores := true
			for _, st := range eng.CellStores(cell) {
				k := rangeKey(st.Val)
				if k == nil {
					if _, isPrm := st.Val.(*ssa.Parameter); isPrm {
						continue // the variable of an explicit unregister operation
					}
					okStores = false
					continue
				}
				nx = k
			}
			if !okStores {
				r.Undecided("C15/ISOLATE/drop-the-failed", cons, p.InstrPos(in), "the key variable is assigned something other than the relay loop's range key")
				return
			}
			if nx == nil {
				r.Ok("C15/ISOLATE/drop-the-failed", cons, p.InstrPos(in), "the key is the listener the caller named")
				return
			}
			// is the delete run after the loop (deferred / go closure)?
			late := false
			for g := fn; g != nil && g.Parent() != nil; g = g.Parent() {
				eng.EachInstr(g.Parent(), func(pi ssa.Instruction) {
					switch y := pi.(type) {
					case *ssa.Defer:
						if mc, ok := y.Call.Value.(*ssa.MakeClosure); ok && mc.Fn == ssa.Value(g) {
							late = true
						}
					case *ssa.Go:
						if mc, ok := y.Call.Value.(*ssa.MakeClosure); ok && mc.Fn == ssa.Value(g) {
							late = true
						}
					}
				})
			}
			perIter := cell.Block() == nx.Block()
			for _, h := range loopHeaders(cell.Block()) {
				if h == nx.Block() {
					perIter = true
				}
			}
			switch {
			case late && !perIter:
				r.Bad("C15/ISOLATE/drop-the-failed", cons, p.InstrPos(in), "the listener to unregister is read from the loop variable %q, which all iterations share (module language version before 1.22), inside a closure that runs after the relay loop: it removes the listener the loop visited last, not the one that failed — a healthy monitor stops receiving events and the failed one stays registered", cell.Comment)
			default:
				r.Ok("C15/ISOLATE/drop-the-failed", cons, p.InstrPos(in), "the key variable holds the current iteration's listener when the delete runs")
			}
		})
	}
	r.Floor("C15/ISOLATE/drop-the-failed", "delete(Hub.listeners, …) sites", n, 1)
}

// c15Wiring: the hub hears of every stored and every deleted message. The stores and the
// manager announce them through the extension host's AfterMessageStored / AfterMessageDeleted
// brokers; the hub must be registered on both, with callbacks that hand the event to
// Dispatch and Delete respectively. Without the registration (or with a callback that does
// something else) the monitors see nothing, or never learn of deletions — and the unit tests of
// the hub, which call Dispatch and Delete themselves, do not notice.
func (c *Ctx) c15Wiring() {
	r, p := c.R, c.P
	rule := "C15/WIRING"
	r.Rule(rule, "non-test code registers a listener on extension.Events.AfterMessageStored whose callback reaches Hub.Dispatch on every path, and one on AfterMessageDeleted whose callback reaches Hub.Delete on every path")
	fStored := p.Field("pkg/extension", "Events", "AfterMessageStored")
	fDeleted := p.Field("pkg/extension", "Events", "AfterMessageDeleted")
	dispatch := p.Method("pkg/msghub", "Hub", "Dispatch")
	del := p.Method("pkg/msghub", "Hub", "Delete")
	if fStored == nil || fDeleted == nil || dispatch == nil || del == nil {
		return
	}
	for _, w := range []struct {
		f      *types.Var
		target *ssa.Function
		what   string
	}{{fStored, dispatch, "stored"}, {fDeleted, del, "deleted"}} {
		found, good := 0, 0
		site := ""
		for _, fn := range p.Funcs {
			if p.IsTestSupport(fn) || !eng.InModule(fn) {
				continue
			}
			fn := fn
			eng.EachInstr(fn, func(in ssa.Instruction) {
				call, ok := in.(*ssa.Call)
				if !ok || !strings.HasSuffix(eng.CalleeName(call.Common()), ".AddListener") || len(call.Call.Args) < 3 {
					return
				}
				if !eng.SameField(eng.AddrField(call.Call.Args[0]), w.f) {
					return
				}
				cb, _, isFn := eng.FuncValueOf(call.Call.Args[2])
				if !isFn || cb == nil {
					return
				}
				reaches := cb == w.target
				for g := range p.SyncReach(cb) {
					if g == w.target {
						reaches = true
					}
				}
				if !reaches {
					return
				}
				found++
				site = p.InstrPos(in)
				// on every path of the callback
				isTarget := func(x ssa.Instruction) bool {
					cc := eng.CallOf(x)
					return cc != nil && eng.StaticCallee(cc) == w.target
				}
				if cb == w.target {
					good++ // the operation itself is the callback (AddListener(name, hub.Dispatch))
				} else if ret := (&eng.Search{Target: eng.IsReturnOf(cb), Avoid: isTarget, Deep: true}).FromEntry(cb); ret == nil {
					good++
				}
			})
		}
		cons := "hub-hears:" + w.what
		switch {
		case found == 0:
			r.Bad(rule, cons, p.Pos(w.target.Pos()), "no listener registered on extension.Events.%s reaches %s: the hub never hears of %s messages, so no monitor does (the hub's own tests call %s directly and do not notice)", w.f.Name(), shortFn(w.target), w.what, w.target.Name())
		case good == 0:
			r.Bad(rule, cons, site, "the listener registered on extension.Events.%s at %s does not call %s on every path: some %s events never reach the monitors", w.f.Name(), site, shortFn(w.target), w.what)
		default:
			r.Ok(rule, cons, site, "registered at %s; the callback calls %s on every path", site, shortFn(w.target))
		}
	}
}

// positiveConst: v is a positive integer constant, or a parameter that receives one at every
// call site the call graph knows.
func positiveConst(p *eng.Prog, v ssa.Value) bool {
	v = eng.StripConv(v)
	if k, isC := eng.ConstInt(v); isC {
		return k > 0
	}
	prm, ok := v.(*ssa.Parameter)
	if !ok {
		return false
	}
	vals, ok := p.ActualsOf(prm)
	if !ok || len(vals) == 0 {
		return false
	}
	for _, a := range vals {
		if k, isC := eng.ConstInt(eng.StripConv(a)); !isC || k <= 0 {
			return false
		}
	}
	return true
}

// c15Identity: a message is identified by mailbox and id together (ids are unique per mailbox
// only: the memory store numbers every mailbox from 1). Any map the hub keeps over its history
// must be keyed by both; a map keyed by the id alone lets a younger message of another mailbox
// take over the entry, after which the older one can no longer be found and deleted — it stays in
// the history and is replayed to every monitor that joins later.
func (c *Ctx) c15Identity(hubFns []*ssa.Function) {
	r, p := c.R, c.P
	rule := "C15/HISTORY/identity"
	r.Rule(rule, "no map held in the hub's state is keyed by a message id alone (a string key that is the ID field of the event, or the id parameter of Delete): the key names the mailbox too")
	hubT := p.Named("pkg/msghub", "Hub")
	if hubT == nil {
		return
	}
	isIDOnly := func(v ssa.Value) bool {
		v = eng.StripConv(v)
		if f := eng.LoadedField(v); f != nil && f.Name() == "ID" {
			return true
		}
		if fl, ok := v.(*ssa.Field); ok {
			if st, ok := fl.X.Type().Underlying().(*types.Struct); ok && st.Field(fl.Field).Name() == "ID" {
				return true
			}
		}
		var prm *ssa.Parameter
		switch x := v.(type) {
		case *ssa.Parameter:
			prm = x
		case *ssa.UnOp:
			if cell := eng.CellOf(x.X); cell != nil {
				if sts := eng.CellStores(cell); len(sts) == 1 {
					prm, _ = sts[0].Val.(*ssa.Parameter)
				}
			}
		}
		return prm != nil && strings.EqualFold(prm.Name(), "id")
	}
	var all []*ssa.Function
	seen := map[*ssa.Function]bool{}
	for _, fn := range hubFns {
		for _, g := range eng.WithAnons(fn) {
			if !seen[g] {
				seen[g] = true
				all = append(all, g)
			}
		}
	}
	nBad := 0
	ord := map[string]int{}
	for _, fn := range all {
		fn := fn
		eng.EachInstr(fn, func(in ssa.Instruction) {
			var m, key ssa.Value
			switch x := in.(type) {
			case *ssa.MapUpdate:
				m, key = x.Map, x.Key
			case *ssa.Lookup:
				if _, isMap := x.X.Type().Underlying().(*types.Map); isMap {
					m, key = x.X, x.Index
				}
			}
			if m == nil {
				return
			}
			f := eng.LoadedField(m)
			if f == nil {
				return
			}
			// a field of Hub
			isHubField := false
			if st, ok := hubT.Underlying().(*types.Struct); ok {
				for i := 0; i < st.NumFields(); i++ {
					if eng.SameField(st.Field(i), f) {
						isHubField = true
					}
				}
			}
			if !isHubField || !isIDOnly(key) {
				return
			}
			nBad++
			r.Bad(rule, siteCons(p, in, ord, "map:"+f.Name()), p.InstrPos(in), "Hub.%s is keyed by a message id alone: ids are unique only within a mailbox, so two retained messages of different mailboxes share a key, the younger takes the entry over, and the older can no longer be found when it is deleted — it stays in the history and is replayed to monitors that join later", f.Name())
		})
	}
	if nBad == 0 {
		r.Ok(rule, "hub-state", "", "no hub map is keyed by a message id alone")
	}
}

// c15CloseOnce: a listener's signal channel is closed by whichever side gives up first — the hub
// goroutine (queue full), the socket reader, the socket writer. A close that more than one
// goroutine can reach must be made at most once by construction: inside sync.Once.Do, under a
// mutex of the listener, or behind an atomic swap. A check-then-close (`select { case <-done:
// default: close(done) }`) lets two goroutines both pass the check; the second close panics —
// on the hub goroutine that aborts the broadcast for every later listener.
func (c *Ctx) c15CloseOnce() {
	p, r := c.P, c.R
	rule := "C15/LISTENER/close-once"
	r.Rule(rule, "every close of a channel owned by a msghub.Listener implementer that is reachable from more than one goroutine root (go targets, the Listener methods the hub calls, HTTP handlers) runs inside sync.Once.Do, under a mutex of the listener, or on the winning edge of an atomic swap")
	n := 0
	handlers := c.webHandlers()
	for _, T := range c.listenerImpls() {
		pkgPath := T.Obj().Pkg().Path()
		pkgRel := strings.TrimPrefix(pkgPath, eng.Mod+"/")
		fns := pkgFuncs(p, pkgRel)
		// functions run by Once.Do
		onceRun := map[*ssa.Function]bool{}
		var roots []*ssa.Function
		addRoot := func(g *ssa.Function) {
			if g == nil {
				return
			}
			for _, x := range roots {
				if x == g {
					return
				}
			}
			roots = append(roots, g)
		}
		for _, fn := range fns {
			eng.EachInstr(fn, func(in ssa.Instruction) {
				switch x := in.(type) {
				case *ssa.Call:
					if eng.CalleeName(x.Common()) == "(*sync.Once).Do" && len(x.Call.Args) == 2 {
						var g *ssa.Function
						switch a := x.Call.Args[1].(type) {
						case *ssa.MakeClosure:
							g, _ = a.Fn.(*ssa.Function)
						case *ssa.Function:
							g = a
						}
						if g != nil {
							for h := range p.SyncReach(g) {
								onceRun[h] = true
							}
						}
					}
				case *ssa.Go:
					if g := eng.StaticCallee(x.Common()); g != nil {
						addRoot(g)
					} else if mc, ok := x.Call.Value.(*ssa.MakeClosure); ok {
						if g, ok := mc.Fn.(*ssa.Function); ok {
							addRoot(g)
						}
					}
				}
			})
		}
		ln := p.Named("pkg/msghub", "Listener")
		if ln != nil {
			li := ln.Underlying().(*types.Interface)
			for i := 0; i < li.NumMethods(); i++ {
				addRoot(p.MethodOf(T, li.Method(i).Name()))
			}
		}
		for _, h := range handlers {
			if eng.FuncPkgPath(h) == pkgPath {
				addRoot(h)
			}
		}
		for _, oc := range ownedChanFields(T) {
			for _, fn := range fns {
				fn := fn
				eng.EachInstr(fn, func(in ssa.Instruction) {
					call, ok := in.(*ssa.Call)
					if !ok || eng.CalleeName(call.Common()) != "builtin.close" || len(call.Call.Args) != 1 {
						return
					}
					if !eng.SameField(eng.LoadedField(eng.StripConv(call.Call.Args[0])), oc.f) {
						return
					}
					n++
					cons := "close:" + oc.name + "@" + shortFn(fn)
					if onceRun[fn] {
						r.Ok(rule, cons, p.InstrPos(in), "runs inside sync.Once.Do")
						return
					}
					guarded := ""
					for _, b := range fn.Blocks {
						for _, x := range b.Instrs {
							cl, ok := x.(*ssa.Call)
							if !ok || !eng.Dominates(x, in) {
								continue
							}
							nm := eng.CalleeName(cl.Common())
							if nm == "(*sync.Mutex).Lock" || nm == "(*sync.RWMutex).Lock" {
								guarded = "under a mutex taken at " + p.InstrPos(x)
							}
						}
						if len(b.Succs) == 2 {
							for k := 0; k < 2; k++ {
								v, _, ok := eng.CondTruth(b, k)
								if !ok || !eng.EdgeDominates(b, k, in.Block()) {
									continue
								}
								if cl, ok := v.(*ssa.Call); ok && strings.Contains(eng.CalleeName(cl.Common()), "sync/atomic") {
									guarded = "behind the atomic operation at " + p.InstrPos(cl)
								}
							}
						}
					}
					if guarded != "" {
						r.Ok(rule, cons, p.InstrPos(in), "%s", guarded)
						return
					}
					var from []string
					for _, rt := range roots {
						if p.SyncReach(rt)[fn] {
							from = append(from, shortFn(rt))
						}
					}
					sort.Strings(from)
					if len(from) > 1 {
						r.Bad(rule, cons, p.InstrPos(in), "this close can be reached from %d goroutines (%s) and nothing makes it happen only once: two of them giving up at the same moment (a slow peer being dropped by the hub just as it disconnects) both pass any preceding test, the second close panics — on the hub goroutine the broadcast is aborted and later listeners miss the event, on a bare goroutine the process dies", len(from), strings.Join(from, ", "))
					} else {
						r.Ok(rule, cons, p.InstrPos(in), "reachable from one goroutine root only (%s)", strings.Join(from, ", "))
					}
				})
			}
		}
	}
	r.Floor(rule, "closes of listener-owned channels", n, 2)
}

// c15FailedIsDropped: "a listener that fails … is dropped". In the hub's relay loops (a range
// over Hub.listeners) the error of the Listener call made on the loop's listener is tested, and
// from its failure edge the next round of the loop is not reachable without a
// delete(Hub.listeners, ·) on the way. A failed listener that stays registered is handed every
// later event as well: its queue is full or its socket gone, each relay to it fails again, and a
// listener that fails by blocking for its timeout stalls the hub once per event for good.
func (c *Ctx) c15FailedIsDropped(hubFns []*ssa.Function, fList *types.Var) {
	r, p := c.R, c.P
	rule := "C15/ISOLATE/failed-is-dropped"
	r.Rule(rule, "in every range over Hub.listeners the error of the Listener method called on the loop's listener is tested, and its failure edge does not reach the next iteration without delete(Hub.listeners, ·)")
	ln := p.Named("pkg/msghub", "Listener")
	if ln == nil {
		return
	}
	li := ln.Underlying().(*types.Interface)
	isDel := func(x ssa.Instruction) bool {
		call, ok := x.(*ssa.Call)
		return ok && eng.CalleeName(call.Common()) == "builtin.delete" && len(call.Call.Args) == 2 && eng.SameField(eng.LoadedField(call.Call.Args[0]), fList)
	}
	n := 0
	ord := map[string]int{}
	for _, fn := range hubFns {
		fn := fn
		eng.EachInstr(fn, func(in ssa.Instruction) {
			call, ok := in.(*ssa.Call)
			if !ok {
				return
			}
			isL := false
			mname := ""
			if call.Call.IsInvoke() {
				for i := 0; i < li.NumMethods(); i++ {
					if li.Method(i) == call.Call.Method {
						isL = true
						mname = call.Call.Method.Name()
					}
				}
			} else if eng.StaticCallee(call.Common()) == nil {
				// broadcast(send func(Listener) error): the relay is a function value that is
				// handed the loop's listener and answers with an error
				if res := call.Call.Signature().Results(); res.Len() == 1 && isErrorType(res.At(0).Type()) {
					for _, a := range call.Call.Args {
						if types.Identical(a.Type(), ln) {
							isL = true
							mname = "callback"
						}
					}
				}
			}
			if !isL {
				return
			}
			// inside a range over the listener set
			var next *ssa.Next
			for _, h := range loopHeaders(call.Block()) {
				for _, hi := range h.Instrs {
					if nx, isN := hi.(*ssa.Next); isN {
						if rg, isR := nx.Iter.(*ssa.Range); isR && eng.SameField(eng.LoadedField(rg.X), fList) {
							next = nx
						}
					}
				}
			}
			if next == nil {
				return
			}
			n++
			cons := siteCons(p, in, ord, "relay:"+mname)
			var errV ssa.Value = call
			if tup, isT := call.Type().(*types.Tuple); isT {
				errV = extractOf(call, tup.Len()-1)
			}
			if errV == nil {
				r.Bad(rule, cons, p.InstrPos(in), "the listener's error is discarded: a failed listener is never dropped")
				return
			}
			aliases := append(eng.ValueAliases(errV), errV)
			var starts []*ssa.BasicBlock
			for _, b := range fn.Blocks {
				for k := 0; k < len(b.Succs) && len(b.Succs) == 2; k++ {
					rel, okR := eng.EdgeRel(b, k)
					if !okR || rel.Op != token.NEQ {
						continue
					}
					x, y := rel.X, rel.Y
					if eng.IsNilConst(x) {
						x, y = y, x
					}
					if !eng.IsNilConst(y) {
						continue
					}
					for _, a := range aliases {
						if a == x {
							starts = append(starts, b.Succs[k])
						}
					}
				}
			}
			if len(starts) == 0 && errV.Referrers() != nil {
				// handed to a helper that answers for it: dropOnError(l, err)
				for _, ref := range *errV.Referrers() {
					hc, isC := ref.(*ssa.Call)
					if !isC {
						continue
					}
					g := eng.StaticCallee(hc.Common())
					if g == nil || !eng.InModule(g) || len(g.Blocks) == 0 {
						continue
					}
					for ai, a := range hc.Call.Args {
						if a != errV || ai >= len(g.Params) {
							continue
						}
						prm := g.Params[ai]
						okH, tested := true, false
						for _, b := range g.Blocks {
							for k := 0; k < len(b.Succs) && len(b.Succs) == 2; k++ {
								rel, okR := eng.EdgeRel(b, k)
								if !okR || rel.Op != token.NEQ {
									continue
								}
								x, y := rel.X, rel.Y
								if eng.IsNilConst(x) {
									x, y = y, x
								}
								if !eng.IsNilConst(y) || x != ssa.Value(prm) {
									continue
								}
								tested = true
								if (&eng.Search{Target: eng.IsReturnOf(g), Avoid: isDel, Deep: true}).FromBlockStart(b.Succs[k]) != nil {
									okH = false
								}
							}
						}
						if tested && okH {
							r.Ok(rule, cons, p.InstrPos(in), "the error is handed to %s, whose failure edge removes the listener", shortFn(g))
							return
						}
					}
				}
			}
			if len(starts) == 0 {
				r.Bad(rule, cons, p.InstrPos(in), "the error of the relay to this listener is never acted on (no branch depends on it): a listener that failed stays registered")
				return
			}
			for _, sb := range starts {
				s := &eng.Search{Target: func(x ssa.Instruction) bool { return x == ssa.Instruction(next) }, Avoid: isDel, Deep: true}
				if hit := s.FromBlockStart(sb); hit != nil {
					r.Bad(rule, cons, p.InstrPos(in), "from the failure edge of this relay the loop goes on to the next listener without removing the failed one from Hub.listeners: it is handed every later event too, fails each time, and — failing by timeout — holds the hub up once per event")
					return
				}
			}
			r.Ok(rule, cons, p.InstrPos(in), "the failure edge removes the listener before the next iteration")
		})
	}
	r.Floor(rule, "Listener calls in relay loops", n, 1)
}

// c15RecoverEffective: the hub goroutine survives a panicking listener only if the recover that
// is meant to stop the panic is called directly by a deferred function. recover() inside a helper
// that the deferred function calls always returns nil: the panic goes on through Hub.Start, the
// hub goroutine dies, no listener sees another event and every producer blocks.
func (c *Ctx) c15RecoverEffective(hubFns []*ssa.Function) {
	r, p := c.R, c.P
	rule := "C15/HUB/recover-effective"
	r.Rule(rule, "every recover() in pkg/msghub is called by a function that is itself the operand of a defer statement (a function literal or a named function deferred directly)")
	deferred := map[*ssa.Function]bool{}
	for _, fn := range hubFns {
		eng.EachInstr(fn, func(in ssa.Instruction) {
			df, ok := in.(*ssa.Defer)
			if !ok {
				return
			}
			if g := eng.StaticCallee(df.Common()); g != nil {
				deferred[g] = true
			}
			if mc, ok := df.Call.Value.(*ssa.MakeClosure); ok {
				if g, ok := mc.Fn.(*ssa.Function); ok {
					deferred[g] = true
				}
			}
		})
	}
	n := 0
	for _, fn := range hubFns {
		fn := fn
		eng.EachInstr(fn, func(in ssa.Instruction) {
			call, ok := in.(*ssa.Call)
			if !ok || eng.CalleeName(call.Common()) != "builtin.recover" {
				return
			}
			n++
			cons := "recover@" + shortFn(fn)
			if deferred[fn] {
				r.Ok(rule, cons, p.InstrPos(in), "called directly by a deferred function")
			} else {
				r.Bad(rule, cons, p.InstrPos(in), "recover() is called in %s, which no defer statement names: it returns nil whatever is unwinding, so a listener that panics once kills the hub goroutine — no monitor receives another event and producers block for ever", shortFn(fn))
			}
		})
	}
	r.Floor(rule, "recover() calls in the hub", n, 1)
}
