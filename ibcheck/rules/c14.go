package rules

import (
	"encoding/json"
	"fmt"
	"go/ast"
	"go/token"
	"go/types"
	"reflect"
	"sort"
	"strings"

	"golang.org/x/tools/go/ssa"

	"ibcheck/eng"
)

func init() { Registry["C14"] = checkC14 }

// webHandlers discovers the functions converted to web.Handler anywhere in the module
// (route tables), in deterministic order.
func (c *Ctx) webHandlers() []*ssa.Function {
	hn := c.P.Named("pkg/server/web", "Handler")
	if hn == nil {
		return nil
	}
	seen := map[*ssa.Function]bool{}
	var out []*ssa.Function
	for _, fn := range c.P.Funcs {
		if c.P.IsTestSupport(fn) {
			continue
		}
		eng.EachInstr(fn, func(in ssa.Instruction) {
			ct, ok := in.(*ssa.ChangeType)
			if !ok || !types.Identical(ct.Type(), hn) {
				return
			}
			if h, ok := ct.X.(*ssa.Function); ok && !seen[h] {
				seen[h] = true
				out = append(out, h)
			}
		})
	}
	sort.Slice(out, func(i, j int) bool { return out[i].String() < out[j].String() })
	return out
}

// usesAsDeref: instruction in dereferences / calls through value v.
func usesAsDeref(in ssa.Instruction, v ssa.Value) bool {
	switch x := in.(type) {
	case *ssa.Call, *ssa.Defer, *ssa.Go:
		cc := x.(ssa.CallInstruction).Common()
		if cc.IsInvoke() && cc.Value == v {
			return true
		}
		for _, a := range cc.Args {
			if a == v {
				return true
			}
		}
	case *ssa.FieldAddr:
		return x.X == v
	case *ssa.Field:
		return x.X == v
	case *ssa.UnOp:
		return x.Op == token.MUL && x.X == v
	case *ssa.TypeAssert:
		return false
	}
	return false
}

func checkC14(c *Ctx) {
	r, p := c.R, c.P
	r.Explanation = "Decides the plumbing between the HTTP handlers, the message manager, the stores and the bundled Go client: (D1) on every CFG path of every web.Handler that obtains a message or source reader from the Manager, each dereference of the result happens only where the result is provably non-nil — given the nil-state tuples of StoreManager.GetMessage/SourceReader computed over all Store implementers (C07/D1), so a missing message cannot panic a handler; (D2) on every path on which a Manager call's error may be storage.ErrNotExist the handler neither returns a non-nil error (which web.Handler turns into 500) nor returns success without writing 404; (D3) every (method, path) the client sends matches a registered route, a body is sent where the matched handler decodes one, and the body literal sets the JSON field the handler requires; (D4) every mailbox-name argument passed to a Manager method in pkg/rest and pkg/webui flows from Manager.MailboxForAddress; (D5) the JSON literals of the list/show handlers set every exported field of their model struct, each from the like-named metadata field."
	r.NotDecided = []string{"equality of returned data with store contents", "URL-escaping of arbitrary mailbox names (QueryEscape in a path segment, mux path cleaning)", "base-path configurations", "behaviour of the WebSocket monitors (C15)"}
	r.Assumptions = []string{"A-nonnil-elems", "package-level error sentinels are non-nil", "library functions returning (T, error) return a usable T when the error is nil", "web.Handler.ServeHTTP answers 500 for a non-nil handler error (checked: http.Error with StatusInternalServerError)"}
	r.Rule("C14/NIL/handlers", "every use of a Manager.GetMessage/SourceReader result as receiver, argument or field base occurs only on paths where it is non-nil, given the producer's (value, error) nil-state tuples over all Store implementers")
	r.Rule("C14/404", "on every path where the error of Manager.GetMessage/SourceReader/MarkSeen/RemoveMessage may be storage.ErrNotExist, the handler does not return a non-nil error and does not return nil without calling http.NotFound")
	r.Rule("C14/ROUTES/client", "each client request (method, uri template) matches a route registered by rest.SetupRoutes under the /api/ prefix; a body is sent iff the matched handler decodes req.Body; the body sets the JSON field the handler tests")
	r.Rule("C14/NAME", "mailbox-name arguments of Manager methods in pkg/rest and pkg/webui flow from the result of Manager.MailboxForAddress")
	r.Rule("C14/FIELDS", "composite literals of the JSON model structs in handlers set every exported field; fields that mirror MessageMetadata are read from the like-named field")
	sm := c.stores()
	if !sm.ok {
		return
	}
	mgr := p.Named("pkg/message", "Manager")
	getMsg := p.MethodObj("pkg/message", "Manager", "GetMessage")
	srcRd := p.MethodObj("pkg/message", "Manager", "SourceReader")
	markSeen := p.MethodObj("pkg/message", "Manager", "MarkSeen")
	rmMsg := p.MethodObj("pkg/message", "Manager", "RemoveMessage")
	mbfa := p.MethodObj("pkg/message", "Manager", "MailboxForAddress")
	if mgr == nil || getMsg == nil || srcRd == nil || markSeen == nil || rmMsg == nil || mbfa == nil {
		return
	}
	handlers := c.webHandlers()
	r.Floor("C14/NIL/handlers", "web.Handler conversions in route tables", len(handlers), 1)
	c.c14BodyOnSuccess(handlers, getMsg, srcRd)
	// the name a handler canonicalises is the router's path variable as the router decoded it
	// (decided by C04's URL-variable rule): a second decoding step in between turns '+' or
	// '%25' into other characters and every endpoint then acts on another mailbox or fails
	nV := c.borrow(func(c2 *Ctx) { c2.c04URLVars(c2.webHandlers(), mbfa) }, "C04/ONE-AUTHORITY", "C14/NAME/url-variable", "the string handed to MailboxForAddress is a lookup in web.Context.Vars, which is written only in NewContext with mux.Vars(req) and never updated")
	r.Floor("C14/NAME/url-variable", "borrowed obligations", nV, 1)

	// a failed producer's nil result is never used: behind the handlers (the message manager)
	// and in them, a use of the value of a (value, error) call on the side where the call may
	// have failed panics, and net/http answers a panic by dropping the connection
	r.Rule("C14/PANIC/nil-result", "in pkg/message, pkg/rest and pkg/webui every use of the value of a (value, error) call as a method receiver or field base — direct, deferred or through a helper — lies where the error is known nil")
	{
		var nfns []*ssa.Function
		for _, rel := range []string{"pkg/message", "pkg/rest", "pkg/webui"} {
			for _, fn := range pkgFuncs(p, rel) {
				if !p.IsTestSupport(fn) {
					nfns = append(nfns, fn)
				}
			}
		}
		sortFuncs(nfns)
		nBad := 0
		ordN := map[string]int{}
		nProd := c.nilResultUses(nfns, func(use ssa.Instruction, producer *ssa.Call, what string) {
			nBad++
			r.Bad("C14/PANIC/nil-result", siteCons(p, use, ordN, "use"), p.InstrPos(use), "the result of %s (%s) is used where the call may have failed: %s, and on failure the result is nil — the handler panics and the client sees the connection dropped instead of a status", eng.CalleeName(producer.Common()), p.InstrPos(producer), what)
		})
		if nBad == 0 {
			r.Ok("C14/PANIC/nil-result", "manager-and-handlers", "", "%d (value, error) producers in pkg/message, pkg/rest, pkg/webui; every receiver/field use of their value is on the err == nil side", nProd)
		}
		r.Floor("C14/PANIC/nil-result", "(value, error) producers in pkg/message, pkg/rest, pkg/webui", nProd, 3)
	}

	// producer summaries (for the evidence)
	smT := p.Named("pkg/message", "StoreManager")
	if smT != nil {
		for _, mn := range []string{"GetMessage", "SourceReader"} {
			if fn := p.MethodOf(smT, mn); fn != nil {
				var all []string
				for _, t := range sm.an.TuplesOf(fn) {
					all = append(all, tupleStr(t, p))
				}
				r.Count("producer tuples StoreManager."+mn, len(all))
				r.Selftest["producer:"+mn] = all
			}
		}
	}

	// helpers of the handler packages that talk to the Manager themselves (a lookup shared by
	// several handlers) are judged like handlers: their last result is the handler's error
	units := append([]*ssa.Function(nil), handlers...)
	{
		isH := map[*ssa.Function]bool{}
		for _, h := range handlers {
			isH[h] = true
		}
		var extra []*ssa.Function
		// every top-level function of the two packages qualifies, however the handlers reach it
		// (a static call, or a function value such as mailboxActionV1(f).handle)
		for _, h := range [][]*ssa.Function{append(pkgFuncs(p, "pkg/rest"), pkgFuncs(p, "pkg/webui")...)} {
			for _, fn := range h {
				if isH[fn] || fn.Parent() != nil || !(strings.HasSuffix(eng.FuncPkgPath(fn), "/pkg/rest") || strings.HasSuffix(eng.FuncPkgPath(fn), "/pkg/webui")) {
					continue
				}
				res := fn.Signature.Results()
				if res.Len() == 0 || !isErrorType(res.At(res.Len()-1).Type()) {
					continue
				}
				calls := false
				eng.EachInstr(fn, func(in ssa.Instruction) {
					if call, ok := in.(*ssa.Call); ok {
						cc := call.Common()
						if eng.IsCallTo(cc, getMsg) || eng.IsCallTo(cc, srcRd) || eng.IsCallTo(cc, markSeen) || eng.IsCallTo(cc, rmMsg) || c.mgrOpThroughValue(call, markSeen, rmMsg) != nil {
							calls = true
						}
					}
				})
				if calls {
					isH[fn] = true
					extra = append(extra, fn)
				}
			}
		}
		sortFuncs(extra)
		units = append(units, extra...)
	}
	sm.an.Fork = c.c14ForkHook(sm)
	defer func() { sm.an.Fork = nil }()
	nProducers, nMutCalls := 0, 0
	for _, H := range units {
		H := H
		hname := shortFn(H)
		type viol struct{ site, msg string }
		derefBad := map[string]string{}
		nfBad := map[string]string{}
		hasProducer, hasNF := false, false
		nDeref := 0
		sm.an.Paths(H, func(in ssa.Instruction, ps *eng.PathState) {
			// D1: deref uses
			for _, prev := range ps.Trace {
				call, ok := prev.(*ssa.Call)
				if !ok || !(eng.IsCallTo(call.Common(), getMsg) || eng.IsCallTo(call.Common(), srcRd)) {
					continue
				}
				hasProducer = true
				for _, ref := range *call.Referrers() {
					e, ok := ref.(*ssa.Extract)
					if !ok || e.Index != 0 {
						continue
					}
					vals := []ssa.Value{e}
					for _, rr := range *e.Referrers() {
						switch y := rr.(type) {
						case *ssa.ChangeInterface:
							vals = append(vals, y)
						case *ssa.MakeInterface:
							vals = append(vals, y)
						}
					}
					for _, v := range vals {
						if !usesAsDeref(in, v) {
							continue
						}
						nDeref++
						st := sm.an.Eval(e, ps.Nil, in.Block())
						if st.MayBeNil() {
							derefBad[p.InstrPos(in)] = fmt.Sprintf("result of %s (%s) is used at %s where it may be nil (state %s): the producer can return a nil value with a nil error", eng.CalleeName(call.Common()), p.InstrPos(call), p.InstrPos(in), st)
						}
					}
				}
			}
			// D2: returns
			ret, ok := in.(*ssa.Return)
			if !ok || (eng.IsRecoverBlock(ret.Block()) && !eng.DefersMayRecover(H)) {
				return
			}
			var mc *ssa.Call
			for _, prev := range ps.Trace {
				if call, ok := prev.(*ssa.Call); ok {
					cc := call.Common()
					if eng.IsCallTo(cc, getMsg) || eng.IsCallTo(cc, srcRd) || eng.IsCallTo(cc, markSeen) || eng.IsCallTo(cc, rmMsg) || c.mgrOpThroughValue(call, markSeen, rmMsg) != nil {
						mc = call
					}
				}
			}
			if mc == nil {
				return
			}
			hasNF = true
			var e ssa.Value = mc
			if _, isTuple := mc.Type().(*types.Tuple); isTuple {
				e = nil
				n := mc.Call.Signature().Results().Len()
				for _, ref := range *mc.Referrers() {
					if ex, ok := ref.(*ssa.Extract); ok && ex.Index == n-1 {
						e = ex
					}
				}
				if e == nil {
					nfBad[p.InstrPos(mc)] = "the error result of the Manager call is discarded"
					return
				}
			}
			est := sm.an.Eval(e, ps.Nil, ret.Block())
			if est&eng.NSNon == 0 {
				return // error is nil on this path
			}
			sf, has := ps.Sent[e]
			if has && sf.Sentinel == sm.errNotExist && !sf.Eq {
				return // ErrNotExist excluded on this path
			}
			definitelyNF := has && sf.Sentinel == sm.errNotExist && sf.Eq
			results := eng.ReturnResults(ret)
			// the handler may hand the error to a helper that renders the outcome
			if hc, ok := results[len(results)-1].(*ssa.Call); ok {
				if g := eng.StaticCallee(hc.Common()); g != nil && eng.InModule(g) && len(g.Blocks) > 0 {
					for i, a := range hc.Call.Args {
						isE := a == e
						for _, al := range eng.ValueAliases(e) {
							if a == al {
								isE = true
							}
						}
						if ph, ok := a.(*ssa.Phi); ok {
							for _, ed := range ph.Edges {
								if ed == e {
									isE = true
								}
							}
						}
						if isE && i < len(g.Params) {
							if why := c.helper404(sm, g, g.Params[i], 0); why != "" {
								nfBad[p.InstrPos(ret)] = fmt.Sprintf("the error of %s (%s) is handed to %s, which %s", eng.CalleeName(mc.Common()), p.InstrPos(mc), shortFn(g), why)
							}
							return
						}
					}
				}
			}
			rst := sm.an.Eval(results[len(results)-1], ps.Nil, ret.Block())
			if rst&eng.NSNon != 0 {
				nfBad[p.InstrPos(ret)] = fmt.Sprintf("returns a possibly non-nil error at %s on a path where the error of %s (%s) may be storage.ErrNotExist: a missing message is answered 500 instead of 404", p.InstrPos(ret), eng.CalleeName(mc.Common()), p.InstrPos(mc))
				return
			}
			// returns nil: 404 must have been written after the call
			wrote := false
			after := false
			for _, prev := range ps.Trace {
				if prev == ssa.Instruction(mc) {
					after = true
				}
				if call, ok := prev.(*ssa.Call); ok && after && writes404(call, 0) {
					wrote = true
				}
			}
			if !wrote && (definitelyNF || est == eng.NSNon) {
				nfBad[p.InstrPos(ret)] = fmt.Sprintf("returns success at %s without http.NotFound on a path where the error of %s is set (possibly storage.ErrNotExist)", p.InstrPos(ret), eng.CalleeName(mc.Common()))
			}
		})
		if hasProducer {
			nProducers++
			if len(derefBad) > 0 {
				var ks []string
				for k := range derefBad {
					ks = append(ks, k)
				}
				sort.Strings(ks)
				r.Bad("C14/NIL/handlers", hname, ks[0], "%s", derefBad[ks[0]])
			} else {
				r.Ok("C14/NIL/handlers", hname, p.Pos(H.Pos()), "every dereference of the Manager result is on paths where it is non-nil (%d use evaluations over all paths)", nDeref)
			}
		}
		if hasNF {
			nMutCalls++
			if len(nfBad) > 0 {
				var ks []string
				for k := range nfBad {
					ks = append(ks, k)
				}
				sort.Strings(ks)
				r.Bad("C14/404", hname, ks[0], "%s", nfBad[ks[0]])
			} else {
				r.Ok("C14/404", hname, p.Pos(H.Pos()), "no path turns storage.ErrNotExist into an error return or a success without 404")
			}
		}
	}
	if len(sm.an.Truncated) > 0 {
		r.Undecided("C14/NIL/handlers", "path-bound", "", "path bound exceeded in %v", sm.an.Truncated)
	}
	r.Floor("C14/NIL/handlers", "handlers calling GetMessage/SourceReader", nProducers, 1)
	r.Floor("C14/404", "handlers calling GetMessage/SourceReader/MarkSeen/RemoveMessage", nMutCalls, 1)
	r.Count("paths enumerated", sm.an.PathsSeen)

	c.c14Identity(sm, units)
	c.c14ListOrder(handlers)
	c.c14ReadThrough()
	c.c14Name(handlers, mgr, mbfa)
	c.c14Routes()
	c.c14RouteEffects()
	c.c14MarkSeenEffect(sm)
	c.c14ErrPropagate(units)
	r.Rule("C14/ERR/contradictions", "in the handlers, the message manager and the Go client: no return reports a failure built from an error that is known nil there, and no return reports success on the branch where a call's error is known non-nil (sentinel and classifier tests excuse)")
	var cfns []*ssa.Function
	cfns = append(cfns, units...)
	for _, rel := range []string{"pkg/message", "pkg/rest/client"} {
		for _, g := range pkgFuncs(p, rel) {
			dup := false
			for _, u := range cfns {
				if u == g {
					dup = true
				}
			}
			if !dup {
				cfns = append(cfns, g)
			}
		}
	}
	r.Floor("C14/ERR/contradictions", "returns examined", c.errContradictions("C14/ERR/contradictions", cfns, "the API answers 500 for requests that worked and carries on with the ones that did not"), 10)
	c.c14ClientErrors()
	// the handlers and what they run synchronously, also through a function value (a handler
	// may be a thin wrapper around an action function: mailboxActionV1(f).handle); code that only
	// runs on other goroutines (the WebSocket writers) is not on the HTTP response path
	allTop := append([]*ssa.Function(nil), handlers...)
	{
		have := map[*ssa.Function]bool{}
		for _, h := range handlers {
			have[h] = true
		}
		inPkgs := func(fn *ssa.Function) bool {
			pk := eng.FuncPkgPath(fn)
			return strings.HasSuffix(pk, "/pkg/rest") || strings.HasSuffix(pk, "/pkg/webui")
		}
		var more []*ssa.Function
		work := append([]*ssa.Function(nil), handlers...)
		seenW := map[*ssa.Function]bool{}
		for len(work) > 0 {
			w := work[len(work)-1]
			work = work[:len(work)-1]
			if seenW[w] {
				continue
			}
			seenW[w] = true
			for g := range p.SyncReach(w) {
				if !inPkgs(g) {
					continue
				}
				if g.Parent() == nil && !have[g] {
					have[g] = true
					more = append(more, g)
				}
				if n := p.CG().Nodes[g]; n != nil {
					for _, e := range n.Out {
						call, isCall := e.Site.(*ssa.Call)
						if !isCall || call.Call.IsInvoke() || eng.StaticCallee(call.Common()) != nil || e.Callee.Func == nil {
							continue
						}
						if t := eng.Outer(e.Callee.Func); inPkgs(t) && !seenW[t] {
							if !have[t] {
								have[t] = true
								more = append(more, t)
							}
							work = append(work, t)
						}
					}
				}
			}
		}
		sortFuncs(more)
		allTop = append(allTop, more...)
	}
	c.c14Fields(allTop)
	c.c14ServeHTTP()
	c.c14ParsedIndex(allTop)
}

// c14ParsedIndex: a number parsed from the request and used as an index must be checked
// against the length of what it indexes, and the checked value must be the parsed value
// (a narrowing or sign-changing conversion before the comparison lets a huge number pass
// the check as a small or negative one; the index expression then panics the handler and
// net/http drops the connection).
func (c *Ctx) c14ParsedIndex(handlers []*ssa.Function) {
	r, p := c.R, c.P
	r.Rule("C14/PANIC/parsed-index", "in the web handlers an index derived from a strconv parse result is dominated by a comparison of that result with len() of the indexed value, with no value-changing conversion on either use (int and uint count as 32 bits, the smallest the language guarantees)")
	seen := map[*ssa.Function]bool{}
	var fns []*ssa.Function
	for _, h := range handlers {
		for fn := range p.SyncReach(h) {
			if !seen[fn] && (strings.HasSuffix(eng.FuncPkgPath(fn), "/pkg/rest") || strings.HasSuffix(eng.FuncPkgPath(fn), "/pkg/webui")) {
				seen[fn] = true
				fns = append(fns, fn)
			}
		}
	}
	sortFuncs(fns)
	paramActual = p.Actual
	parseOf := func(v ssa.Value) *ssa.Call {
		for i := 0; i < 8; i++ {
			switch x := v.(type) {
			case *ssa.Parameter:
				// a helper indexing with its own parameter (attachmentAt(parts, num))
				if w := p.Actual(x); w != v {
					v = w
					continue
				}
			case *ssa.Convert:
				v = x.X
				continue
			case *ssa.ChangeType:
				v = x.X
				continue
			case *ssa.UnOp:
				// a variable captured by a closure: one store
				if ad := eng.LoadAddr(v); ad != nil {
					if cell := eng.CellOf(ad); cell != nil && !eng.CellEscapes(cell) {
						if sts := eng.CellStores(cell); len(sts) == 1 {
							v = sts[0].Val
							continue
						}
					}
				}
				_ = x
			}
			break
		}
		e, ok := v.(*ssa.Extract)
		if !ok || e.Index != 0 {
			return nil
		}
		call, ok := e.Tuple.(*ssa.Call)
		if !ok {
			return nil
		}
		switch eng.CalleeName(call.Common()) {
		case "strconv.Atoi", "strconv.ParseInt", "strconv.ParseUint":
			return call
		}
		return nil
	}
	sameContainer := func(a, b ssa.Value) bool {
		if a == b || eng.SameLoadNoDom(a, b) {
			return true
		}
		ca, ok1 := a.(*ssa.Call)
		cb, ok2 := b.(*ssa.Call)
		if ok1 && ok2 && eng.CalleeObj(ca.Common()) != nil && eng.CalleeObj(ca.Common()) == eng.CalleeObj(cb.Common()) {
			ra, rb := ca.Call.Args, cb.Call.Args
			if ca.Call.IsInvoke() {
				return ca.Call.Value == cb.Call.Value
			}
			return len(ra) > 0 && len(rb) > 0 && ra[0] == rb[0]
		}
		return false
	}
	n := 0
	ord := map[string]int{}
	for _, fn := range fns {
		fn := fn
		eng.EachInstr(fn, func(in ssa.Instruction) {
			var base, idx ssa.Value
			switch x := in.(type) {
			case *ssa.IndexAddr:
				base, idx = x.X, x.Index
			case *ssa.Index:
				base, idx = x.X, x.Index
			default:
				return
			}
			pc := parseOf(idx)
			if pc == nil {
				return
			}
			n++
			cons := siteCons(p, in, ord, "index")
			if why := lossyParsedConv(idx); why != "" {
				r.Bad("C14/PANIC/parsed-index", cons, p.InstrPos(in), "the index is a value-changing conversion of the parsed number (%s)", why)
				return
			}
			guard, lossy := false, ""
			for _, b := range fn.Blocks {
				for k := 0; k < len(b.Succs) && len(b.Succs) == 2; k++ {
					rel, ok := eng.EdgeRel(b, k)
					if !ok || !eng.EdgeDominates(b, k, in.Block()) {
						continue
					}
					x, y := rel.X, rel.Y
					if eng.LenOf(x) != nil {
						rel = rel.Swap()
						x, y = rel.X, rel.Y
					}
					lb := eng.LenOf(y)
					if lb == nil || parseOf(x) != pc || !sameContainer(lb, base) {
						continue
					}
					if rel.Op != token.LSS {
						continue
					}
					if why := lossyParsedConv(x); why != "" {
						lossy = why
						continue
					}
					guard = true
				}
			}
			switch {
			case guard:
				r.Ok("C14/PANIC/parsed-index", cons, p.InstrPos(in), "dominated by parsed < len(container) without a value-changing conversion")
			case lossy != "":
				r.Bad("C14/PANIC/parsed-index", cons, p.InstrPos(in), "the bounds check compares a converted copy of the parsed number (%s) while the index uses the number itself: a value that wraps to a small or negative number passes the check and the index expression panics, so the connection is dropped instead of answered", lossy)
			default:
				r.Bad("C14/PANIC/parsed-index", cons, p.InstrPos(in), "no dominating comparison of the parsed number with the length of the indexed value")
			}
		})
	}
	r.Floor("C14/PANIC/parsed-index", "request-derived indices in the web handlers", n, 1)
}

// c14ServeHTTP confirms the assumption that a handler error is answered with 500.
func (c *Ctx) c14ServeHTTP() {
	p, r := c.P, c.R
	r.Rule("C14/500", "web.Handler.ServeHTTP answers a non-nil handler error with http.Error(…, 500): the premise of C14/404")
	fn := p.Method("pkg/server/web", "Handler", "ServeHTTP")
	if fn == nil {
		return
	}
	found := false
	eng.EachInstr(fn, func(in ssa.Instruction) {
		if call, ok := in.(*ssa.Call); ok && eng.CalleeName(call.Common()) == "net/http.Error" {
			if k, ok := eng.ConstInt(call.Call.Args[2]); ok && k == 500 {
				found = true
			}
		}
	})
	r.Check(found, "C14/500", shortFn(fn), p.Pos(fn.Pos()), "errors are answered with 500", "ServeHTTP no longer answers handler errors with 500: rule C14/404 has lost its premise")
}

// c14Name: D4 (= C04/D1a) mailbox-name arguments flow from MailboxForAddress.
func (c *Ctx) c14Name(handlers []*ssa.Function, mgr *types.Named, mbfa *types.Func) {
	p, r := c.P, c.R
	mi := mgr.Underlying().(*types.Interface)
	n := 0
	// every function of the two packages, not only the registered handlers' own bodies: a
	// handler may be a thin wrapper around an action function it calls through a function value
	_ = handlers
	var all []*ssa.Function
	all = append(all, pkgFuncs(p, "pkg/rest")...)
	all = append(all, pkgFuncs(p, "pkg/webui")...)
	sortFuncs(all)
	for _, H := range all {
		if H.Parent() != nil {
			continue // visited with its enclosing function
		}
		eng.EachCallDeep(H, func(fn *ssa.Function, ci ssa.CallInstruction) {
			cc := ci.Common()
			// a Manager operation handed over as a method value and called through it
			// (applyMessageOpV1(w, req, "MarkSeen", ctx.Manager.MarkSeen, name, id) → op(mailbox, id))
			if call, isCall := ci.(*ssa.Call); isCall && !cc.IsInvoke() && len(cc.Args) > 0 {
				if o := c.mgrOpThroughValue(call, mgrOps(mi)...); o != nil && o.Name() != "MailboxForAddress" && o.Name() != "Deliver" {
					n++
					if c.flowsFromCallP(cc.Args[0], mbfa) {
						r.Ok("C14/NAME", shortFn(H)+":"+o.Name(), p.InstrPos(ci), "mailbox argument is the result of MailboxForAddress")
					} else {
						r.Bad("C14/NAME", shortFn(H)+":"+o.Name(), p.InstrPos(ci), "mailbox argument of Manager.%s (called through a method value) does not come from Manager.MailboxForAddress: this handler addresses a different mailbox than the one delivery used", o.Name())
					}
					return
				}
			}
			if !cc.IsInvoke() || !types.Identical(cc.Value.Type(), mgr) {
				return
			}
			_ = mi
			if cc.Method.Name() == "MailboxForAddress" || cc.Method.Name() == "Deliver" {
				return
			}
			// first string parameter is the mailbox
			if len(cc.Args) == 0 {
				return
			}
			n++
			arg := cc.Args[0]
			if c.flowsFromCallP(arg, mbfa) {
				r.Ok("C14/NAME", shortFn(H)+":"+cc.Method.Name(), p.InstrPos(ci), "mailbox argument is the result of MailboxForAddress")
			} else {
				r.Bad("C14/NAME", shortFn(H)+":"+cc.Method.Name(), p.InstrPos(ci), "mailbox argument of Manager.%s does not come from Manager.MailboxForAddress: this handler addresses a different mailbox than the one delivery used", cc.Method.Name())
			}
		})
	}
	r.Floor("C14/NAME", "Manager calls with a mailbox argument in handlers", n, 1)
}

// flowsFromCallP: flowsFromCall, where a parameter stands for what every caller the call
// graph knows passes (static callers, and dynamic callers through a function value).
func (c *Ctx) flowsFromCallP(v ssa.Value, obj *types.Func) bool {
	var rec func(v ssa.Value, depth int) bool
	rec = func(v ssa.Value, depth int) bool {
		if depth > 4 {
			return false
		}
		if flowsFromCall(v, obj, 0) {
			return true
		}
		prm, ok := eng.StripConv(v).(*ssa.Parameter)
		if !ok {
			if ph, isPhi := v.(*ssa.Phi); isPhi {
				for _, e := range ph.Edges {
					if !rec(e, depth+1) {
						return false
					}
				}
				return len(ph.Edges) > 0
			}
			return false
		}
		vals, known := c.P.ActualsOf(prm)
		if !known || len(vals) == 0 {
			return false
		}
		for _, a := range vals {
			if !rec(a, depth+1) {
				return false
			}
		}
		return true
	}
	return rec(v, 0)
}

// flowsFromCall: v is result #0 of a call to obj (through phis whose every edge is).
func flowsFromCall(v ssa.Value, obj *types.Func, depth int) bool {
	if depth > 6 {
		return false
	}
	// a module helper that returns the call's result (e.g. `name, err := mailboxName(ctx)`)
	if call, idx := eng.CallAndIndex(v); call != nil && !eng.IsCallTo(call.Common(), obj) {
		if rets, _ := eng.ReturnedValues(call, idx); len(rets) > 0 {
			n := 0
			for _, rv := range rets {
				if s, isC := eng.ConstString(rv); isC && s == "" {
					continue // error return
				}
				n++
				if !flowsFromCall(rv, obj, depth+1) {
					return false
				}
			}
			return n > 0
		}
	}
	switch x := v.(type) {
	case *ssa.Field:
		// field of a small record returned by a module helper (ref.mailbox)
		return fieldFlowsFromCall(x.X, x.Field, obj, depth)
	case *ssa.Extract:
		if call, ok := x.Tuple.(*ssa.Call); ok && x.Index == 0 {
			return eng.IsCallTo(call.Common(), obj)
		}
	case *ssa.Call:
		return eng.IsCallTo(x.Common(), obj)
	case *ssa.Phi:
		for _, e := range x.Edges {
			if !flowsFromCall(e, obj, depth+1) {
				return false
			}
		}
		return len(x.Edges) > 0
	case *ssa.UnOp:
		// field of a local record variable assigned as a whole (ref := helper(); ref.mailbox)
		if fa, ok := x.X.(*ssa.FieldAddr); ok && x.Op == token.MUL {
			if al, ok := fa.X.(*ssa.Alloc); ok && al.Referrers() != nil {
				n := 0
				for _, ref := range *al.Referrers() {
					if st, ok := ref.(*ssa.Store); ok && st.Addr == ssa.Value(al) {
						n++
						if !fieldFlowsFromCall(st.Val, fa.Field, obj, depth+1) {
							return false
						}
					}
				}
				if n > 0 {
					return true
				}
			}
		}
		if ad := eng.LoadAddr(v); ad != nil {
			if cell := eng.CellOf(ad); cell != nil && !eng.CellEscapes(cell) {
				sts := eng.CellStores(cell)
				for _, st := range sts {
					if !flowsFromCall(st.Val, obj, depth+1) {
						return false
					}
				}
				return len(sts) > 0
			}
		}
	}
	return false
}

// fieldFlowsFromCall: field number field of the record value sv (the result of a module
// helper) flows from a call of obj on every non-error return of the helper.
func fieldFlowsFromCall(sv ssa.Value, field int, obj *types.Func, depth int) bool {
	call, idx := eng.CallAndIndex(sv)
	if call == nil {
		return false
	}
	rets, g := eng.ReturnedValues(call, idx)
	if g == nil {
		return false
	}
	n := 0
	for _, rv := range rets {
		vals, zero := structFieldValues(rv, field)
		if zero {
			continue // zero record on the error return
		}
		if len(vals) == 0 {
			return false
		}
		for _, fv := range vals {
			n++
			if !flowsFromCall(fv, obj, depth+1) {
				return false
			}
		}
	}
	return n > 0
}

// ---- D3 routes vs client ----

type route struct {
	method, path string
	handler      *ssa.Function
	site         string
}

// recvChain walks back through method-call receivers: Methods(Name(Handler(Path(r, P), H), N), M).
func recvChain(call *ssa.Call) []*ssa.Call {
	var out []*ssa.Call
	cur := call
	for cur != nil {
		out = append(out, cur)
		if len(cur.Call.Args) == 0 || cur.Call.IsInvoke() {
			break
		}
		nxt, _ := cur.Call.Args[0].(*ssa.Call)
		cur = nxt
	}
	return out
}

func (c *Ctx) routesOf(setup *ssa.Function) []route {
	var out []route
	eng.EachInstr(setup, func(in ssa.Instruction) {
		call, ok := in.(*ssa.Call)
		if !ok || eng.CalleeName(call.Common()) != "(*github.com/gorilla/mux.Route).Methods" {
			return
		}
		rt := route{site: c.P.InstrPos(call)}
		// Methods(recv, variadic slice): find constant strings stored into the slice
		if sl, ok := call.Call.Args[1].(*ssa.Slice); ok {
			if al, ok := sl.X.(*ssa.Alloc); ok {
				for _, ref := range *al.Referrers() {
					if ia, ok := ref.(*ssa.IndexAddr); ok {
						for _, r2 := range *ia.Referrers() {
							if st, ok := r2.(*ssa.Store); ok {
								if s, ok := eng.ConstString(st.Val); ok {
									rt.method = s
								}
							}
						}
					}
				}
			}
		}
		for _, cc := range recvChain(call) {
			switch eng.CalleeName(cc.Common()) {
			case "(*github.com/gorilla/mux.Route).Handler":
				if mi, ok := cc.Call.Args[1].(*ssa.MakeInterface); ok {
					if ct, ok := mi.X.(*ssa.ChangeType); ok {
						rt.handler, _ = ct.X.(*ssa.Function)
					}
				}
			case "(*github.com/gorilla/mux.Router).Path":
				rt.path, _ = eng.ConstString(cc.Call.Args[1])
			}
		}
		out = append(out, rt)
	})
	return out
}

// uriTemplate renders a string concatenation with non-constant parts as {}.
func uriTemplate(v ssa.Value) string {
	switch x := v.(type) {
	case *ssa.Const:
		s, _ := eng.ConstString(x)
		return s
	case *ssa.BinOp:
		if x.Op == token.ADD {
			return uriTemplate(x.X) + uriTemplate(x.Y)
		}
	case *ssa.Call:
		// a module helper that builds the uri from its parameters
		if rets, g := eng.ReturnedValues(x, 0); len(rets) == 1 {
			if t, ok := uriFold(x, g, rets[0]); ok {
				return t
			}
			return uriTemplate(rets[0])
		}
		if eng.CalleeName(x.Common()) == "fmt.Sprintf" {
			if f, ok := eng.ConstString(x.Call.Args[0]); ok {
				out := ""
				for i := 0; i < len(f); i++ {
					if f[i] == '%' && i+1 < len(f) {
						out += "{}"
						i++
						continue
					}
					out += string(f[i])
				}
				return out
			}
		}
	}
	return "{}"
}

// uriFold renders a helper that joins its variadic string arguments onto a prefix
// (uri := prefix; for _, e := range elems { uri += "/" + e }): at this call site the loop runs
// once per argument actually passed.
func uriFold(call *ssa.Call, g *ssa.Function, rv ssa.Value) (string, bool) {
	ph, ok := rv.(*ssa.Phi)
	if !ok || len(ph.Edges) != 2 || g == nil || !g.Signature.Variadic() || len(g.Params) == 0 {
		return "", false
	}
	vp := g.Params[len(g.Params)-1]
	var flatten func(v ssa.Value) []ssa.Value
	flatten = func(v ssa.Value) []ssa.Value {
		if b, ok := v.(*ssa.BinOp); ok && b.Op == token.ADD {
			return append(flatten(b.X), flatten(b.Y)...)
		}
		return []ssa.Value{v}
	}
	var init ssa.Value
	var step []ssa.Value
	for _, e := range ph.Edges {
		parts := flatten(e)
		if len(parts) > 1 && parts[0] == ssa.Value(ph) {
			step = parts[1:]
		} else {
			init = e
		}
	}
	if init == nil || step == nil {
		return "", false
	}
	// the arguments passed for the variadic parameter, in order
	var actuals []ssa.Value
	last := call.Call.Args[len(call.Call.Args)-1]
	if !eng.IsNilConst(last) {
		sl, ok := last.(*ssa.Slice)
		if !ok {
			return "", false
		}
		al, ok := sl.X.(*ssa.Alloc)
		if !ok {
			return "", false
		}
		arr, ok := al.Type().(*types.Pointer).Elem().(*types.Array)
		if !ok {
			return "", false
		}
		actuals = make([]ssa.Value, arr.Len())
		for _, ref := range *al.Referrers() {
			ia, ok := ref.(*ssa.IndexAddr)
			if !ok {
				continue
			}
			k, isK := eng.ConstInt(ia.Index)
			if !isK || k < 0 || int(k) >= len(actuals) {
				return "", false
			}
			for _, r2 := range *ia.Referrers() {
				if st, ok := r2.(*ssa.Store); ok {
					actuals[k] = st.Val
				}
			}
		}
	}
	out := uriTemplate(init)
	for _, a := range actuals {
		for _, part := range step {
			if s, isC := eng.ConstString(part); isC {
				out += s
				continue
			}
			// the loop element: elems[i]
			if u, ok := part.(*ssa.UnOp); ok {
				if ia, ok := u.X.(*ssa.IndexAddr); ok && ia.X == ssa.Value(vp) && isRangeCounter(ia.Index) && a != nil {
					out += uriTemplate(a)
					continue
				}
			}
			out += "{}"
		}
	}
	return out, true
}

func segMatch(clientT, routeT string) bool {
	a := strings.Split(strings.Trim(clientT, "/"), "/")
	b := strings.Split(strings.Trim(routeT, "/"), "/")
	if len(a) != len(b) {
		return false
	}
	for i := range a {
		isVar := strings.HasPrefix(b[i], "{") && strings.HasSuffix(b[i], "}")
		if a[i] == "{}" {
			if !isVar {
				return false
			}
			continue
		}
		if isVar || a[i] != b[i] {
			return false
		}
	}
	return true
}

func (c *Ctx) c14Routes() {
	p, r := c.P, c.R
	setup := p.Func("pkg/rest", "SetupRoutes")
	assembly := p.Func("pkg/server", "FullAssembly")
	do := p.Method("pkg/rest/client", "restClient", "do")
	doJSON := p.Method("pkg/rest/client", "restClient", "doJSON")
	if setup == nil || assembly == nil || do == nil || doJSON == nil {
		return
	}
	routes := c.routesOf(setup)
	r.Floor("C14/ROUTES/client", "routes registered by rest.SetupRoutes", len(routes), 1)
	// prefix under which rest.SetupRoutes is mounted
	prefix := ""
	eng.EachInstr(assembly, func(in ssa.Instruction) {
		call, ok := in.(*ssa.Call)
		if !ok || eng.StaticCallee(call.Common()) != setup {
			return
		}
		for _, cc := range recvChain(call) {
			_ = cc
		}
		// SetupRoutes(Subrouter(PathPrefix(router, prefixFn("/api/"))))
		if sub, ok := call.Call.Args[0].(*ssa.Call); ok {
			if pp, ok := sub.Call.Args[0].(*ssa.Call); ok && eng.CalleeName(pp.Common()) == "(*github.com/gorilla/mux.Router).PathPrefix" {
				switch a := pp.Call.Args[1].(type) {
				case *ssa.Const:
					prefix, _ = eng.ConstString(a)
				case *ssa.Call:
					for _, x := range a.Call.Args {
						if s, ok := eng.ConstString(x); ok {
							prefix = s
						}
					}
				}
			}
		}
	})
	if prefix == "" {
		r.Undecided("C14/ROUTES/client", "mount-prefix", p.Pos(assembly.Pos()), "cannot determine the path prefix under which rest.SetupRoutes is mounted")
		return
	}
	// does a handler decode req.Body / test a decoded bool field?
	// what a registered handler runs synchronously in its own package: its static callees and the
	// functions it reaches through function values (mailboxActionV1(f).handle → f)
	runs := c.handlerRuns
	bodyField := func(h *ssa.Function) (decodes bool, needs []string) {
		fns := runs(h)
		for _, g := range fns {
			eng.EachInstr(g, func(in ssa.Instruction) {
				if fa, ok := in.(*ssa.FieldAddr); ok {
					if f := eng.FieldOfAddr(fa); f != nil && f.Name() == "Body" && f.Pkg() != nil && f.Pkg().Path() == "net/http" {
						decodes = true
					}
				}
			})
		}
		if !decodes {
			return
		}
		// fields of the decoded struct tested by a branch
		for _, g := range fns {
			for _, b := range g.Blocks {
				iff := eng.IfOf(b)
				if iff == nil {
					continue
				}
				v, _, ok := eng.CondTruth(b, 0)
				if !ok {
					continue
				}
				if f := eng.LoadedField(v); f != nil && f.Pkg() != nil && strings.HasSuffix(f.Pkg().Path(), "/rest/model") {
					needs = append(needs, jsonName(f, p))
				}
			}
		}
		return
	}
	// request functions: do(ctx, method, uri, body) and every forwarder that passes its own
	// parameters on to a request function (doJSON, or helpers a refactoring introduces)
	type reqInfo struct{ m, u, b int } // argument indices; b = -1: the body is always nil
	reqFns := map[*ssa.Function]reqInfo{do: {2, 3, 4}}
	_ = doJSON
	clientFns := pkgFuncs(p, "pkg/rest/client")
	for changed := true; changed; {
		changed = false
		for _, fn := range clientFns {
			if _, done := reqFns[fn]; done {
				continue
			}
			eng.EachInstr(fn, func(in ssa.Instruction) {
				call, ok := in.(*ssa.Call)
				if !ok {
					return
				}
				ri, isReq := reqFns[eng.StaticCallee(call.Common())]
				if !isReq {
					return
				}
				a := call.Call.Args
				mi, ui := eng.ParamIndex(a[ri.m]), eng.ParamIndex(a[ri.u])
				if mi < 0 || ui < 0 {
					return
				}
				bi := -1
				if ri.b >= 0 && !eng.IsNilConst(a[ri.b]) {
					bi = eng.ParamIndex(a[ri.b])
					if bi < 0 {
						return
					}
				}
				reqFns[fn] = reqInfo{mi, ui, bi}
				changed = true
			})
		}
	}
	nOps := 0
	for _, fn := range clientFns {
		if _, isReq := reqFns[fn]; isReq {
			continue
		}
		eng.EachInstr(fn, func(in ssa.Instruction) {
			call, ok := in.(*ssa.Call)
			if !ok {
				return
			}
			ri, isReq := reqFns[eng.StaticCallee(call.Common())]
			if !isReq {
				return
			}
			nOps++
			args := call.Call.Args
			method, okM := eng.ConstString(args[ri.m])
			tmpl := uriTemplate(args[ri.u])
			cons := shortFn(fn)
			site := p.InstrPos(call)
			if !okM {
				r.Undecided("C14/ROUTES/client", cons, site, "HTTP method is not a constant")
				return
			}
			bodyNil := true
			var bodyLit []byte
			if ri.b >= 0 {
				bodyNil = eng.IsNilConst(args[ri.b])
				if !bodyNil {
					bodyLit = constBytes(args[ri.b])
				}
			}
			var match *route
			for i := range routes {
				rt := &routes[i]
				if rt.method == method && segMatch(tmpl, strings.TrimRight(prefix, "/")+rt.path) {
					match = rt
				}
			}
			if match == nil {
				r.Bad("C14/ROUTES/client", cons, site, "client sends %s %s but no route registered by rest.SetupRoutes (mounted at %s) matches that method and path shape", method, tmpl, prefix)
				return
			}
			if match.handler == nil {
				r.Undecided("C14/ROUTES/client", cons, site, "route handler not resolved")
				return
			}
			decodes, needs := bodyField(match.handler)
			if decodes && bodyNil {
				r.Bad("C14/ROUTES/client", cons, site, "client sends %s %s without a body, but the matched handler %s decodes JSON from req.Body: the server answers 500 (decode of an empty body fails)", method, tmpl, shortFn(match.handler))
				return
			}
			if decodes && len(needs) > 0 {
				if bodyLit == nil {
					r.Undecided("C14/ROUTES/client", cons, site, "request body is not a constant literal; cannot check fields %v", needs)
					return
				}
				var m map[string]interface{}
				if err := json.Unmarshal(bodyLit, &m); err != nil {
					r.Bad("C14/ROUTES/client", cons, site, "request body literal %q is not valid JSON", bodyLit)
					return
				}
				for _, k := range needs {
					if v, ok := m[k]; !ok || !reflect.DeepEqual(v, true) {
						r.Bad("C14/ROUTES/client", cons, site, "request body %s does not set %q to true, which handler %s requires to act", bodyLit, k, shortFn(match.handler))
						return
					}
				}
			}
			r.Ok("C14/ROUTES/client", cons, site, "%s %s matches route %s%s → %s (body: %v)", method, tmpl, strings.TrimRight(prefix, "/"), match.path, shortFn(match.handler), !bodyNil)
		})
	}
	r.Floor("C14/ROUTES/client", "client request sites", nOps, 1)
	// encoding discipline: every operation passes do() a uri whose variable segments are
	// already percent-encoded (url.QueryEscape); do() must hand it to an API that takes an
	// ENCODED path (URL.JoinPath, URL.Parse, url.Parse) and never to one that takes a DECODED
	// path (URL.Path field, path.Join), which would escape the '%' a second time
	uriP := do.Params[3]
	var encProbs []string
	accepted := 0
	seenV := map[ssa.Value]bool{uriP: true}
	work := []ssa.Value{uriP}
	for len(work) > 0 {
		v := work[len(work)-1]
		work = work[:len(work)-1]
		if v.Referrers() == nil {
			continue
		}
		for _, ref := range *v.Referrers() {
			switch x := ref.(type) {
			case *ssa.Call:
				name := eng.CalleeName(x.Common())
				switch name {
				case "(*net/url.URL).JoinPath", "(*net/url.URL).Parse", "net/url.Parse", "net/url.ParseRequestURI":
					accepted++
				case "path.Join", "path/filepath.Join", "net/url.PathEscape", "net/url.QueryEscape":
					encProbs = append(encProbs, "the already-encoded uri is passed to "+name+" at "+p.InstrPos(x)+", which treats it as a decoded path")
				case "fmt.Errorf", "fmt.Sprintf":
				default:
					if !seenV[x] {
						seenV[x] = true
						work = append(work, x)
					}
				}
			case *ssa.Store:
				if fa, ok := x.Addr.(*ssa.FieldAddr); ok {
					if f := eng.FieldOfAddr(fa); f != nil && f.Name() == "Path" && f.Pkg() != nil && f.Pkg().Path() == "net/url" {
						encProbs = append(encProbs, "the already-encoded uri is stored into url.URL.Path at "+p.InstrPos(x)+" (a decoded field): '%' is escaped again on the wire, so a mailbox name with URL-significant characters addresses a different mailbox")
					}
				}
				if ia, ok := x.Addr.(*ssa.IndexAddr); ok {
					if al, ok := ia.X.(*ssa.Alloc); ok {
						for _, r3 := range *al.Referrers() {
							if sl, ok := r3.(*ssa.Slice); ok && !seenV[sl] {
								seenV[sl] = true
								work = append(work, sl)
							}
						}
					}
				}
			case *ssa.MakeInterface, *ssa.Phi, *ssa.Slice, *ssa.BinOp:
				nv := ref.(ssa.Value)
				if !seenV[nv] {
					seenV[nv] = true
					work = append(work, nv)
				}
			}
		}
	}
	if accepted == 0 && len(encProbs) == 0 {
		encProbs = append(encProbs, "do() does not hand the uri to URL.JoinPath / URL.Parse: the rule cannot tell how the encoded segments reach the wire")
	}
	if len(encProbs) > 0 {
		r.Bad("C14/ROUTES/client", "url-encoding@"+shortFn(do), p.Pos(do.Pos()), "%s", strings.Join(encProbs, "; "))
	} else {
		r.Ok("C14/ROUTES/client", "url-encoding@"+shortFn(do), p.Pos(do.Pos()), "the encoded uri reaches the request only through an API that takes an encoded path (%d site)", accepted)
	}
}

// constBytes returns the literal of a []byte("...") conversion.
func constBytes(v ssa.Value) []byte {
	if cv, ok := v.(*ssa.Convert); ok {
		if s, ok := eng.ConstString(cv.X); ok {
			return []byte(s)
		}
	}
	return nil
}

func jsonName(f *types.Var, p *eng.Prog) string {
	// find the struct tag
	for _, pk := range p.Pkgs {
		if pk.Types != f.Pkg() {
			continue
		}
		sc := pk.Types.Scope()
		for _, n := range sc.Names() {
			tn, ok := sc.Lookup(n).(*types.TypeName)
			if !ok {
				continue
			}
			st, ok := tn.Type().Underlying().(*types.Struct)
			if !ok {
				continue
			}
			for i := 0; i < st.NumFields(); i++ {
				if st.Field(i) == f {
					tag := reflect.StructTag(st.Tag(i)).Get("json")
					if tag != "" {
						return strings.Split(tag, ",")[0]
					}
				}
			}
		}
	}
	return f.Name()
}

// ---- D5 fields ----

func (c *Ctx) c14Fields(handlers []*ssa.Function) {
	p, r := c.P, c.R
	meta := p.Named("pkg/extension/event", "MessageMetadata")
	if meta == nil {
		return
	}
	metaFields := map[string]bool{}
	ms := meta.Underlying().(*types.Struct)
	for i := 0; i < ms.NumFields(); i++ {
		metaFields[ms.Field(i).Name()] = true
	}
	n := 0
	for _, H := range handlers {
		pk := eng.FuncPkgPath(H)
		if pk != eng.Mod+"/pkg/rest" && pk != eng.Mod+"/pkg/webui" {
			continue
		}
		fd, ok := H.Syntax().(*ast.FuncDecl)
		if !ok {
			continue
		}
		info := p.ByPath[pk].TypesInfo
		ast.Inspect(fd, func(nd ast.Node) bool {
			cl, ok := nd.(*ast.CompositeLit)
			if !ok {
				return true
			}
			t := info.TypeOf(cl)
			named, ok := t.(*types.Named)
			if !ok {
				return true
			}
			st, ok := named.Underlying().(*types.Struct)
			if !ok {
				return true
			}
			tp := named.Obj().Pkg().Path()
			isModel := tp == eng.Mod+"/pkg/rest/model" || (tp == eng.Mod+"/pkg/webui" && strings.HasPrefix(named.Obj().Name(), "json"))
			if !isModel {
				return true
			}
			// only the message / header models (those that mirror metadata)
			mirrors := 0
			for i := 0; i < st.NumFields(); i++ {
				if metaFields[st.Field(i).Name()] {
					mirrors++
				}
			}
			if mirrors < 5 {
				return true
			}
			if len(cl.Elts) == 0 {
				return true // zero value used as a decode target, not a response
			}
			n++
			cons := shortFn(H) + ":" + named.Obj().Name()
			site := p.Pos(cl.Pos())
			set := map[string]ast.Expr{}
			for _, el := range cl.Elts {
				if kv, ok := el.(*ast.KeyValueExpr); ok {
					if id, ok := kv.Key.(*ast.Ident); ok {
						set[id.Name] = kv.Value
					}
				}
			}
			// a field left out of the literal and filled in afterwards (reply.HTML = str):
			// an assignment, in the same handler, to that field of a value of the model type
			later := map[string]ast.Expr{}
			ast.Inspect(fd, func(n2 ast.Node) bool {
				as, ok := n2.(*ast.AssignStmt)
				if !ok || len(as.Lhs) != len(as.Rhs) {
					return true
				}
				for i, lh := range as.Lhs {
					sel, ok := lh.(*ast.SelectorExpr)
					if !ok || as.Pos() < cl.End() {
						continue
					}
					bt := info.TypeOf(sel.X)
					if pt, isP := bt.(*types.Pointer); isP {
						bt = pt.Elem()
					}
					if bt != nil && types.Identical(bt, named) {
						later[sel.Sel.Name] = as.Rhs[i]
					}
				}
				return true
			})
			var missing, wrong []string
			for i := 0; i < st.NumFields(); i++ {
				f := st.Field(i)
				if !f.Exported() {
					continue
				}
				val, ok := set[f.Name()]
				if !ok {
					val, ok = later[f.Name()]
				}
				if !ok {
					missing = append(missing, f.Name())
					continue
				}
				if metaFields[f.Name()] && f.Name() != "Mailbox" {
					if !exprSelects(val, f.Name(), info, meta) {
						wrong = append(wrong, f.Name())
					}
				}
				if f.Name() == "PosixMillis" && !exprSelects(val, "Date", info, meta) && !exprSelects(val, "PosixMillis", info, meta) {
					wrong = append(wrong, f.Name())
				}
			}
			switch {
			case len(missing) > 0:
				r.Bad("C14/FIELDS", cons, site, "JSON literal leaves exported field(s) %v at their zero value", missing)
			case len(wrong) > 0:
				r.Bad("C14/FIELDS", cons, site, "field(s) %v are not read from the like-named MessageMetadata field", wrong)
			default:
				r.Ok("C14/FIELDS", cons, site, "all %d exported fields set; metadata mirrors read from like-named fields", st.NumFields())
			}
			return true
		})
	}
	r.Floor("C14/FIELDS", "message/header JSON literals in handlers", n, 1)
}

// exprSelects: expression contains a selector .name on a value whose type has the
// MessageMetadata field of that name.
func exprSelects(e ast.Expr, name string, info *types.Info, meta *types.Named) bool {
	found := false
	ast.Inspect(e, func(nd ast.Node) bool {
		se, ok := nd.(*ast.SelectorExpr)
		if !ok || se.Sel.Name != name {
			return true
		}
		if sel, ok := info.Selections[se]; ok && sel.Kind() == types.FieldVal {
			if v, ok := sel.Obj().(*types.Var); ok {
				ms := meta.Underlying().(*types.Struct)
				for i := 0; i < ms.NumFields(); i++ {
					if ms.Field(i) == v {
						found = true
					}
				}
				// the like-named field of another JSON model record (header := messageHeaderV1(…);
				// ID: header.ID): that record's own literal is held to this rule
				if v.Pkg() != nil && (v.Pkg().Path() == eng.Mod+"/pkg/rest/model" || v.Pkg().Path() == eng.Mod+"/pkg/webui") {
					if bt := info.TypeOf(se.X); bt != nil {
						if pt, isP := bt.(*types.Pointer); isP {
							bt = pt.Elem()
						}
						if n, isN := bt.(*types.Named); isN {
							if st, isS := n.Underlying().(*types.Struct); isS {
								mirrors := 0
								for i := 0; i < st.NumFields(); i++ {
									for j := 0; j < ms.NumFields(); j++ {
										if st.Field(i).Name() == ms.Field(j).Name() {
											mirrors++
										}
									}
								}
								if mirrors >= 5 {
									found = true
								}
							}
						}
					}
				}
			}
		}
		return true
	})
	return found
}

// writes404: the call is http.NotFound, or a module helper that calls it on every path
// (notFound(w, req) { http.NotFound(w, req); return nil }).
func writes404(call *ssa.Call, depth int) bool {
	if eng.CalleeName(call.Common()) == "net/http.NotFound" {
		return true
	}
	g := eng.StaticCallee(call.Common())
	if g == nil || depth > 2 || !eng.InModule(g) || len(g.Blocks) == 0 {
		return false
	}
	is404 := func(in ssa.Instruction) bool {
		c2, ok := in.(*ssa.Call)
		return ok && writes404(c2, depth+1)
	}
	return (&eng.Search{Target: eng.IsReturnOf(g), Avoid: is404}).FromEntry(g) == nil
}

// helper404: g receives a Manager error in parameter prm; on every path where that error may
// be storage.ErrNotExist, g must not return a non-nil error and must not return nil without
// http.NotFound. Returns a complaint or "".
func (c *Ctx) helper404(sm *storeModel, g *ssa.Function, prm *ssa.Parameter, depth int) string {
	p := c.P
	if depth > 2 {
		return "is too deep to follow"
	}
	bad := ""
	sm.an.Paths(g, func(in ssa.Instruction, ps *eng.PathState) {
		ret, ok := in.(*ssa.Return)
		if !ok || bad != "" || (eng.IsRecoverBlock(ret.Block()) && !eng.DefersMayRecover(g)) {
			return
		}
		var e ssa.Value = prm
		// the parameter's nil-state on this path comes from the branch facts only
		if st, known := ps.Nil[e]; known && st&eng.NSNon == 0 {
			return
		}
		sf, has := ps.Sent[e]
		if has && sf.Sentinel == sm.errNotExist && !sf.Eq {
			return
		}
		results := eng.ReturnResults(ret)
		if len(results) == 0 {
			return
		}
		rst := sm.an.Eval(results[len(results)-1], ps.Nil, ret.Block())
		if rst&eng.NSNon != 0 {
			bad = fmt.Sprintf("returns a possibly non-nil error at %s on a path where that error may be storage.ErrNotExist: a missing message is answered 500 instead of 404", p.InstrPos(ret))
			return
		}
		wrote := false
		for _, prev := range ps.Trace {
			if call, ok := prev.(*ssa.Call); ok && writes404(call, 0) {
				wrote = true
			}
		}
		definitelyNF := has && sf.Sentinel == sm.errNotExist && sf.Eq
		st, known := ps.Nil[e]
		if !wrote && (definitelyNF || known && st == eng.NSNon) {
			bad = fmt.Sprintf("returns success at %s without http.NotFound on a path where that error is set (possibly storage.ErrNotExist)", p.InstrPos(ret))
		}
	})
	return bad
}

// structFieldValues: for a struct value rv built as a composite literal (load of a local
// Alloc whose fields are stored), the values stored into field number field; zero reports
// that rv is the zero value of the struct.
func structFieldValues(rv ssa.Value, field int) (vals []ssa.Value, zero bool) {
	if c, ok := rv.(*ssa.Const); ok && c.Value == nil {
		return nil, true
	}
	u, ok := rv.(*ssa.UnOp)
	if !ok {
		return nil, false
	}
	al, ok := u.X.(*ssa.Alloc)
	if !ok || al.Referrers() == nil {
		return nil, false
	}
	stores := 0
	for _, ref := range *al.Referrers() {
		fa, ok := ref.(*ssa.FieldAddr)
		if !ok {
			continue
		}
		for _, r2 := range *fa.Referrers() {
			if st, ok := r2.(*ssa.Store); ok {
				stores++
				if fa.Field == field {
					vals = append(vals, st.Val)
				}
			}
		}
	}
	if stores == 0 {
		return nil, true // messageRef{} : nothing stored
	}
	return vals, false
}

// mgrOps lists the methods of the Manager interface.
func mgrOps(mi *types.Interface) []*types.Func {
	var out []*types.Func
	for i := 0; i < mi.NumMethods(); i++ {
		out = append(out, mi.Method(i))
	}
	return out
}

// mgrOpThroughValue: call invokes, through a function-typed parameter, a method value of the
// Manager interface (one of ops) at every call site of the enclosing function; the method (of
// the first site) is returned, nil otherwise.
func (c *Ctx) mgrOpThroughValue(call *ssa.Call, ops ...*types.Func) *types.Func {
	cc := call.Common()
	prm, ok := cc.Value.(*ssa.Parameter)
	if !ok || cc.IsInvoke() {
		return nil
	}
	vals, known := c.P.ActualsOf(prm)
	if !known || len(vals) == 0 {
		return nil
	}
	var found *types.Func
	for _, v := range vals {
		mc, ok := eng.StripConv(v).(*ssa.MakeClosure)
		if !ok {
			return nil
		}
		w, ok := mc.Fn.(*ssa.Function)
		if !ok || w.Synthetic == "" || len(w.Blocks) != 1 {
			return nil
		}
		var m *types.Func
		for _, in := range w.Blocks[0].Instrs {
			c2, ok := in.(*ssa.Call)
			if !ok || !c2.Call.IsInvoke() {
				continue
			}
			for _, o := range ops {
				if c2.Call.Method == o || c2.Call.Method.Name() == o.Name() && eng.IsCallTo(c2.Common(), o) {
					m = o
				}
			}
		}
		if m == nil {
			return nil
		}
		if found == nil {
			found = m
		}
	}
	return found
}

// c14RouteEffects: each REST route does what its method and path say. The mapping is the API's
// own (doc/rest-api): DELETE of a mailbox purges it, DELETE of a message removes it, PATCH marks
// it seen, GET of a mailbox lists it, GET of a message / its source reads it. The handler a
// route is bound to must reach the corresponding Manager operation, and where the call sits in
// the handler itself, every success return must have passed it: a handler that answers 200
// without having asked the store reports a change that did not happen.
func (c *Ctx) c14RouteEffects() {
	r, p := c.R, c.P
	rule := "C14/ROUTES/effect"
	r.Rule(rule, "every /v1/mailbox route's handler reaches the Manager operation its method and path name (DELETE {name} → PurgeMessages, DELETE {id} → RemoveMessage, PATCH {id} → MarkSeen, GET {name} → GetMetadata, GET {id} → GetMessage, GET {id}/source → SourceReader); a call made in the handler itself lies on every path to a success return")
	setup := p.Func("pkg/rest", "SetupRoutes")
	if setup == nil {
		return
	}
	want := func(rt route) string {
		path := strings.TrimSuffix(rt.path, "/")
		switch {
		case !strings.Contains(path, "/mailbox/"):
			return ""
		case rt.method == "DELETE" && strings.HasSuffix(path, "{name}"):
			return "PurgeMessages"
		case rt.method == "DELETE" && strings.HasSuffix(path, "{id}"):
			return "RemoveMessage"
		case rt.method == "PATCH" && strings.HasSuffix(path, "{id}"):
			return "MarkSeen"
		case rt.method == "GET" && strings.HasSuffix(path, "{name}"):
			return "GetMetadata"
		case rt.method == "GET" && strings.HasSuffix(path, "{id}"):
			return "GetMessage"
		case rt.method == "GET" && strings.HasSuffix(path, "{id}/source"):
			return "SourceReader"
		}
		return ""
	}
	n := 0
	for _, rt := range c.routesOf(setup) {
		op := want(rt)
		if op == "" {
			continue
		}
		n++
		cons := rt.method + " " + rt.path
		obj := p.MethodObj("pkg/message", "Manager", op)
		if obj == nil {
			continue
		}
		if rt.handler == nil {
			r.Undecided(rule, cons, rt.site, "the handler bound to this route could not be resolved to a function")
			continue
		}
		isOp := func(in ssa.Instruction) bool {
			cc := eng.CallOf(in)
			return cc != nil && eng.IsCallTo(cc, obj)
		}
		reached, inHandler := false, false
		for _, g := range c.handlerRuns(rt.handler) {
			g := g
			eng.EachInstr(g, func(in ssa.Instruction) {
				if isOp(in) {
					reached = true
					if g == rt.handler {
						inHandler = true
					}
				}
				// the operation handed on as a method value (applyMessageOpV1(…, ctx.Manager.MarkSeen, …))
				if mc, ok := in.(*ssa.MakeClosure); ok {
					if f, ok := mc.Fn.(*ssa.Function); ok && strings.HasSuffix(f.Name(), op+"$bound") {
						reached = true
					}
				}
			})
		}
		if !reached {
			r.Bad(rule, cons, rt.site, "%s is bound to %s, which never calls Manager.%s: the request is answered without the store being asked (a %s that changes or reads nothing)", cons, shortFn(rt.handler), op, rt.method)
			continue
		}
		if inHandler && op != "MarkSeen" {
			succ := func(in ssa.Instruction) bool {
				ret, ok := in.(*ssa.Return)
				if !ok || eng.IsRecoverBlock(ret.Block()) {
					return false
				}
				res := eng.ReturnResults(ret)
				if len(res) == 0 {
					return true
				}
				e := res[len(res)-1]
				return eng.IsNilConst(e) || eng.KnownNil(e, ret.Block())
			}
			if bad := (&eng.Search{Target: succ, Avoid: isOp}).FromEntry(rt.handler); bad != nil {
				r.Bad(rule, cons, p.InstrPos(bad), "%s can answer with success at %s without having called Manager.%s", shortFn(rt.handler), p.InstrPos(bad), op)
				continue
			}
		}
		r.Ok(rule, cons, rt.site, "%s reaches Manager.%s", shortFn(rt.handler), op)
	}
	r.Floor(rule, "mailbox routes with a named effect", n, 4)
}

// c14ErrPropagate: a failure of the layer below is never reported as success. In the handlers
// (and the helpers judged like handlers) every Manager call's error, and in StoreManager every
// Store call's error, leads — on its non-nil edge — only to returns that report an error; the
// not-found answer (a comparison with the sentinel, answered 404) is the one excuse.
func (c *Ctx) c14ErrPropagate(units []*ssa.Function) {
	r, p := c.R, c.P
	rule := "C14/ERR/propagate"
	r.Rule(rule, "in the HTTP handlers every message.Manager call, and in StoreManager every storage.Store call, has its error tested, and no return reachable on the error edge reports success (except after a comparison with the not-found sentinel)")
	mgr := p.Named("pkg/message", "Manager")
	store := p.Named("pkg/storage", "Store")
	if mgr == nil || store == nil {
		return
	}
	ofIface := func(cc *ssa.CallCommon, n *types.Named) bool {
		if !cc.IsInvoke() {
			return false
		}
		it, ok := n.Underlying().(*types.Interface)
		if !ok {
			return false
		}
		for i := 0; i < it.NumMethods(); i++ {
			if it.Method(i) == cc.Method {
				return true
			}
		}
		return false
	}
	retErr := func(call *ssa.Call) bool {
		res := call.Call.Signature().Results()
		return res.Len() > 0 && isErrorType(res.At(res.Len()-1).Type())
	}
	var hfns []*ssa.Function
	seen := map[*ssa.Function]bool{}
	for _, u := range units {
		for _, g := range eng.WithAnons(u) {
			if !seen[g] {
				seen[g] = true
				hfns = append(hfns, g)
			}
		}
	}
	c.errLenient = true
	defer func() { c.errLenient = false }()
	nH := c.errNotSwallowedCalls(rule, hfns, func(call *ssa.Call) (string, bool) {
		if !ofIface(call.Common(), mgr) || !retErr(call) {
			return "", false
		}
		return "Manager." + call.Call.Method.Name(), true
	}, true, "the client is told the operation succeeded although the message manager reported a failure")
	c.errLenient = false
	var sfns []*ssa.Function
	if smT := p.Named("pkg/message", "StoreManager"); smT != nil {
		for _, fn := range pkgFuncs(p, "pkg/message") {
			if rc := fn.Signature.Recv(); rc != nil && fn.Parent() == nil {
				t := rc.Type()
				if pt, ok := t.(*types.Pointer); ok {
					t = pt.Elem()
				}
				if types.Identical(t, smT) {
					sfns = append(sfns, eng.WithAnons(fn)...)
				}
			}
		}
	}
	nS := c.errNotSwallowedCalls(rule, sfns, func(call *ssa.Call) (string, bool) {
		if !ofIface(call.Common(), store) || !retErr(call) {
			return "", false
		}
		return "Store." + call.Call.Method.Name(), true
	}, true, "the manager reports success although the store failed: the API then shows a state the store does not have")
	r.Floor(rule, "Manager calls in handlers + Store calls in StoreManager", nH+nS, 6)
}

// handlerRuns: what a registered handler runs synchronously in its own package — its static
// callees and the functions it reaches through function values handed down as a parameter or a
// receiver (mailboxActionV1(f).handle → f).
func (c *Ctx) handlerRuns(h *ssa.Function) []*ssa.Function {
	seen := map[*ssa.Function]bool{}
	var out []*ssa.Function
	// walk with the arguments of the call that led into each function, so that a function
	// value handed down as a parameter or receiver (mailboxActionV1(f).handle) is followed
	// to the function it denotes here, not to every function the call site may run
	var walk func(g *ssa.Function, args []ssa.Value, depth int)
	walk = func(g *ssa.Function, args []ssa.Value, depth int) {
		if g == nil || depth > 5 || len(g.Blocks) == 0 || eng.FuncPkgPath(g) != eng.FuncPkgPath(h) {
			return
		}
		if !seen[g] {
			seen[g] = true
			out = append(out, g)
		}
		for _, u := range eng.WithAnons(g) {
			eng.EachInstr(u, func(in ssa.Instruction) {
				call, ok := in.(*ssa.Call)
				if !ok || call.Call.IsInvoke() {
					return
				}
				if t := eng.StaticCallee(call.Common()); t != nil {
					if !seen[t] || len(call.Call.Args) > 0 {
						walk(t, call.Call.Args, depth+1)
					}
					return
				}
				// through a parameter of g bound at the call that led here
				if prm, isP := call.Call.Value.(*ssa.Parameter); isP && prm.Parent() == g {
					if pi := eng.ParamIndex(prm); pi >= 0 && pi < len(args) {
						if t, _, ok := eng.FuncValueOf(args[pi]); ok && t != nil {
							walk(t, call.Call.Args, depth+1)
						}
					}
				}
			})
		}
	}
	walk(h, nil, 0)
	sortFuncs(out)
	return out
}

// c14ClientErrors: the Go client reports what the server answered. In pkg/rest/client every
// error the code tests is handed back on its failure branch, and every function that receives an
// HTTP response looks at its status: on the edge where the status is not 200 no return reports
// success. A client method that returns nil for a 404 or a 500 tells its caller that a message
// was marked, deleted or purged when it was not.
func (c *Ctx) c14ClientErrors() {
	r, p := c.R, c.P
	rule := "C14/CLIENT/errors"
	r.Rule(rule, "in pkg/rest/client every tested error is reported on its failure branch, and every function that holds an *http.Response compares its StatusCode with 200 and reports an error on the other edge")
	fns := pkgFuncs(p, "pkg/rest/client")
	n := c.storeErrorsPropagate(rule, fns, "the client reports success although the request failed")
	r.Floor(rule, "tested errors in the REST client", n, 3)
	// status discipline
	isStatus := func(v ssa.Value) bool {
		f := eng.LoadedField(eng.StripConv(v))
		return f != nil && f.Name() == "StatusCode" && f.Pkg() != nil && f.Pkg().Path() == "net/http"
	}
	nResp := 0
	for _, fn := range fns {
		fn := fn
		// does fn obtain a response?
		var got ssa.Instruction
		eng.EachInstr(fn, func(in ssa.Instruction) {
			call, ok := in.(*ssa.Call)
			if !ok || got != nil {
				return
			}
			res := call.Call.Signature().Results()
			for i := 0; i < res.Len(); i++ {
				if pt, ok := res.At(i).Type().(*types.Pointer); ok {
					if nm, ok := pt.Elem().(*types.Named); ok && nm.Obj().Name() == "Response" && nm.Obj().Pkg() != nil && nm.Obj().Pkg().Path() == "net/http" {
						got = in
					}
				}
			}
		})
		if got == nil {
			continue
		}
		// a function that hands the response on to its caller leaves the status to the caller
		returnsResp := false
		rs := fn.Signature.Results()
		for i := 0; i < rs.Len(); i++ {
			if pt, ok := rs.At(i).Type().(*types.Pointer); ok {
				if nm, ok := pt.Elem().(*types.Named); ok && nm.Obj().Name() == "Response" {
					returnsResp = true
				}
			}
		}
		if returnsResp {
			continue
		}
		nResp++
		cons := "status@" + shortFn(fn)
		var badEdges []*ssa.BasicBlock
		tested := false
		for _, b := range fn.Blocks {
			for k := 0; k < len(b.Succs) && len(b.Succs) == 2; k++ {
				rel, ok := eng.EdgeRel(b, k)
				if !ok || !isStatus(rel.X) {
					continue
				}
				kv, isC := eng.ConstInt(rel.Y)
				if !isC || kv != 200 {
					continue
				}
				tested = true
				if rel.Op == token.NEQ {
					badEdges = append(badEdges, b.Succs[k])
				}
			}
		}
		if !tested {
			// the status may be judged by a helper that is handed the response and whose verdict
			// this function returns (return statusError(resp))
			delegated := false
			eng.EachInstr(fn, func(in ssa.Instruction) {
				hc, ok := in.(*ssa.Call)
				if !ok || delegated {
					return
				}
				g := eng.StaticCallee(hc.Common())
				if g == nil || eng.FuncPkgPath(g) != eng.FuncPkgPath(fn) || len(g.Blocks) == 0 {
					return
				}
				takesResp := false
				for _, a := range hc.Call.Args {
					if pt, ok := a.Type().(*types.Pointer); ok {
						if nm, ok := pt.Elem().(*types.Named); ok && nm.Obj().Name() == "Response" && nm.Obj().Pkg() != nil && nm.Obj().Pkg().Path() == "net/http" {
							takesResp = true
						}
					}
				}
				if !takesResp {
					return
				}
				// the helper tests the status and reports an error on the non-200 edge
				okHelper := false
				for _, b := range g.Blocks {
					for k := 0; k < len(b.Succs) && len(b.Succs) == 2; k++ {
						rel, ok := eng.EdgeRel(b, k)
						if !ok || !isStatus(rel.X) || rel.Op != token.NEQ {
							continue
						}
						if kv, isC := eng.ConstInt(rel.Y); isC && kv == 200 {
							bad := (&eng.Search{Target: func(x ssa.Instruction) bool {
								ret, isRet := x.(*ssa.Return)
								if !isRet {
									return false
								}
								res := eng.ReturnResults(ret)
								e := res[len(res)-1]
								return !(definitelyNonNilErr(e) || eng.KnownNonNil(e, ret.Block()))
							}}).FromBlockStart(b.Succs[k])
							okHelper = bad == nil
						}
					}
				}
				if !okHelper {
					return
				}
				// …and this function returns the helper's verdict
				if hc.Referrers() != nil {
					for _, ref := range *hc.Referrers() {
						switch y := ref.(type) {
						case *ssa.Return:
							delegated = true
						case *ssa.Extract:
							if y.Referrers() != nil {
								for _, r2 := range *y.Referrers() {
									if _, isRet := r2.(*ssa.Return); isRet {
										delegated = true
									}
								}
							}
						}
					}
				}
				if !delegated {
					okM, _, _ := c.errFate(fn, hc, false, nil, "status check", hc, "", 0)
					delegated = okM != ""
				}
			})
			if delegated {
				r.Ok(rule, cons, p.InstrPos(got), "the status is judged by a helper whose verdict the function returns")
				continue
			}
			r.Bad(rule, cons, p.InstrPos(got), "%s receives an HTTP response and never compares its status with 200: a 404 or a 500 is reported to the caller as success", shortFn(fn))
			continue
		}
		succ := func(in ssa.Instruction) bool {
			ret, ok := in.(*ssa.Return)
			if !ok || eng.IsRecoverBlock(ret.Block()) {
				return false
			}
			res := eng.ReturnResults(ret)
			if len(res) == 0 {
				return true
			}
			e := res[len(res)-1]
			return !(definitelyNonNilErr(e) || eng.KnownNonNil(e, ret.Block()))
		}
		var bad ssa.Instruction
		for _, st := range badEdges {
			if x := (&eng.Search{Target: succ}).FromBlockStart(st); x != nil {
				bad = x
			}
		}
		if bad != nil {
			r.Bad(rule, cons, p.InstrPos(bad), "%s can report success at %s although the response status is not 200", shortFn(fn), p.InstrPos(bad))
		} else {
			r.Ok(rule, cons, p.InstrPos(got), "a status other than 200 is reported as an error")
		}
	}
	r.Floor(rule, "client functions that receive a response", nResp, 2)
}
