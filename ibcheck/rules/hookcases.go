package rules

import (
	"go/token"
	"go/types"
	"strings"

	"golang.org/x/tools/go/ssa"

	"ibcheck/eng"
)

// A before-hook's answer is one of four abstract cases. Every branch of an SMTP handler that
// depends on the answer compares either the answer with nil or its action with a constant,
// so the set of CFG edges that can be taken is determined per case (a finite case analysis
// over comparisons, no arithmetic).
type hookCase int

const (
	hcNil hookCase = iota
	hcDefer
	hcAllow
	hcDeny
)

func (h hookCase) String() string {
	return [...]string{"no answer", "Defer", "Allow", "Deny"}[h]
}

type hookEval struct {
	c                   *Ctx
	fn                  *ssa.Function
	emit                *ssa.Call
	res                 map[ssa.Value]bool // the answer and its aliases
	deferV, denyV, allV int64
	hasAllow            bool
}

// hookEmits lists the Emit calls of before-hooks (result type *event.SMTPResponse) in fn.
func hookEmits(fn *ssa.Function) []*ssa.Call {
	var out []*ssa.Call
	eng.EachInstr(fn, func(in ssa.Instruction) {
		call, ok := in.(*ssa.Call)
		if !ok {
			return
		}
		o := eng.CalleeObj(call.Common())
		if o == nil || o.Name() != "Emit" || !strings.Contains(eng.CalleeName(call.Common()), "EventBroker") {
			return
		}
		if strings.HasSuffix(call.Type().String(), "event.SMTPResponse") {
			out = append(out, call)
		}
	})
	return out
}

func (c *Ctx) newHookEval(fn *ssa.Function, emit *ssa.Call) *hookEval {
	h := &hookEval{c: c, fn: fn, emit: emit, res: map[ssa.Value]bool{emit: true}}
	for _, a := range eng.ValueAliases(emit) {
		h.res[a] = true
	}
	h.deferV, _ = c.actionConst("ActionDefer")
	h.denyV, _ = c.actionConst("ActionDeny")
	h.allV, h.hasAllow = c.actionConst("ActionAllow")
	return h
}

// actionKind classifies v: "raw" = load of answer.Action (meaningful only when the answer is
// non-nil), "eff" = the effective action (Defer when there is no answer, else answer.Action)
// as a phi, a local variable or a helper of that shape; "" otherwise.
func (h *hookEval) actionKind(v ssa.Value, depth int) string {
	if depth > 4 {
		return ""
	}
	v = eng.StripConv(v)
	if u, ok := v.(*ssa.UnOp); ok && u.Op == token.MUL {
		if fa, ok := u.X.(*ssa.FieldAddr); ok && eng.FieldOfAddr(fa) != nil && eng.FieldOfAddr(fa).Name() == "Action" && h.res[fa.X] {
			return "raw"
		}
	}
	resIdx := 0
	if ex, ok := v.(*ssa.Extract); ok {
		if call, ok := ex.Tuple.(*ssa.Call); ok {
			// one result of a helper that returns the effective action among other things
			// (action, denied := s.extVerdict(result))
			resIdx = ex.Index
			v = call
		}
	}
	switch x := v.(type) {
	case *ssa.Phi:
		hasDefer, hasRaw := false, false
		for _, e := range x.Edges {
			if k, isC := eng.ConstInt(e); isC && k == h.deferV {
				hasDefer = true
				continue
			}
			if h.actionKind(e, depth+1) == "raw" {
				hasRaw = true
				continue
			}
			return ""
		}
		if hasDefer && hasRaw {
			return "eff"
		}
	case *ssa.Call:
		// helper(answer): returns Defer on the nil edge of its parameter, parameter.Action otherwise
		g := eng.StaticCallee(x.Common())
		if g == nil || !eng.InModule(g) || len(g.Blocks) == 0 || len(x.Call.Args) == 0 {
			return ""
		}
		pi := -1
		for i, a := range x.Call.Args {
			if h.res[a] {
				pi = i
			}
		}
		if pi < 0 || pi >= len(g.Params) {
			return ""
		}
		prm := g.Params[pi]
		okAll, n := true, 0
		// actionEq: the block is dominated by an edge prm.Action == k
		actionEq := func(at *ssa.BasicBlock, k int64) bool {
			for _, b := range g.Blocks {
				for e := 0; e < len(b.Succs) && len(b.Succs) == 2; e++ {
					rel, ok := eng.EdgeRel(b, e)
					if !ok || rel.Op != token.EQL || !eng.EdgeDominates(b, e, at) {
						continue
					}
					kk, isC := eng.ConstInt(rel.Y)
					if !isC || kk != k {
						continue
					}
					if u, ok := eng.StripConv(rel.X).(*ssa.UnOp); ok && u.Op == token.MUL {
						if fa, ok := u.X.(*ssa.FieldAddr); ok && fa.X == ssa.Value(prm) && eng.FieldOfAddr(fa).Name() == "Action" {
							return true
						}
					}
				}
			}
			return false
		}
		eng.EachInstr(g, func(in ssa.Instruction) {
			ret, ok := in.(*ssa.Return)
			if !ok || resIdx >= len(eng.ReturnResults(ret)) {
				return
			}
			n++
			rv := eng.StripConv(eng.ReturnResults(ret)[resIdx])
			if k, isC := eng.ConstInt(rv); isC && k == h.deferV {
				if !eng.KnownNil(prm, ret.Block()) && !actionEq(ret.Block(), k) {
					okAll = false
				}
				return
			}
			// a constant returned where the answer's action is known to equal it
			if k, isC := eng.ConstInt(rv); isC && actionEq(ret.Block(), k) {
				return
			}
			if u, ok := rv.(*ssa.UnOp); ok && u.Op == token.MUL {
				if fa, ok := u.X.(*ssa.FieldAddr); ok && fa.X == ssa.Value(prm) && eng.FieldOfAddr(fa).Name() == "Action" {
					return
				}
			}
			if ph, ok := rv.(*ssa.Phi); ok {
				// φ(Defer, prm.Action)
				good := true
				for _, e := range ph.Edges {
					if k, isC := eng.ConstInt(e); isC && k == h.deferV {
						continue
					}
					if u, ok := eng.StripConv(e).(*ssa.UnOp); ok && u.Op == token.MUL {
						if fa, ok := u.X.(*ssa.FieldAddr); ok && fa.X == ssa.Value(prm) && eng.FieldOfAddr(fa).Name() == "Action" {
							continue
						}
					}
					good = false
				}
				if good {
					return
				}
			}
			okAll = false
		})
		if okAll && n > 0 {
			return "eff"
		}
	case *ssa.UnOp:
		// a local variable holding the effective action
		if ad := eng.LoadAddr(v); ad != nil {
			if cell := eng.CellOf(ad); cell != nil && !eng.CellEscapes(cell) {
				hasDefer, hasRaw := false, false
				for _, st := range eng.CellStores(cell) {
					if k, isC := eng.ConstInt(st.Val); isC && k == h.deferV {
						hasDefer = true
					} else if h.actionKind(st.Val, depth+1) == "raw" {
						hasRaw = true
					} else {
						return ""
					}
				}
				if hasDefer && hasRaw {
					return "eff"
				}
			}
		}
	}
	return ""
}

// caseAction: the action constant a kind evaluates to under hc (ok=false: undetermined).
func (h *hookEval) caseAction(kind string, hc hookCase) (int64, bool) {
	switch hc {
	case hcNil:
		if kind == "eff" {
			return h.deferV, true
		}
		return 0, false
	case hcDefer:
		return h.deferV, true
	case hcDeny:
		return h.denyV, true
	case hcAllow:
		if h.hasAllow {
			return h.allV, true
		}
	}
	return 0, false
}

// feasible returns an edge filter: edges whose condition is decided by the case and
// contradicts it are removed.
func (h *hookEval) feasible(hc hookCase) eng.EdgeOK {
	return func(b *ssa.BasicBlock, k int) bool {
		// a boolean the helper that received the answer returned (denied, ok, …)
		if v, pol, ok := eng.CondTruth(b, k); ok {
			if bv, known := h.helperBool(v, hc); known && bv != pol {
				return false
			}
		}
		rel, ok := eng.EdgeRel(b, k)
		if !ok {
			return true
		}
		x, y := rel.X, rel.Y
		if eng.IsNilConst(x) || func() bool { _, isC := eng.ConstInt(x); return isC }() {
			x, y = y, x
			rel = rel.Swap()
		}
		// answer ==/!= nil
		if eng.IsNilConst(y) && h.res[x] {
			isNil := hc == hcNil
			switch rel.Op {
			case token.EQL:
				return isNil
			case token.NEQ:
				return !isNil
			}
			return true
		}
		// action ==/!= constant
		if kk, isC := eng.ConstInt(y); isC {
			if kind := h.actionKind(x, 0); kind != "" {
				if av, known := h.caseAction(kind, hc); known {
					switch rel.Op {
					case token.EQL:
						return av == kk
					case token.NEQ:
						return av != kk
					}
				}
			}
		}
		return true
	}
}

// newHookEvalParam evaluates a helper that receives the hook's answer in parameter prm.
func (c *Ctx) newHookEvalParam(g *ssa.Function, prm *ssa.Parameter) *hookEval {
	h := &hookEval{c: c, fn: g, res: map[ssa.Value]bool{prm: true}}
	for _, a := range eng.ValueAliases(prm) {
		h.res[a] = true
	}
	h.deferV, _ = c.actionConst("ActionDefer")
	h.denyV, _ = c.actionConst("ActionDeny")
	h.allV, h.hasAllow = c.actionConst("ActionAllow")
	return h
}

// helperOf: v is (a result of) a call of a module helper that receives the answer; returns
// the call, the result index and the parameter bound to the answer.
func (h *hookEval) helperOf(v ssa.Value) (*ssa.Call, int, *ssa.Parameter) {
	idx := 0
	call, ok := v.(*ssa.Call)
	if ex, isEx := v.(*ssa.Extract); isEx {
		call, ok = ex.Tuple.(*ssa.Call)
		idx = ex.Index
	}
	if !ok || call == nil {
		return nil, 0, nil
	}
	g := eng.StaticCallee(call.Common())
	if g == nil || !eng.InModule(g) || len(g.Blocks) == 0 {
		return nil, 0, nil
	}
	for i, a := range call.Call.Args {
		if h.res[a] && i < len(g.Params) {
			return call, idx, g.Params[i]
		}
	}
	return nil, 0, nil
}

// helperBool: the constant boolean a helper that received the answer returns under case hc
// (known=false when the reachable returns disagree or are not constants).
func (h *hookEval) helperBool(v ssa.Value, hc hookCase) (bool, bool) {
	call, idx, prm := h.helperOf(v)
	if call == nil {
		return false, false
	}
	g := prm.Parent()
	if b, isB := g.Signature.Results().At(idx).Type().Underlying().(*types.Basic); !isB || b.Kind() != types.Bool {
		return false, false
	}
	sub := h.c.newHookEvalParam(g, prm)
	var vals []bool
	undet := false
	eng.EachInstr(g, func(in ssa.Instruction) {
		ret, ok := in.(*ssa.Return)
		if !ok || eng.IsRecoverBlock(ret.Block()) {
			return
		}
		// reachable under the case?
		if (&eng.Search{Target: func(x ssa.Instruction) bool { return x == in }, Edge: sub.feasible(hc)}).FromEntry(g) == nil {
			return
		}
		res := eng.ReturnResults(ret)
		if idx >= len(res) {
			undet = true
			return
		}
		bv, isC := eng.ConstBool(res[idx])
		if !isC {
			undet = true
			return
		}
		vals = append(vals, bv)
	})
	if undet || len(vals) == 0 {
		return false, false
	}
	for _, x := range vals[1:] {
		if x != vals[0] {
			return false, false
		}
	}
	return vals[0], true
}
