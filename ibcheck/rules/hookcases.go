package rules

import (
	"go/token"
	"strings"

	"golang.org/x/tools/go/ssa"

	"ibcheck/eng"
)

// A before-hook's answer is one of four abstract cases. Every branch of an SMTP handler that
// depends on the answer compares either the answer with nil or its action with a constant,
// so the set of CFG edges that can be taken is determined per case (a finite case analysis
// over comparisons, no arithmetic).
type hookCase int

const (
	hcNil hookCase = iota
	hcDefer
	hcAllow
	hcDeny
)

func (h hookCase) String() string {
	return [...]string{"no answer", "Defer", "Allow", "Deny"}[h]
}

type hookEval struct {
	c                   *Ctx
	fn                  *ssa.Function
	emit                *ssa.Call
	res                 map[ssa.Value]bool // the answer and its aliases
	deferV, denyV, allV int64
	hasAllow            bool
}

// hookEmits lists the Emit calls of before-hooks (result type *event.SMTPResponse) in fn.
func hookEmits(fn *ssa.Function) []*ssa.Call {
	var out []*ssa.Call
	eng.EachInstr(fn, func(in ssa.Instruction) {
		call, ok := in.(*ssa.Call)
		if !ok {
			return
		}
		o := eng.CalleeObj(call.Common())
		if o == nil || o.Name() != "Emit" || !strings.Contains(eng.CalleeName(call.Common()), "EventBroker") {
			return
		}
		if strings.HasSuffix(call.Type().String(), "event.SMTPResponse") {
			out = append(out, call)
		}
	})
	return out
}

func (c *Ctx) newHookEval(fn *ssa.Function, emit *ssa.Call) *hookEval {
	h := &hookEval{c: c, fn: fn, emit: emit, res: map[ssa.Value]bool{emit: true}}
	for _, a := range eng.ValueAliases(emit) {
		h.res[a] = true
	}
	h.deferV, _ = c.actionConst("ActionDefer")
	h.denyV, _ = c.actionConst("ActionDeny")
	h.allV, h.hasAllow = c.actionConst("ActionAllow")
	return h
}

// actionKind classifies v: "raw" = load of answer.Action (meaningful only when the answer is
// non-nil), "eff" = the effective action (Defer when there is no answer, else answer.Action)
// as a phi, a local variable or a helper of that shape; "" otherwise.
func (h *hookEval) actionKind(v ssa.Value, depth int) string {
	if depth > 4 {
		return ""
	}
	v = eng.StripConv(v)
	if u, ok := v.(*ssa.UnOp); ok && u.Op == token.MUL {
		if fa, ok := u.X.(*ssa.FieldAddr); ok && eng.FieldOfAddr(fa) != nil && eng.FieldOfAddr(fa).Name() == "Action" && h.res[fa.X] {
			return "raw"
		}
	}
	switch x := v.(type) {
	case *ssa.Phi:
		hasDefer, hasRaw := false, false
		for _, e := range x.Edges {
			if k, isC := eng.ConstInt(e); isC && k == h.deferV {
				hasDefer = true
				continue
			}
			if h.actionKind(e, depth+1) == "raw" {
				hasRaw = true
				continue
			}
			return ""
		}
		if hasDefer && hasRaw {
			return "eff"
		}
	case *ssa.Call:
		// helper(answer): returns Defer on the nil edge of its parameter, parameter.Action otherwise
		g := eng.StaticCallee(x.Common())
		if g == nil || !eng.InModule(g) || len(g.Blocks) == 0 || len(x.Call.Args) == 0 {
			return ""
		}
		pi := -1
		for i, a := range x.Call.Args {
			if h.res[a] {
				pi = i
			}
		}
		if pi < 0 || pi >= len(g.Params) {
			return ""
		}
		prm := g.Params[pi]
		okAll, n := true, 0
		eng.EachInstr(g, func(in ssa.Instruction) {
			ret, ok := in.(*ssa.Return)
			if !ok || len(eng.ReturnResults(ret)) != 1 {
				return
			}
			n++
			rv := eng.StripConv(eng.ReturnResults(ret)[0])
			if k, isC := eng.ConstInt(rv); isC && k == h.deferV {
				if !eng.KnownNil(prm, ret.Block()) {
					okAll = false
				}
				return
			}
			if u, ok := rv.(*ssa.UnOp); ok && u.Op == token.MUL {
				if fa, ok := u.X.(*ssa.FieldAddr); ok && fa.X == ssa.Value(prm) && eng.FieldOfAddr(fa).Name() == "Action" {
					return
				}
			}
			if ph, ok := rv.(*ssa.Phi); ok {
				// φ(Defer, prm.Action)
				good := true
				for _, e := range ph.Edges {
					if k, isC := eng.ConstInt(e); isC && k == h.deferV {
						continue
					}
					if u, ok := eng.StripConv(e).(*ssa.UnOp); ok && u.Op == token.MUL {
						if fa, ok := u.X.(*ssa.FieldAddr); ok && fa.X == ssa.Value(prm) && eng.FieldOfAddr(fa).Name() == "Action" {
							continue
						}
					}
					good = false
				}
				if good {
					return
				}
			}
			okAll = false
		})
		if okAll && n > 0 {
			return "eff"
		}
	case *ssa.UnOp:
		// a local variable holding the effective action
		if ad := eng.LoadAddr(v); ad != nil {
			if cell := eng.CellOf(ad); cell != nil && !eng.CellEscapes(cell) {
				hasDefer, hasRaw := false, false
				for _, st := range eng.CellStores(cell) {
					if k, isC := eng.ConstInt(st.Val); isC && k == h.deferV {
						hasDefer = true
					} else if h.actionKind(st.Val, depth+1) == "raw" {
						hasRaw = true
					} else {
						return ""
					}
				}
				if hasDefer && hasRaw {
					return "eff"
				}
			}
		}
	}
	return ""
}

// caseAction: the action constant a kind evaluates to under hc (ok=false: undetermined).
func (h *hookEval) caseAction(kind string, hc hookCase) (int64, bool) {
	switch hc {
	case hcNil:
		if kind == "eff" {
			return h.deferV, true
		}
		return 0, false
	case hcDefer:
		return h.deferV, true
	case hcDeny:
		return h.denyV, true
	case hcAllow:
		if h.hasAllow {
			return h.allV, true
		}
	}
	return 0, false
}

// feasible returns an edge filter: edges whose condition is decided by the case and
// contradicts it are removed.
func (h *hookEval) feasible(hc hookCase) eng.EdgeOK {
	return func(b *ssa.BasicBlock, k int) bool {
		rel, ok := eng.EdgeRel(b, k)
		if !ok {
			return true
		}
		x, y := rel.X, rel.Y
		if eng.IsNilConst(x) || func() bool { _, isC := eng.ConstInt(x); return isC }() {
			x, y = y, x
			rel = rel.Swap()
		}
		// answer ==/!= nil
		if eng.IsNilConst(y) && h.res[x] {
			isNil := hc == hcNil
			switch rel.Op {
			case token.EQL:
				return isNil
			case token.NEQ:
				return !isNil
			}
			return true
		}
		// action ==/!= constant
		if kk, isC := eng.ConstInt(y); isC {
			if kind := h.actionKind(x, 0); kind != "" {
				if av, known := h.caseAction(kind, hc); known {
					switch rel.Op {
					case token.EQL:
						return av == kk
					case token.NEQ:
						return av != kk
					}
				}
			}
		}
		return true
	}
}
