package rules

import (
	"go/token"
	"go/types"
	"sort"
	"strings"

	"golang.org/x/tools/go/ssa"

	"ibcheck/eng"
)

func init() { Registry["C09"] = checkC09 }

// lock call classification
func lockCallKind(in ssa.Instruction) (kind string, recv ssa.Value) {
	cc := eng.CallOf(in)
	if cc == nil {
		return "", nil
	}
	switch eng.CalleeName(cc) {
	case "(*sync.Mutex).Lock", "(*sync.RWMutex).Lock":
		return "lock", cc.Args[0]
	case "(*sync.RWMutex).RLock":
		return "rlock", cc.Args[0]
	case "(*sync.Mutex).Unlock", "(*sync.RWMutex).Unlock":
		return "unlock", cc.Args[0]
	case "(*sync.RWMutex).RUnlock":
		return "runlock", cc.Args[0]
	}
	return "", nil
}

// lockerKinds: the lock operations a call through a sync.Locker value stands for, one per
// value the interface may hold: the struct itself (its embedded mutex's Lock/Unlock) or the
// read side handed out by RLocker(). Returns the mutex field and the set of kinds
// ("lock"/"rlock" for Lock, "unlock"/"runlock" for Unlock); nil when cc is not such a call.
func lockerKinds(cc *ssa.CallCommon) (*types.Var, map[string]bool) {
	if cc == nil || !cc.IsInvoke() || (cc.Method.Name() != "Lock" && cc.Method.Name() != "Unlock") {
		return nil, nil
	}
	n, ok := cc.Value.Type().(*types.Named)
	if !ok || n.Obj().Pkg() == nil || n.Obj().Pkg().Path() != "sync" || n.Obj().Name() != "Locker" {
		return nil, nil
	}
	acquire := cc.Method.Name() == "Lock"
	var field *types.Var
	kinds := map[string]bool{}
	okAll := true
	var visit func(v ssa.Value, depth int)
	visit = func(v ssa.Value, depth int) {
		if depth > 4 {
			okAll = false
			return
		}
		switch x := v.(type) {
		case *ssa.Phi:
			for _, e := range x.Edges {
				visit(e, depth+1)
			}
		case *ssa.MakeInterface:
			// the struct with an embedded mutex: its promoted Lock/Unlock
			pt, ok := x.X.Type().(*types.Pointer)
			if !ok {
				okAll = false
				return
			}
			st, ok := pt.Elem().Underlying().(*types.Struct)
			if !ok {
				okAll = false
				return
			}
			var mf *types.Var
			for i := 0; i < st.NumFields(); i++ {
				f := st.Field(i)
				if !f.Embedded() {
					continue
				}
				t := f.Type()
				if p2, isP := t.(*types.Pointer); isP {
					t = p2.Elem()
				}
				if nn, isN := t.(*types.Named); isN && nn.Obj().Pkg() != nil && nn.Obj().Pkg().Path() == "sync" && (nn.Obj().Name() == "RWMutex" || nn.Obj().Name() == "Mutex") {
					mf = f
				}
			}
			if mf == nil || field != nil && !eng.SameField(field, mf) {
				okAll = false
				return
			}
			field = mf
			if acquire {
				kinds["lock"] = true
			} else {
				kinds["unlock"] = true
			}
		case *ssa.Call:
			if eng.CalleeName(x.Common()) != "(*sync.RWMutex).RLocker" {
				okAll = false
				return
			}
			mf := mutexField(x.Call.Args[0])
			if mf == nil || field != nil && !eng.SameField(field, mf) {
				okAll = false
				return
			}
			field = mf
			if acquire {
				kinds["rlock"] = true
			} else {
				kinds["runlock"] = true
			}
		default:
			okAll = false
		}
	}
	visit(cc.Value, 0)
	if !okAll || field == nil || len(kinds) == 0 {
		return nil, nil
	}
	return field, kinds
}

// mutexField returns the struct field a mutex receiver expression denotes (embedded
// sync.Mutex by address, or embedded *sync.RWMutex by load).
func mutexField(recv ssa.Value) *types.Var {
	if f := eng.AddrField(recv); f != nil {
		return f
	}
	return eng.LoadedField(recv)
}

type lockOps struct {
	isAcq, isRel eng.Pred
	isWriteAcq   eng.Pred
}

func opsFor(field *types.Var) lockOps {
	match := func(kinds ...string) func(cc *ssa.CallCommon) bool {
		return func(cc *ssa.CallCommon) bool {
			// through a sync.Locker: every value the interface may hold must be of a wanted
			// kind (so "is a write acquisition" needs all of them to be Lock)
			if lf, lk := lockerKinds(cc); lf != nil {
				if !eng.SameField(lf, field) {
					return false
				}
				for k := range lk {
					okK := false
					for _, w := range kinds {
						if w == k {
							okK = true
						}
					}
					if !okK {
						return false
					}
				}
				return true
			}
			name := eng.CalleeName(cc)
			k := ""
			switch name {
			case "(*sync.Mutex).Lock", "(*sync.RWMutex).Lock":
				k = "lock"
			case "(*sync.RWMutex).RLock":
				k = "rlock"
			case "(*sync.Mutex).Unlock", "(*sync.RWMutex).Unlock":
				k = "unlock"
			case "(*sync.RWMutex).RUnlock":
				k = "runlock"
			default:
				return false
			}
			okK := false
			for _, w := range kinds {
				if w == k {
					okK = true
				}
			}
			return okK && eng.SameField(mutexField(cc.Args[0]), field)
		}
	}
	acq := match("lock", "rlock")
	return lockOps{
		isAcq: func(in ssa.Instruction) bool {
			c, ok := in.(*ssa.Call)
			return ok && acq(c.Common())
		},
		isWriteAcq: func(in ssa.Instruction) bool {
			c, ok := in.(*ssa.Call)
			return ok && match("lock")(c.Common())
		},
		isRel: eng.CallPred(match("unlock", "runlock")),
	}
}

// alwaysHeld: every path from entry to `at` acquires the lock and does not release it
// before `at`.
func alwaysHeld(fn *ssa.Function, at ssa.Instruction, ops lockOps, acq eng.Pred) bool {
	isAt := func(in ssa.Instruction) bool { return in == at }
	if (&eng.Search{Target: isAt, Avoid: acq}).FromEntry(fn) != nil {
		return false
	}
	okAll := true
	eng.EachInstr(fn, func(in ssa.Instruction) {
		if ops.isRel(in) && in != at {
			if (&eng.Search{Target: isAt, Avoid: acq}).After(in) != nil {
				okAll = false
			}
		}
	})
	return okAll
}

// neverHeld: no path from an acquisition reaches `at` without a release.
func neverHeld(fn *ssa.Function, at ssa.Instruction, ops lockOps) bool {
	isAt := func(in ssa.Instruction) bool { return in == at }
	okAll := true
	eng.EachInstr(fn, func(in ssa.Instruction) {
		if ops.isAcq(in) && in != at {
			if (&eng.Search{Target: isAt, Avoid: ops.isRel}).After(in) != nil {
				okAll = false
			}
		}
	})
	return okAll
}

func checkC09(c *Ctx) {
	r := c.R
	r.Explanation = "Decides the lock discipline of both stores, not linearizability: (D1) mem: Store.boxes is touched only with the store mutex held; mbox fields only inside closures run by withMailbox, writes only where writeLock is the constant true; withMailbox releases the store lock before taking the mailbox lock, runs the callback with the mailbox lock held in the requested mode and unlocks by defer; (D2) every mem.Message field written after the message is published is confined to the enforcer goroutine or accessed under the mailbox lock on both sides (or is an atomic); (D3) nothing that can block on the enforcer rendezvous, a channel, or a store/mailbox lock is reachable while a mem lock is held, and no file-store lock-taking function is reachable while a bucket lock is held; (D4) every file.Store method calls mbox methods only under that mailbox's bucket lock, in write mode when the callee can write the index or unlink, releasing on all exits, and both VisitMailboxes call the visitor with no lock held; (D5) the enforcer passes Message.el to list.Remove only where it is known non-nil."
	r.NotDecided = []string{"linearizability", "absence of all data races (only the enumerated shared fields)", "id uniqueness in the file store", "deadlock freedom in general (only the enumerated blocking shapes)"}
	r.Assumptions = []string{"sync.Mutex/RWMutex semantics", "the enforcer goroutine is the only goroutine running maxSizeEnforcer (started once in mem.New)"}
	r.Rule("C09/GUARD/mem", "Store.boxes only under Store.Mutex; mem.mbox fields only inside withMailbox closures (writes only with writeLock=true); withMailbox has the verified lock shape")
	r.Rule("C09/GUARD/shared-message", "a mem.Message field stored to after publication must be atomic, confined to the enforcer goroutine, or accessed only under the mailbox lock by readers and writers alike")
	r.Rule("C09/NOBLOCK", "no enforcer rendezvous, channel operation or lock re-acquisition is reachable while a store/mailbox/bucket lock is held")
	r.Rule("C09/GUARD/file", "file.Store methods call mbox methods only under the bucket lock (write mode if the callee can reach writeIndex or an unlink), released on all exits; VisitMailboxes (both stores) invokes the visitor with no lock held")
	r.Rule("C09/NIL/el", "every use of mem.Message.el as the argument of list.Remove is dominated by a non-nil test of the same load")
	r.Rule("C09/NIL/front", "every use of a list.Front()/Back() result in the memory store (as a list argument or through .Value) is dominated by a non-nil test of it")
	// what the size enforcer does to a message must be explainable by the operations issued: its
	// byte account follows deliveries and removals exactly (decided by C08's enforcer rule);
	// a drifting account evicts mail that nothing removed
	{
		nE := c.borrow(func(c2 *Ctx) {
			if pm2 := c2.pairing(); pm2.ok && pm2.enforcerLoop != nil {
				c2.c08Enforcer(pm2)
			}
		}, "C08/ENFORCER/shape/", "C09/ENFORCER/account", "the enforcer goroutine's list and byte account are updated consistently on every branch")
		r.Floor("C09/ENFORCER/account", "borrowed obligations", nE, 1)
	}
	pm := c.pairing()
	if !pm.ok {
		return
	}
	c.c09Mem(pm)
	c.c09Shared(pm)
	c.c09NoBlock(pm)
	c.c09File(pm)
	c.c09El(pm)
	c.c09Pool()
	// the retention visit takes part in the linearisation only if what it does to the store
	// is a set of removals by id of the messages it tested (decided by C12's scan rule): a
	// bulk operation acts on whatever the mailbox holds later, which no sequential order of
	// the visit and a concurrent delivery explains
	// an operation that succeeded is visible: a delivery that already holds a mailbox entry must
	// not find it dropped from the store's map by a concurrent operation (decided by C07's
	// entries-persist rule)
	nEP := c.borrow(func(c2 *Ctx) {
		if sm := c2.stores(); sm.ok {
			c2.c07Mem(sm)
		}
	}, "C07/ID/monotone/mem.Store.boxes:entries-persist", "C09/VISIBLE/entries-persist", "memory store: mailbox entries are never deleted or replaced, so a delivery racing a purge, a visit or a removal cannot file its message where no reader looks")
	r.Floor("C09/VISIBLE/entries-persist", "borrowed obligations", nEP, 1)
	nB := c.borrow(checkC12, "C12/GUARD/expired/scan-store-calls", "C09/RETENTION/by-id", "the retention visit changes the store only through RemoveMessage of the messages whose age it tested")
	r.Floor("C09/RETENTION/by-id", "borrowed obligations", nB, 1)
}

// closureModes: closures passed to withMailbox → writeLock constant (true/false) or "?"
func (c *Ctx) withMailboxClosures(withMailbox *ssa.Function) map[*ssa.Function]string {
	p := c.P
	out := map[*ssa.Function]string{}
	fMu := p.MutexField("pkg/storage/mem", "mbox")
	// the gates: Store.withMailbox when it exists under that name, otherwise whatever plays
	// its role (every instance of a generic inMailbox[T], say)
	var gates []*ssa.Function
	if withMailbox != nil {
		gates = []*ssa.Function{withMailbox}
	} else if fMu != nil {
		gates = c.memGates(fMu)
	}
	isGate := map[*ssa.Function]bool{}
	lms := map[*ssa.Function]*mbLockModel{}
	{
		var kept []*ssa.Function
		for _, g := range gates {
			var lmg *mbLockModel
			if fMu != nil {
				lmg = c.mbLocks(g, fMu)
			}
			// a gate found by role must select the lock side by a parameter; one that always takes
			// the same side (readMailbox(f) / writeMailbox(f)) is a self-locking function, below
			if withMailbox == nil && (lmg == nil || lmg.modeIdx < 0) {
				continue
			}
			kept = append(kept, g)
			isGate[g] = true
			lms[g] = lmg
		}
		gates = kept
	}
	var lm *mbLockModel
	if len(gates) > 0 {
		lm = lms[gates[0]]
	}
	// self-locking functions: the design in which each mailbox operation takes the mailbox
	// lock itself (mb.Lock(); defer mb.Unlock()) — the function body from the acquisition on
	// runs under the lock, in the mode of the acquisition
	if fMu != nil {
		ops := opsFor(fMu)
		for _, fn := range pkgFuncs(p, "pkg/storage/mem") {
			if isGate[fn] || lm != nil && lm.acquirers[fn] {
				continue
			}
			nAcq, nW := 0, 0
			eng.EachInstr(fn, func(in ssa.Instruction) {
				if ops.isAcq(in) {
					nAcq++
					if ops.isWriteAcq(in) {
						nW++
					}
				}
			})
			if nAcq == 0 {
				continue
			}
			// released on every exit
			var acq ssa.Instruction
			eng.EachInstr(fn, func(in ssa.Instruction) {
				if ops.isAcq(in) && acq == nil {
					acq = in
				}
			})
			if (&eng.Search{Target: eng.IsReturnOf(fn), Avoid: ops.isRel}).After(acq) != nil {
				continue
			}
			mode := "r"
			if nW == nAcq {
				mode = "w"
			}
			out[fn] = mode
			// a self-locking function that runs a callback parameter under the lock is a gate
			// (readMailbox(name, f) / writeMailbox(name, f)): every function passed for that
			// parameter runs under the lock in the gate's mode
			eng.EachInstr(fn, func(ci ssa.Instruction) {
				cc, ok := ci.(*ssa.Call)
				if !ok || ci.Parent() != fn || cc.Call.IsInvoke() || eng.StaticCallee(cc.Common()) != nil || !eng.Dominates(acq, ci) {
					return
				}
				fp, isP := cc.Call.Value.(*ssa.Parameter)
				if !isP || fp.Parent() != fn {
					return
				}
				// the callback runs with the lock still held (not after an early release)
				if !alwaysHeld(fn, ci, ops, ops.isAcq) {
					return
				}
				pi := eng.ParamIndex(fp)
				for _, cs := range p.StaticCallSites(fn) {
					if pi < 0 || pi >= len(cs.Args) {
						continue
					}
					if h, _, ok := eng.FuncValueOf(cs.Args[pi]); ok && h != nil {
						if old, has := out[h]; has && old != mode {
							out[h] = "?"
						} else {
							out[h] = mode
						}
					}
				}
			})
		}
	}
	if len(gates) == 0 {
		return out
	}
	merge := func(g *ssa.Function, mode string) {
		if old, has := out[g]; has && old != mode {
			mode = "?"
		}
		out[g] = mode
	}
	// modeAt: the mode of a withMailbox call; a mode argument that is a parameter of the
	// enclosing helper is taken from the helper's call site cs (nil: not substituted)
	modeAt := func(args []ssa.Value, g *ssa.Function, cs *eng.CallSite) string {
		if lm == nil {
			return "?"
		}
		if cs != nil {
			sub := append([]ssa.Value(nil), args...)
			for i, a := range sub {
				if prm, ok := a.(*ssa.Parameter); ok && prm.Parent() == g {
					if pi := eng.ParamIndex(prm); pi >= 0 && pi < len(cs.Args) {
						sub[i] = cs.Args[pi]
					}
				}
			}
			args = sub
		}
		return lm.argMode(args)
	}
	for _, fn := range pkgFuncs(p, "pkg/storage/mem") {
		fn := fn
		eng.EachInstr(fn, func(in ssa.Instruction) {
			call, ok := in.(*ssa.Call)
			if !ok || !isGate[eng.StaticCallee(call.Common())] {
				return
			}
			lm = lms[eng.StaticCallee(call.Common())]
			args := call.Call.Args
			mc, ok := args[len(args)-1].(*ssa.MakeClosure)
			if !ok {
				// a method expression or a plain function given as the callback ((*mbox).listing)
				if h, _, isFn := eng.FuncValueOf(args[len(args)-1]); isFn && h != nil {
					merge(h, modeAt(args, fn, nil))
				}
				return
			}
			cl := mc.Fn.(*ssa.Function)
			mode := modeAt(args, fn, nil)
			sites := p.StaticCallSites(fn)
			if mode == "?" && fn.Parent() == nil && len(sites) > 0 {
				// a helper that forwards its own mode parameter (findMessage(box, id, writeLock, …)):
				// the weakest mode any caller asks for
				mode = ""
				for i := range sites {
					switch ms := modeAt(args, fn, &sites[i]); {
					case ms == "?":
						mode = "?"
					case mode == "":
						mode = ms
					case mode != ms && mode != "?":
						mode = "r"
					}
				}
			}
			merge(cl, mode)
			// callbacks: a function parameter of the helper that the closure calls while the
			// lock is held; each function passed for it runs under the mode of that call
			eng.EachInstr(cl, func(ci ssa.Instruction) {
				cc, ok := ci.(*ssa.Call)
				if !ok || cc.Call.IsInvoke() || eng.StaticCallee(cc.Common()) != nil {
					return
				}
				var fp *ssa.Parameter
				switch v := cc.Call.Value.(type) {
				case *ssa.UnOp:
					if cell := eng.CellOf(v.X); cell != nil {
						if sts := eng.CellStores(cell); len(sts) == 1 {
							fp, _ = sts[0].Val.(*ssa.Parameter)
						}
					}
				case *ssa.FreeVar:
					for i, fv := range cl.FreeVars {
						if fv == v && i < len(mc.Bindings) {
							fp, _ = mc.Bindings[i].(*ssa.Parameter)
						}
					}
				}
				if fp == nil || fp.Parent() != fn {
					return
				}
				pi := eng.ParamIndex(fp)
				for i := range sites {
					if pi < 0 || pi >= len(sites[i].Args) {
						continue
					}
					if h, _, ok := eng.FuncValueOf(sites[i].Args[pi]); ok && h != nil {
						merge(h, modeAt(args, fn, &sites[i]))
					}
				}
			})
		})
	}
	return out
}

func (c *Ctx) c09Mem(pm *pairModel) {
	r, p := c.R, c.P
	fBoxes := p.Field("pkg/storage/mem", "Store", "boxes")
	fMutex := p.MutexField("pkg/storage/mem", "Store")
	fMbMu := p.MutexField("pkg/storage/mem", "mbox")
	withMailbox := p.OptMethod("pkg/storage/mem", "Store", "withMailbox")
	mboxT := p.Named("pkg/storage/mem", "mbox")
	if fBoxes == nil || fMutex == nil || fMbMu == nil || mboxT == nil {
		return
	}
	storeOps := opsFor(fMutex)
	mbOps := opsFor(fMbMu)
	fns := pkgFuncs(p, "pkg/storage/mem")
	// (a) boxes
	nBoxes := 0
	for _, fn := range fns {
		fn := fn
		eng.EachInstr(fn, func(in ssa.Instruction) {
			fa, ok := in.(*ssa.FieldAddr)
			if !ok || !eng.SameField(eng.FieldOfAddr(fa), fBoxes) {
				return
			}
			if _, fresh := fa.X.(*ssa.Alloc); fresh {
				return
			}
			nBoxes++
			if alwaysHeld(fn, in, storeOps, storeOps.isAcq) {
				r.Ok("C09/GUARD/mem", "boxes@"+shortFn(fn), p.InstrPos(in), "Store.boxes accessed with the store mutex held")
			} else {
				r.Bad("C09/GUARD/mem", "boxes@"+shortFn(fn), p.InstrPos(in), "Store.boxes is accessed on a path where Store.Mutex is not held (data race on the mailbox map)")
			}
		})
	}
	r.Floor("C09/GUARD/mem", "accesses of Store.boxes", nBoxes, 1)
	// (a') inserts: under the write lock, and in the same critical section as the lookup
	// whose miss they act on
	for _, fn := range fns {
		fn := fn
		var lookups []ssa.Instruction
		eng.EachInstr(fn, func(in ssa.Instruction) {
			if lk, ok := in.(*ssa.Lookup); ok && eng.SameField(eng.LoadedField(lk.X), fBoxes) {
				lookups = append(lookups, in)
			}
		})
		eng.EachInstr(fn, func(in ssa.Instruction) {
			mu, ok := in.(*ssa.MapUpdate)
			if !ok || !eng.SameField(eng.LoadedField(mu.Map), fBoxes) {
				return
			}
			cons := "boxes-insert@" + shortFn(fn)
			if !alwaysHeld(fn, in, storeOps, storeOps.isWriteAcq) {
				r.Bad("C09/GUARD/mem", cons, p.InstrPos(in), "Store.boxes is written without the store mutex held for writing")
				return
			}
			for _, lk := range lookups {
				// a release on some path lookup → insert ?
				relAt := (&eng.Search{
					Target: func(x ssa.Instruction) bool {
						return storeOps.isRel(x) && (&eng.Search{Target: func(y ssa.Instruction) bool { return y == in }}).After(x) != nil
					},
					Avoid: func(x ssa.Instruction) bool { return x == in },
				}).After(lk)
				if relAt != nil {
					r.Bad("C09/GUARD/mem", cons, p.InstrPos(in), "the store mutex is released at %s between the lookup of the mailbox (%s) and the insert that acts on its miss: two first deliveries to one new mailbox each create an entry, one overwrites the other, and the mail filed in the lost entry vanishes (ids restart, too)", p.InstrPos(relAt), p.InstrPos(lk))
					return
				}
			}
			r.Ok("C09/GUARD/mem", cons, p.InstrPos(in), "insert under the write lock, in one critical section with the lookup (%d lookups)", len(lookups))
		})
	}
	// (b) mbox fields
	modes := c.withMailboxClosures(withMailbox)
	st := mboxT.Underlying().(*types.Struct)
	guarded := map[*types.Var]bool{}
	for i := 0; i < st.NumFields(); i++ {
		f := st.Field(i)
		if f.Name() == "RWMutex" || f.Name() == "name" {
			continue
		}
		guarded[f] = true
	}
	nAcc := 0
	bad := map[string]string{}
	for _, fn := range fns {
		fn := fn
		eng.EachInstr(fn, func(in ssa.Instruction) {
			fa, ok := in.(*ssa.FieldAddr)
			if !ok {
				return
			}
			f := eng.FieldOfAddr(fa)
			if f == nil || !guarded[f.Origin()] && !guarded[f] {
				return
			}
			if _, fresh := fa.X.(*ssa.Alloc); fresh {
				return
			}
			nAcc++
			// closure chain: the nearest enclosing function that is a withMailbox closure
			// the nearest enclosing withMailbox closure, or (for a helper) the closures it
			// is only ever reached from
			mode := lockModeOf(p, fn, modes, 0)
			in2 := mode != ""
			if !in2 {
				for g := fn; g != nil; g = g.Parent() {
					if _, ok := modes[g]; ok {
						in2 = true // mode "?"
					}
				}
			}
			selfLocks := false
			eng.EachInstr(fn, func(x ssa.Instruction) {
				if mbOps.isAcq(x) {
					selfLocks = true
				}
			})
			if selfLocks && fn != withMailbox {
				// a function that takes the mailbox lock itself: the access must lie between
				// its acquisition and release
				in2 = alwaysHeld(fn, in, mbOps, mbOps.isAcq)
				if in2 && mode == "" {
					mode = "r"
				}
			}
			if !in2 && withMailbox != nil && fn == withMailbox && alwaysHeld(fn, in, mbOps, mbOps.isAcq) {
				in2 = true // withMailbox itself, between taking and releasing the mailbox lock
			}
			if !in2 && withMailbox != nil && fn.Parent() == withMailbox {
				// the deferred closure of withMailbox that releases the mailbox lock: the lock
				// is held from its start up to the release
				for _, d := range eng.Defers(withMailbox) {
					mc, ok := d.Call.Value.(*ssa.MakeClosure)
					if !ok || mc.Fn != ssa.Value(fn) || !alwaysHeld(withMailbox, d, mbOps, mbOps.isAcq) {
						continue
					}
					afterRel := false
					eng.EachInstr(fn, func(x ssa.Instruction) {
						if mbOps.isRel(x) && (&eng.Search{Target: func(y ssa.Instruction) bool { return y == in }}).After(x) != nil {
							afterRel = true
						}
					})
					if !afterRel {
						in2 = true
					}
				}
			}
			key := "mbox." + f.Name() + "@" + shortFn(fn)
			if !in2 {
				bad[key] = p.InstrPos(in) + ": mem.mbox." + f.Name() + " is accessed outside a closure run by withMailbox (no mailbox lock held)"
				return
			}
			isWrite := false
			for _, ref := range *fa.Referrers() {
				switch x := ref.(type) {
				case *ssa.Store:
					if x.Addr == ssa.Value(fa) {
						isWrite = true
					}
				case *ssa.UnOp:
					// map loaded then updated / deleted from
					for _, r2 := range *x.Referrers() {
						switch y := r2.(type) {
						case *ssa.MapUpdate:
							if y.Map == ssa.Value(x) {
								isWrite = true
							}
						case *ssa.Call:
							if eng.CalleeName(y.Common()) == "builtin.delete" && y.Call.Args[0] == ssa.Value(x) {
								isWrite = true
							}
						}
					}
				}
			}
			if isWrite && mode != "w" {
				bad[key] = p.InstrPos(in) + ": mem.mbox." + f.Name() + " is written inside a withMailbox closure whose writeLock argument is not the constant true (only a read lock is held)"
			}
		})
	}
	var keys []string
	for k := range bad {
		keys = append(keys, k)
	}
	sort.Strings(keys)
	for _, k := range keys {
		parts := strings.SplitN(bad[k], ": ", 2)
		r.Bad("C09/GUARD/mem", k, parts[0], "%s", parts[1])
	}
	if len(bad) == 0 {
		r.Ok("C09/GUARD/mem", "mbox-fields", "", "%d accesses of mem.mbox fields, all with the mailbox lock held (inside withMailbox closures or in functions that take it themselves), writes only under the write lock (%d locked functions)", nAcc, len(modes))
	}
	r.Floor("C09/GUARD/mem", "accesses of mem.mbox fields", nAcc, 1)
	r.Floor("C09/GUARD/mem", "closures passed to withMailbox", len(modes), 1)
	// (c) lock order and release, whatever the design: the mailbox lock is never acquired while
	// the store mutex is held (the enforcer and the visitor take them in the other order), and
	// whoever acquires it releases it on every exit
	if withMailbox == nil {
		shapeOK, why := true, ""
		nAcq := 0
		for _, fn := range fns {
			fn := fn
			eng.EachInstr(fn, func(in ssa.Instruction) {
				if !mbOps.isAcq(in) {
					return
				}
				nAcq++
				if !neverHeld(fn, in, storeOps) {
					shapeOK, why = false, "mailbox lock is taken at "+p.InstrPos(in)+" while the store mutex is held (lock-order inversion with the enforcer/visitor)"
				}
				for _, cs := range p.StaticCallSites(fn) {
					site := cs.Instr.(ssa.Instruction)
					if !neverHeld(site.Parent(), site, storeOps) {
						shapeOK, why = false, "mailbox lock is taken (in "+shortFn(fn)+", called at "+p.InstrPos(site)+") while the store mutex is held"
					}
				}
				if ret := (&eng.Search{Target: eng.IsReturnOf(fn), Avoid: mbOps.isRel}).After(in); ret != nil {
					shapeOK, why = false, "the mailbox lock taken at "+p.InstrPos(in)+" is not released on the path to "+p.InstrPos(ret)
				}
			})
		}
		if nAcq == 0 {
			shapeOK, why = false, "the mailbox lock is never acquired"
		}
		if shapeOK {
			r.Ok("C09/GUARD/mem", "withMailbox-shape", "", "%d acquisitions of the mailbox lock, none under the store mutex, each released on every exit", nAcq)
		} else {
			r.Bad("C09/GUARD/mem", "withMailbox-shape", "", "%s", why)
		}
		return
	}
	var fcall ssa.Instruction
	eng.EachInstr(withMailbox, func(in ssa.Instruction) {
		if call, ok := in.(*ssa.Call); ok {
			if _, isParam := call.Call.Value.(*ssa.Parameter); isParam {
				fcall = in
			}
		}
	})
	shapeOK, why := true, ""
	if fcall == nil {
		shapeOK, why = false, "callback is not invoked"
	} else {
		if !neverHeld(withMailbox, fcall, storeOps) {
			shapeOK, why = false, "callback runs with the store mutex still held"
		}
		lm := c.mbLocks(withMailbox, fMbMu)
		if !alwaysHeld(withMailbox, fcall, mbOps, lm.isAcq) {
			shapeOK, why = false, "callback can run without the mailbox lock"
		}
		// mailbox lock acquisitions must not happen under the store lock
		eng.EachInstr(withMailbox, func(in ssa.Instruction) {
			if lm.isAcq(in) && !neverHeld(withMailbox, in, storeOps) {
				shapeOK, why = false, "mailbox lock is taken while the store mutex is held (lock-order inversion with the enforcer/visitor)"
			}
		})
		// release on exit: a deferred release of the mailbox lock
		if !lm.deferredRelease() {
			shapeOK, why = false, "mailbox lock is not released by a deferred call"
		}
		// mode correspondence: the write acquisition is selected by the mode parameter, and
		// every acquisition of the other kind lies on an edge where the mode differs
		if lm.problem != "" {
			shapeOK, why = false, "lock mode does not follow the mode parameter: "+lm.problem
		} else {
			var afns []*ssa.Function
			afns = append(afns, withMailbox)
			for g := range lm.acquirers {
				afns = append(afns, g)
			}
			for _, g := range afns {
				g := g
				eng.EachInstr(g, func(in ssa.Instruction) {
					if !mbOps.isAcq(in) {
						return
					}
					// a Locker phi: each operand must be selected by the matching value of the mode
					if lm.writeBool != nil {
						okEdges, nEdges := true, 0
						if lm.lockerEdges(p, in, func(kind string, v ssa.Value, pol bool) {
							if lm.modeParamOf(p, v) != lm.modeIdx {
								return
							}
							nEdges++
							if (pol == *lm.writeBool) != (kind == "lock") {
								okEdges = false
							}
						}) {
							if !okEdges || nEdges == 0 {
								shapeOK, why = false, "lock mode does not follow the mode parameter"
							}
							return
						}
					}
					k, _ := lockCallKind(in)
					wantWrite := k == "lock"
					found := false
					for _, b := range g.Blocks {
						for e := 0; e < len(b.Succs) && len(b.Succs) == 2; e++ {
							if !eng.EdgeDominates(b, e, in.Block()) {
								continue
							}
							if v, pol, ok := eng.CondTruth(b, e); ok && lm.writeBool != nil && lm.modeParamOf(p, v) == lm.modeIdx {
								if (pol == *lm.writeBool) == wantWrite {
									found = true
								}
							}
							if rel, ok := eng.EdgeRel(b, e); ok && lm.writeConst != nil && lm.modeParamOf(p, rel.X) == lm.modeIdx {
								if kk, isC := eng.ConstInt(rel.Y); isC {
									isWriteEdge := (rel.Op == token.EQL && kk == *lm.writeConst)
									isReadEdge := (rel.Op == token.NEQ && kk == *lm.writeConst) || (rel.Op == token.EQL && kk != *lm.writeConst)
									if wantWrite && isWriteEdge || !wantWrite && isReadEdge {
										found = true
									}
								}
							}
						}
					}
					if !found {
						shapeOK, why = false, "lock mode does not follow the mode parameter"
					}
				})
			}
		}
	}
	if shapeOK {
		r.Ok("C09/GUARD/mem", "withMailbox-shape", p.Pos(withMailbox.Pos()), "store mutex released before the mailbox lock; callback under the mailbox lock in the requested mode; deferred unlock")
	} else {
		r.Bad("C09/GUARD/mem", "withMailbox-shape", p.Pos(withMailbox.Pos()), "%s", why)
	}
}

// derivesFromParamNamed: v is the bool parameter (by position of type bool) read directly
// or through its cell.
func derivesFromParamNamed(v ssa.Value, fn *ssa.Function, _ string) bool {
	var bp *ssa.Parameter
	for _, prm := range fn.Params {
		if b, ok := prm.Type().Underlying().(*types.Basic); ok && b.Kind() == types.Bool {
			bp = prm
		}
	}
	if bp == nil {
		return false
	}
	return derivesFrom(v, bp, 0)
}

func (c *Ctx) c09Shared(pm *pairModel) {
	r, p := c.R, c.P
	msgT := p.Named("pkg/storage/mem", "Message")
	withMailbox := p.OptMethod("pkg/storage/mem", "Store", "withMailbox")
	if msgT == nil {
		return
	}
	modes := c.withMailboxClosures(withMailbox)
	inLocked := func(fn *ssa.Function) bool {
		for g := fn; g != nil; g = g.Parent() {
			if _, ok := modes[g]; ok {
				return true
			}
		}
		return lockModeOf(p, fn, modes, 0) != ""
	}
	inEnforcer := func(fn *ssa.Function) bool {
		ok, _ := p.OnlyReachedFrom(fn, func(g *ssa.Function) bool { return g == pm.enforcerLoop })
		return ok
	}
	fns := pkgFuncs(p, "pkg/storage/mem")
	st := msgT.Underlying().(*types.Struct)
	nPost := 0
	for i := 0; i < st.NumFields(); i++ {
		f := st.Field(i)
		type acc struct {
			fn    *ssa.Function
			in    ssa.Instruction
			write bool
		}
		var accs []acc
		for _, fn := range fns {
			fn := fn
			eng.EachInstr(fn, func(in ssa.Instruction) {
				fa, ok := in.(*ssa.FieldAddr)
				if !ok || !eng.SameField(eng.FieldOfAddr(fa), f) {
					return
				}
				if _, fresh := fa.X.(*ssa.Alloc); fresh {
					return // composite literal of a message not yet shared
				}
				w := false
				for _, ref := range *fa.Referrers() {
					if s, ok := ref.(*ssa.Store); ok && s.Addr == ssa.Value(fa) {
						w = true
					}
					// a field of a record the message holds by value (m.acct.el = …) is a write
					// of that record
					if inner, ok := ref.(*ssa.FieldAddr); ok && inner.Referrers() != nil {
						for _, r2 := range *inner.Referrers() {
							if s, ok := r2.(*ssa.Store); ok && s.Addr == ssa.Value(inner) {
								w = true
							}
						}
					}
				}
				// pre-publication: a store that dominates the map insert of the same function
				if w {
					for _, a := range pm.adds {
						if a.store == "mem" && a.fn == fn && eng.Dominates(in, a.in) {
							return
						}
					}
				}
				accs = append(accs, acc{fn, in, w})
			})
		}
		var writes []acc
		for _, a := range accs {
			if a.write {
				writes = append(writes, a)
			}
		}
		if len(writes) == 0 {
			continue // immutable after publication
		}
		nPost++
		cons := "mem.Message." + f.Name()
		// atomic type?
		if n, ok := f.Type().(*types.Named); ok && n.Obj().Pkg() != nil && n.Obj().Pkg().Path() == "sync/atomic" {
			r.Ok("C09/GUARD/shared-message", cons, p.InstrPos(writes[0].in), "atomic field")
			continue
		}
		allEnforcer, allLocked := true, true
		var offender acc
		for _, a := range accs {
			if eng.Outer(a.fn) != pm.enforcerLoop && !inEnforcer(a.fn) {
				allEnforcer = false
			}
			if !inLocked(a.fn) {
				if allLocked {
					offender = a
				}
				allLocked = false
			}
		}
		switch {
		case allEnforcer:
			r.Ok("C09/GUARD/shared-message", cons, p.InstrPos(writes[0].in), "written after publication but every access (%d) is in the enforcer goroutine", len(accs))
		case allLocked:
			r.Ok("C09/GUARD/shared-message", cons, p.InstrPos(writes[0].in), "every access (%d) is inside a withMailbox closure", len(accs))
		default:
			if offender.in == nil {
				offender = accs[0]
			}
			r.Bad("C09/GUARD/shared-message", cons, p.InstrPos(offender.in), "field is written after the message is published (%s) but accessed in %s with neither the mailbox lock nor goroutine confinement: data race", p.InstrPos(writes[0].in), shortFn(offender.fn))
		}
	}
	r.Floor("C09/GUARD/shared-message", "mem.Message fields written after publication", nPost, 1)
}

func (c *Ctx) c09NoBlock(pm *pairModel) {
	r, p := c.R, c.P
	withMailbox := p.OptMethod("pkg/storage/mem", "Store", "withMailbox")
	modes := c.withMailboxClosures(withMailbox)
	var ownAcq func(in ssa.Instruction) bool
	blocking := func(fn *ssa.Function) string {
		why := ""
		eng.EachInstr(fn, func(in ssa.Instruction) {
			if ownAcq != nil && ownAcq(in) {
				return
			}
			switch x := in.(type) {
			case *ssa.Send:
				why = "channel send at " + p.InstrPos(in)
			case *ssa.Select:
				if x.Blocking {
					why = "blocking select at " + p.InstrPos(in)
				}
			case *ssa.UnOp:
				if x.Op == token.ARROW {
					why = "channel receive at " + p.InstrPos(in)
				}
			case *ssa.Call:
				if k, _ := lockCallKind(in); k == "lock" || k == "rlock" {
					why = "lock acquisition at " + p.InstrPos(in)
				}
			}
		})
		return why
	}
	var names []*ssa.Function
	for g := range modes {
		names = append(names, g)
	}
	sort.Slice(names, func(i, j int) bool { return names[i].String() < names[j].String() })
	fMbMuNB := p.MutexField("pkg/storage/mem", "mbox")
	for _, g := range names {
		g := g
		reach := p.ReachModule(g)
		// a function that takes the mailbox lock itself: that acquisition is the lock, not a
		// blocking operation under it
		ownAcq = nil
		var firstAcq ssa.Instruction
		if fMbMuNB != nil {
			mo := opsFor(fMbMuNB)
			ownAcq = func(in ssa.Instruction) bool { return in.Parent() == g && mo.isAcq(in) }
			eng.EachInstr(g, func(in ssa.Instruction) {
				if firstAcq == nil && in.Parent() == g && mo.isAcq(in) {
					firstAcq = in
				}
			})
		}
		// … and what it does before taking the lock (looking the mailbox up under the store
		// mutex) does not run under it: only calls the acquisition dominates count
		if firstAcq != nil {
			reach = map[*ssa.Function]bool{}
			eng.EachInstr(g, func(in ssa.Instruction) {
				call, ok := in.(*ssa.Call)
				if !ok || !eng.Dominates(firstAcq, in) {
					return
				}
				for _, callee := range p.Callees(call) {
					for f := range p.ReachModule(callee) {
						reach[f] = true
					}
				}
			})
		}
		var whys []string
		for f := range reach {
			if eng.FuncPkgPath(f) != eng.Mod+"/pkg/storage/mem" {
				continue
			}
			if w := blocking(f); w != "" {
				whys = append(whys, shortFn(f)+": "+w)
			}
		}
		sort.Strings(whys)
		cons := "mem:" + shortFn(g)
		if len(whys) > 0 {
			r.Bad("C09/NOBLOCK", cons, p.Pos(g.Pos()), "code run under the mailbox lock can block (the enforcer itself takes mailbox locks → deadlock): %s", strings.Join(whys, "; "))
		} else {
			r.Ok("C09/NOBLOCK", cons, p.Pos(g.Pos()), "nothing blocking reachable under the mailbox lock (%d functions)", len(reach))
		}
	}
	// file: while a bucket lock is held no lock-taking function of the package is reachable
	fMu := p.MutexField("pkg/storage/file", "mbox")
	if fMu == nil {
		return
	}
	ops := opsFor(fMu)
	ffns := pkgFuncs(p, "pkg/storage/file")
	takes := map[*ssa.Function]bool{}
	for _, fn := range ffns {
		eng.EachInstr(fn, func(in ssa.Instruction) {
			if ops.isAcq(in) {
				takes[fn] = true
			}
		})
	}
	n := 0
	for _, fn := range ffns {
		if !takes[fn] {
			continue
		}
		n++
		fn := fn
		bad := ""
		eng.EachInstr(fn, func(in ssa.Instruction) {
			call, ok := in.(*ssa.Call)
			if !ok || ops.isAcq(in) {
				return
			}
			if k, _ := lockCallKind(in); k != "" {
				return
			}
			if neverHeld(fn, in, ops) {
				return
			}
			for _, callee := range p.Callees(call) {
				for f := range p.ReachModule(callee) {
					if takes[f] {
						bad = "call at " + p.InstrPos(in) + " reaches " + shortFn(f) + " which takes a bucket lock again (sync.RWMutex is not re-entrant)"
					}
				}
			}
		})
		if bad != "" {
			r.Bad("C09/NOBLOCK", "file:"+shortFn(fn), p.Pos(fn.Pos()), "%s", bad)
		} else {
			r.Ok("C09/NOBLOCK", "file:"+shortFn(fn), p.Pos(fn.Pos()), "no lock-taking function reachable while the bucket lock is held")
		}
	}
	r.Floor("C09/NOBLOCK", "file functions taking the bucket lock", n, 1)
}

func (c *Ctx) c09File(pm *pairModel) {
	r, p := c.R, c.P
	fMu := p.MutexField("pkg/storage/file", "mbox")
	mboxT := p.Named("pkg/storage/file", "mbox")
	storeT := p.Named("pkg/storage/file", "Store")
	if fMu == nil || mboxT == nil || storeT == nil {
		return
	}
	ops := opsFor(fMu)
	ffns := pkgFuncs(p, "pkg/storage/file")
	isMboxMethod := func(f *ssa.Function) bool {
		if f == nil || f.Signature.Recv() == nil {
			return false
		}
		t := f.Signature.Recv().Type()
		if pt, ok := t.(*types.Pointer); ok {
			t = pt.Elem()
		}
		return types.Identical(t, mboxT)
	}
	// the in-memory bookkeeping of a loaded index, by the anchors' resolution (so that fields
	// regrouped into a carrier record — idx.loaded, idx.messages — are still recognised)
	fLoadedA := p.OptField("pkg/storage/file", "mbox", "indexLoaded")
	fMsgsA := p.OptField("pkg/storage/file", "mbox", "messages")
	mutates := func(f *ssa.Function) bool {
		for g := range p.ReachModule(f) {
			hit := false
			eng.EachInstr(g, func(in ssa.Instruction) {
				if cc := eng.CallOf(in); cc != nil {
					switch eng.CalleeName(cc) {
					case "os.Create", "os.Remove", "os.RemoveAll", "os.Rename", "os.OpenFile", "os.WriteFile", "os.MkdirAll", "os.Mkdir":
						hit = true
					}
				}
				if st, ok := in.(*ssa.Store); ok {
					if fa, ok := st.Addr.(*ssa.FieldAddr); ok {
						if f := eng.FieldOfAddr(fa); f != nil && f.Pkg() != nil && f.Pkg().Path() == eng.Mod+"/pkg/storage/file" && f.Name() != "indexLoaded" && f.Name() != "messages" && f.Name() != "name" && f.Name() != "mailbox" && !eng.SameField(f, fLoadedA) && !eng.SameField(f, fMsgsA) {
							hit = true // persisted message fields
						}
					}
				}
			})
			if hit {
				return true
			}
		}
		return false
	}
	// gates: mbox methods that take the bucket lock themselves, release it on every exit and
	// run a callback parameter in between (mb.update(fn) / mb.view(fn)); a function passed for
	// that parameter runs under the lock in the gate's mode. gateOf maps such a function to
	// (mode, the call that passes it).
	gateMode := map[*ssa.Function]string{}
	type gateUse struct {
		mode string
		site *ssa.Call
	}
	gateOf := map[*ssa.Function]gateUse{}
	for _, g := range ffns {
		g := g
		if !isMboxMethod(g) || g.Parent() != nil {
			continue
		}
		var acq ssa.Instruction
		nAcq, nW := 0, 0
		eng.EachInstr(g, func(in ssa.Instruction) {
			if in.Parent() == g && ops.isAcq(in) {
				if acq == nil {
					acq = in
				}
				nAcq++
				if ops.isWriteAcq(in) {
					nW++
				}
			}
		})
		if acq == nil || (&eng.Search{Target: eng.IsReturnOf(g), Avoid: ops.isRel}).After(acq) != nil {
			continue
		}
		mode := "r"
		if nW == nAcq {
			mode = "w"
		}
		gateMode[g] = mode
		eng.EachInstr(g, func(ci ssa.Instruction) {
			cc, ok := ci.(*ssa.Call)
			if !ok || ci.Parent() != g || cc.Call.IsInvoke() || eng.StaticCallee(cc.Common()) != nil || !eng.Dominates(acq, ci) {
				return
			}
			fp, isP := cc.Call.Value.(*ssa.Parameter)
			if !isP || fp.Parent() != g {
				return
			}
			if !alwaysHeld(g, ci, ops, ops.isAcq) {
				return
			}
			pi := eng.ParamIndex(fp)
			for _, cs := range p.StaticCallSites(g) {
				site, isCall := cs.Instr.(*ssa.Call)
				if !isCall || pi < 0 || pi >= len(cs.Args) {
					continue
				}
				if h, _, ok := eng.FuncValueOf(cs.Args[pi]); ok && h != nil {
					if old, has := gateOf[h]; has && old.mode != mode {
						gateOf[h] = gateUse{"r", site}
					} else {
						gateOf[h] = gateUse{mode, site}
					}
				}
			}
		})
	}
	// heldAt: the bucket lock is held at `in` in the needed mode: by the enclosing function's
	// own acquisitions, or because the instruction sits in a function a gate runs
	heldAt := func(fn *ssa.Function, in ssa.Instruction, needW bool) bool {
		acq := ops.isAcq
		if needW {
			acq = ops.isWriteAcq
		}
		for g := in.Parent(); g != nil; g = g.Parent() {
			if gu, ok := gateOf[g]; ok {
				return !needW || gu.mode == "w"
			}
		}
		if in.Parent() != fn {
			// a closure that is not run by a gate: only its own locking counts
			own := false
			eng.EachInstr(in.Parent(), func(x ssa.Instruction) {
				if x.Parent() == in.Parent() && acq(x) {
					own = true
				}
			})
			return own && alwaysHeld(in.Parent(), in, ops, acq)
		}
		return alwaysHeld(fn, in, ops, acq)
	}
	// selfProtecting: an mbox method that may be called without the lock because everything it
	// does to the mailbox it does through gates (lockedMessages wraps view(getMessages))
	var selfProtecting func(g *ssa.Function, depth int) bool
	selfProtecting = func(g *ssa.Function, depth int) bool {
		if depth > 3 || g == nil || len(g.Blocks) == 0 {
			return false
		}
		okAll, nOps := true, 0
		eng.EachInstr(g, func(in ssa.Instruction) {
			switch x := in.(type) {
			case *ssa.Call:
				m2 := eng.StaticCallee(x.Common())
				if !isMboxMethod(m2) {
					return
				}
				nOps++
				if _, isGate := gateMode[m2]; isGate {
					return
				}
				if !heldAt(g, in, mutates(m2)) && !selfProtecting(m2, depth+1) {
					okAll = false
				}
			case *ssa.Store:
				fa, ok := x.Addr.(*ssa.FieldAddr)
				if !ok {
					return
				}
				if f := eng.FieldOfAddr(fa); f != nil && f.Pkg() != nil && f.Pkg().Path() == eng.Mod+"/pkg/storage/file" {
					if _, fresh := fa.X.(*ssa.Alloc); !fresh && !heldAt(g, in, true) {
						okAll = false
					}
				}
			}
		})
		return okAll && nOps > 0
	}
	n := 0
	for _, fn := range ffns {
		if fn.Signature.Recv() == nil || fn.Parent() != nil {
			continue
		}
		rt := fn.Signature.Recv().Type()
		if pt, ok := rt.(*types.Pointer); ok {
			rt = pt.Elem()
		}
		if !types.Identical(rt, storeT) {
			continue
		}
		fn := fn
		var problems []string
		calls := 0
		// the method and the closures nested in it (critical sections handed to a lock gate)
		eachDeep := func(f func(in ssa.Instruction)) {
			for _, u := range eng.WithAnons(fn) {
				eng.EachInstr(u, f)
			}
		}
		eachDeep(func(in ssa.Instruction) {
			call, ok := in.(*ssa.Call)
			if !ok {
				return
			}
			g := eng.StaticCallee(call.Common())
			if !isMboxMethod(g) {
				return
			}
			calls++
			if _, isGate := gateMode[g]; isGate {
				return // takes the lock itself
			}
			needW := mutates(g)
			if !heldAt(fn, in, needW) && !selfProtecting(g, 0) {
				if needW {
					problems = append(problems, "call of "+shortFn(g)+" at "+p.InstrPos(in)+" (which can write the index or unlink files) is not under the bucket write lock")
				} else {
					problems = append(problems, "call of "+shortFn(g)+" at "+p.InstrPos(in)+" is not under the bucket lock")
				}
			}
		})
		// persisted field writes directly in the Store method (MarkSeen sets Fseen)
		eachDeep(func(in ssa.Instruction) {
			st, ok := in.(*ssa.Store)
			if !ok {
				return
			}
			fa, ok := st.Addr.(*ssa.FieldAddr)
			if !ok {
				return
			}
			f := eng.FieldOfAddr(fa)
			if f == nil || f.Pkg() == nil || f.Pkg().Path() != eng.Mod+"/pkg/storage/file" || !strings.HasPrefix(f.Name(), "F") {
				return
			}
			if _, fresh := fa.X.(*ssa.Alloc); fresh {
				return
			}
			calls++
			if !heldAt(fn, in, true) {
				problems = append(problems, "store to "+f.Name()+" at "+p.InstrPos(in)+" is not under the bucket write lock")
			}
		})
		if calls == 0 {
			continue
		}
		n++
		// released on all exits: from each acquisition, no return reachable without release
		eng.EachInstr(fn, func(in ssa.Instruction) {
			if ops.isAcq(in) {
				if ret := (&eng.Search{Target: eng.IsReturn, Avoid: ops.isRel}).After(in); ret != nil && !eng.IsRecoverBlock(ret.Block()) {
					problems = append(problems, "lock taken at "+p.InstrPos(in)+" is not released before return at "+p.InstrPos(ret))
				}
			}
		})
		// read-modify-write atomicity: the mbox is a fresh object per call that caches the index
		// it loaded; if the lock is released between a call that can load the index and a
		// later call that can write it, a concurrent operation's update is overwritten
		var loaders, writers []ssa.Instruction
		eng.EachInstr(fn, func(in ssa.Instruction) {
			call, ok := in.(*ssa.Call)
			if !ok {
				return
			}
			g := eng.StaticCallee(call.Common())
			if !isMboxMethod(g) {
				return
			}
			if reachesNamed(g, "readIndex") {
				loaders = append(loaders, in)
			}
			if reachesNamed(g, "writeIndex") {
				writers = append(writers, in)
			}
		})
		for _, ld := range loaders {
			for _, wr := range writers {
				if ld == wr || !eng.Dominates(ld, wr) {
					continue
				}
				// a release reachable from ld (before wr) from which wr is reachable
				var rels []ssa.Instruction
				(&eng.Search{Target: func(in ssa.Instruction) bool {
					if ops.isRel(in) {
						if _, isRD := in.(*ssa.RunDefers); !isRD {
							rels = append(rels, in)
						}
					}
					return false
				}, Avoid: func(in ssa.Instruction) bool { return in == wr }}).After(ld)
				for _, rl := range rels {
					if (&eng.Search{Target: func(in ssa.Instruction) bool { return in == wr }}).After(rl) != nil {
						problems = append(problems, "the bucket lock is released at "+p.InstrPos(rl)+" between loading the index ("+p.InstrPos(ld)+") and writing it back ("+p.InstrPos(wr)+"): two overlapping operations on one mailbox both succeed but one update is lost")
					}
				}
			}
		}
		// the same with gates: each gate call is a critical section of its own; an index loaded
		// in one and written back in a later one is stale
		{
			type sect struct {
				site         *ssa.Call
				loads, wries bool
			}
			var sects []sect
			eng.EachInstr(fn, func(in ssa.Instruction) {
				call, ok := in.(*ssa.Call)
				if !ok || in.Parent() != fn {
					return
				}
				g := eng.StaticCallee(call.Common())
				if _, isGate := gateMode[g]; !isGate {
					return
				}
				sc := sect{site: call}
				roots := []*ssa.Function{g}
				for _, a := range call.Call.Args {
					if h, _, ok := eng.FuncValueOf(a); ok && h != nil {
						roots = append(roots, h)
					}
				}
				for _, rt := range roots {
					if reachesNamed(rt, "readIndex") {
						sc.loads = true
					}
					if reachesNamed(rt, "writeIndex") {
						sc.wries = true
					}
				}
				sects = append(sects, sc)
			})
			for _, a := range sects {
				for _, b := range sects {
					if a.site != b.site && a.loads && b.wries && eng.Dominates(a.site, b.site) {
						problems = append(problems, "the index is loaded in the critical section at "+p.InstrPos(a.site)+" and written back in a later one at "+p.InstrPos(b.site)+" (the lock is released in between): two overlapping operations on one mailbox both succeed but one update is lost")
					}
				}
				// … or written back later under a lock this method takes itself, or loaded
				// earlier under such a lock and written by the gate
				for _, wr := range writers {
					if wc, ok := wr.(*ssa.Call); ok && wc != a.site && a.loads && eng.Dominates(a.site, wr) {
						if _, isGate := gateMode[eng.StaticCallee(wc.Common())]; !isGate {
							problems = append(problems, "the index is loaded inside "+eng.CalleeName(a.site.Common())+" (which takes and releases the bucket lock itself, "+p.InstrPos(a.site)+") and written back at "+p.InstrPos(wr)+" in a later critical section: two overlapping operations on one mailbox both succeed but one update is lost")
						}
					}
				}
				for _, ld := range loaders {
					if lc, ok := ld.(*ssa.Call); ok && lc != a.site && a.wries && eng.Dominates(ld, a.site) {
						if _, isGate := gateMode[eng.StaticCallee(lc.Common())]; !isGate {
							problems = append(problems, "the index loaded at "+p.InstrPos(ld)+" is written back inside "+eng.CalleeName(a.site.Common())+" ("+p.InstrPos(a.site)+"), a critical section of its own")
						}
					}
				}
			}
		}
		if len(problems) > 0 {
			r.Bad("C09/GUARD/file", shortFn(fn), p.Pos(fn.Pos()), "%s", strings.Join(problems, "; "))
		} else {
			r.Ok("C09/GUARD/file", shortFn(fn), p.Pos(fn.Pos()), "%d mbox operations, all under the bucket lock in the required mode; released on all exits", calls)
		}
	}
	r.Floor("C09/GUARD/file", "file.Store methods using an mbox", n, 1)
	c.c09Bucket()

	// visitors
	for _, rel := range []string{"pkg/storage/mem", "pkg/storage/file"} {
		vm := p.Method(rel, "Store", "VisitMailboxes")
		if vm == nil {
			continue
		}
		var locks []lockOps
		if rel == "pkg/storage/mem" {
			if f := p.MutexField(rel, "Store"); f != nil {
				locks = append(locks, opsFor(f))
			}
			if f := p.MutexField(rel, "mbox"); f != nil {
				locks = append(locks, opsFor(f))
			}
		} else {
			locks = append(locks, ops)
		}
		nCalls, held := 0, false
		var vfns []*ssa.Function
		for g := range p.SyncReach(vm) {
			if eng.FuncPkgPath(g) == eng.FuncPkgPath(vm) {
				vfns = append(vfns, g)
			}
		}
		sortFuncs(vfns)
		for _, g := range vfns {
			g := g
			eng.EachInstr(g, func(in ssa.Instruction) {
				call, ok := in.(*ssa.Call)
				if !ok {
					return
				}
				prm, isParam := call.Call.Value.(*ssa.Parameter)
				if !isParam && g.Parent() != nil {
					// the visitor captured by a callback: f(msgs) inside func(name) {…}
					if u, isU := call.Call.Value.(*ssa.UnOp); isU {
						if cell := eng.CellOf(u.X); cell != nil {
							if sts := eng.CellStores(cell); len(sts) == 1 {
								prm, isParam = sts[0].Val.(*ssa.Parameter)
							}
						}
					}
					if isParam && prm.Parent() == vm {
						// the callback runs where the helper it is handed to calls it: no lock
						// may be held there, nor where the helper is called
						for h := g; h != nil && h != vm; h = h.Parent() {
							eng.EachInstr(h.Parent(), func(pi ssa.Instruction) {
								pc, ok := pi.(*ssa.Call)
								if !ok {
									return
								}
								for ai, a := range pc.Call.Args {
									mc, ok := a.(*ssa.MakeClosure)
									if !ok || mc.Fn != ssa.Value(h) {
										continue
									}
									for _, lo := range locks {
										if !neverHeld(h.Parent(), pi, lo) {
											held = true
										}
									}
									if hf := eng.StaticCallee(pc.Common()); hf != nil && ai < len(hf.Params) && len(hf.Blocks) > 0 {
										eng.EachInstr(hf, func(hi ssa.Instruction) {
											if hc, ok := hi.(*ssa.Call); ok && hc.Call.Value == ssa.Value(hf.Params[ai]) {
												for _, lo := range locks {
													if !neverHeld(hf, hi, lo) {
														held = true
													}
												}
											}
										})
									}
								}
							})
						}
					}
				}
				if !isParam {
					return
				}
				if _, isFn := prm.Type().Underlying().(*types.Signature); !isFn {
					return
				}
				// only the visitor itself: vm's parameter, or a helper's parameter bound to it
				if av, isP := p.Actual(prm).(*ssa.Parameter); !isP || av.Parent() != vm {
					return
				}
				nCalls++
				for _, lo := range locks {
					if !neverHeld(g, in, lo) {
						held = true
					}
				}
				// a helper: no lock may be held where the helper is called either
				if g != vm {
					for _, cs := range p.StaticCallSites(g) {
						site := cs.Instr.(ssa.Instruction)
						for _, lo := range locks {
							if !neverHeld(site.Parent(), site, lo) {
								held = true
							}
						}
					}
				}
			})
		}
		cons := "visitor@" + shortFn(vm)
		switch {
		case nCalls == 0:
			r.Undecided("C09/GUARD/file", cons, p.Pos(vm.Pos()), "visitor call not found")
		case held:
			r.Bad("C09/GUARD/file", cons, p.Pos(vm.Pos()), "the visitor is invoked while a lock is held; the retention visitor calls RemoveMessage, which takes the same lock → deadlock")
		default:
			r.Ok("C09/GUARD/file", cons, p.Pos(vm.Pos()), "visitor invoked with no lock held")
		}
	}
}

func (c *Ctx) c09El(pm *pairModel) {
	r, p := c.R, c.P
	fEl := memElementField(p)
	if fEl == nil {
		fEl = p.Field("pkg/storage/mem", "Message", "el")
	}
	if fEl == nil {
		return
	}
	n := 0
	for _, fn := range pkgFuncs(p, "pkg/storage/mem") {
		fn := fn
		eng.EachInstr(fn, func(in ssa.Instruction) {
			call, ok := in.(*ssa.Call)
			if !ok || !strings.HasPrefix(eng.CalleeName(call.Common()), "(*container/list.List).") {
				return
			}
			for _, a := range call.Call.Args[1:] {
				if !eng.SameField(eng.LoadedField(a), fEl) {
					continue
				}
				n++
				ok := eng.KnownNonNil(a, call.Block())
				if !ok {
					// equivalent earlier load tested non-nil
					for _, b := range fn.Blocks {
						for k := 0; k < len(b.Succs) && len(b.Succs) == 2; k++ {
							rel, rok := eng.EdgeRel(b, k)
							if !rok || rel.Op != token.NEQ || !eng.IsNilConst(rel.Y) {
								continue
							}
							if eng.SameField(eng.LoadedField(rel.X), fEl) && eng.EdgeDominates(b, k, call.Block()) && eng.SameLoadNoDom(rel.X, a) {
								ok = true
							}
						}
					}
				}
				cons := "el-arg@" + shortFn(fn)
				if ok {
					r.Ok("C09/NIL/el", cons, p.InstrPos(call), "Message.el is tested non-nil before it is handed to %s", eng.CalleeName(call.Common()))
				} else {
					r.Bad("C09/NIL/el", cons, p.InstrPos(call), "Message.el is passed to %s without a nil check: a message removed before the enforcer registered it (it is visible in the mailbox map before enforcerDeliver runs) has el == nil, and list.Remove(nil) dereferences it — the enforcer goroutine panics and the process dies", eng.CalleeName(call.Common()))
				}
			}
		})
	}
	r.Floor("C09/NIL/el", "uses of Message.el as a container/list argument", n, 1)
	// the list can be empty although the byte account is over the limit: the account also holds
	// the bytes of messages that were already taken out of their mailbox and whose removal notice
	// has not arrived yet, and popping such a message subtracts nothing. Front()/Back() then
	// return nil, and list.Remove(nil) or nil.Value kills the enforcer goroutine — and with it the
	// process
	nF := 0
	ordF := map[string]int{}
	for _, fn := range pkgFuncs(p, "pkg/storage/mem") {
		fn := fn
		eng.EachInstr(fn, func(in ssa.Instruction) {
			call, ok := in.(*ssa.Call)
			if !ok {
				return
			}
			nm := eng.CalleeName(call.Common())
			if nm != "(*container/list.List).Front" && nm != "(*container/list.List).Back" {
				return
			}
			if call.Referrers() == nil {
				return
			}
			nF++
			cons := siteCons(p, in, ordF, "front")
			bad := ""
			for _, ref := range *call.Referrers() {
				var at *ssa.BasicBlock
				switch y := ref.(type) {
				case *ssa.Call:
					for _, a := range y.Call.Args {
						if a == ssa.Value(call) && strings.HasPrefix(eng.CalleeName(y.Common()), "(*container/list.") {
							at = y.Block()
						}
					}
				case *ssa.FieldAddr:
					at = y.Block()
				}
				if at == nil {
					continue
				}
				if !eng.KnownNonNil(call, at) && !(len(call.Call.Args) > 0 && p.Lift(call, call.Call.Args[0], 0, listKnownNonEmpty)) {
					bad = p.InstrPos(ref)
				}
			}
			if bad != "" {
				r.Bad("C09/NIL/front", cons, p.InstrPos(call), "the element returned by %s is used at %s without a nil test: the list can be empty while the byte account is still over the limit (messages already removed from their mailbox stay accounted until their removal notice arrives, and popping one subtracts nothing), so a delivery that overlaps a purge makes the enforcer dereference nil and the process dies", nm, bad)
			} else {
				r.Ok("C09/NIL/front", cons, p.InstrPos(call), "the element is tested non-nil before it is used")
			}
		})
	}
	r.Floor("C09/NIL/front", "list.Front()/Back() results in the memory store", nF, 1)
}

// listKnownNonEmpty: site is dominated by a branch edge on which lst.Len() is positive (same
// list value), and nothing between that edge and site (within one pass of a loop) hands the list
// to anything that could shrink it.
func listKnownNonEmpty(site ssa.Instruction, lst ssa.Value) bool {
	fn := site.Parent()
	if fn == nil {
		return false
	}
	isLenOf := func(v ssa.Value) bool {
		cl, ok := eng.StripConv(v).(*ssa.Call)
		return ok && eng.CalleeName(cl.Common()) == "(*container/list.List).Len" && len(cl.Call.Args) == 1 && cl.Call.Args[0] == lst
	}
	intConst := func(v ssa.Value) (int64, bool) {
		k, ok := eng.StripConv(v).(*ssa.Const)
		if !ok || k.Value == nil {
			return 0, false
		}
		return k.Int64(), true
	}
	for _, b := range fn.Blocks {
		if len(b.Succs) != 2 {
			continue
		}
		for k := 0; k < 2; k++ {
			rel, ok := eng.EdgeRel(b, k)
			if !ok {
				continue
			}
			if !isLenOf(rel.X) {
				rel = rel.Swap()
			}
			if !isLenOf(rel.X) {
				continue
			}
			n, isK := intConst(rel.Y)
			if !isK {
				continue
			}
			pos := (rel.Op == token.GTR && n >= 0) || (rel.Op == token.GEQ && n >= 1) || (rel.Op == token.NEQ && n == 0)
			if !pos || !eng.EdgeDominates(b, k, site.Block()) {
				continue
			}
			// the blocks of one pass from the edge to the site
			fwd := map[*ssa.BasicBlock]bool{}
			var walk func(x *ssa.BasicBlock)
			walk = func(x *ssa.BasicBlock) {
				if fwd[x] || x == b {
					return
				}
				fwd[x] = true
				if x == site.Block() {
					return
				}
				for _, s := range x.Succs {
					walk(s)
				}
			}
			walk(b.Succs[k])
			bwd := map[*ssa.BasicBlock]bool{}
			var back func(x *ssa.BasicBlock)
			back = func(x *ssa.BasicBlock) {
				if bwd[x] || x == b {
					return
				}
				bwd[x] = true
				if x == b.Succs[k] {
					return
				}
				for _, s := range x.Preds {
					back(s)
				}
			}
			back(site.Block())
			clean := true
			for x := range fwd {
				if !bwd[x] {
					continue
				}
				for _, in := range x.Instrs {
					if in == site {
						break
					}
					ci, isCall := in.(ssa.CallInstruction)
					if !isCall {
						continue
					}
					for _, a := range ci.Common().Args {
						if a == lst {
							nm := eng.CalleeName(ci.Common())
							if nm != "(*container/list.List).Len" && nm != "(*container/list.List).Front" && nm != "(*container/list.List).Back" && !strings.HasPrefix(nm, "(*container/list.List).Push") {
								clean = false
							}
						}
					}
				}
			}
			if clean {
				return true
			}
		}
	}
	return false
}

// reachesNamed: fn is, or synchronously reaches, a function of its own package with that name.
func reachesNamed(fn *ssa.Function, name string) bool {
	seen := map[*ssa.Function]bool{}
	var walk func(f *ssa.Function) bool
	walk = func(f *ssa.Function) bool {
		if f == nil || seen[f] || !eng.InModule(f) {
			return false
		}
		seen[f] = true
		if f.Name() == name && eng.FuncPkgPath(f) == eng.FuncPkgPath(fn) {
			return true
		}
		hit := false
		eng.EachInstr(f, func(in ssa.Instruction) {
			if call, ok := in.(*ssa.Call); ok {
				if walk(eng.StaticCallee(call.Common())) {
					hit = true
				}
			}
		})
		return hit
	}
	return walk(fn)
}

// c09Bucket: the bucket lock must cover every directory a mailbox operation can create or
// prune. removeDir prunes empty parents up to the level-1 directory mail/<hash[0:K1]>, and
// createDir (MkdirAll) re-creates them, holding only the mailbox's bucket lock; two
// mailboxes that share that directory must therefore share the lock: the lock index may
// depend on at most the first K1 hash digits.
func (c *Ctx) c09Bucket() {
	r, p := c.R, c.P
	get := p.Method("pkg/storage", "HashLock", "Get")
	if get == nil {
		return
	}
	lockK := int64(-1)
	eng.EachInstr(get, func(in ssa.Instruction) {
		if sl, ok := in.(*ssa.Slice); ok {
			if _, isParam := sl.X.(*ssa.Parameter); isParam {
				if k, ok := eng.ConstInt(sl.High); ok {
					lockK = k
				}
			}
		}
	})
	dirK := int64(-1)
	for _, name := range []string{"mbox", "mboxFromHash"} {
		fn := p.Method("pkg/storage/file", "Store", name)
		if fn == nil {
			continue
		}
		for g := range p.SyncReach(fn) {
			if eng.FuncPkgPath(g) != eng.FuncPkgPath(fn) {
				continue
			}
			eng.EachInstr(g, func(in ssa.Instruction) {
				if sl, ok := in.(*ssa.Slice); ok && isString(sl.X.Type()) && sl.High != nil {
					if k, ok := eng.ConstInt(sl.High); ok && (dirK == -1 || k < dirK) {
						dirK = k
					}
				}
			})
		}
	}
	cons := "bucket-covers-directory"
	switch {
	case lockK < 0 || dirK < 0:
		r.Undecided("C09/GUARD/file", cons, p.Pos(get.Pos()), "cannot read the hash prefix lengths of HashLock.Get (%d) and of the mailbox path (%d)", lockK, dirK)
	case lockK > dirK:
		r.Bad("C09/GUARD/file", cons, p.Pos(get.Pos()), "the bucket lock is chosen by the first %d hash digits but mailboxes share the directory mail/<first %d digits>, which removeDir prunes and createDir re-creates under that lock only: two mailboxes in one directory but different buckets race (a delivery's MkdirAll fails with ENOENT while a sibling mailbox is being emptied)", lockK, dirK)
	default:
		r.Ok("C09/GUARD/file", cons, p.Pos(get.Pos()), "lock index uses the first %d hash digits, the shallowest shared mailbox directory the first %d: every pair of mailboxes sharing a directory shares the lock", lockK, dirK)
	}
}

// c09Pool: an object drawn from a sync.Pool belongs to the function that drew it until it is
// put back, and to nobody afterwards. A function that hands the object back — directly or
// through a wrapper, deferred or not — must not let it (or anything built around it: a
// decoder, a reader, a slice of its buffer) outlive the hand-back: not return it, not store
// it in a field, not pass it to a goroutine, not use it after a non-deferred Put. Otherwise two
// store operations running at once read through one buffer: torn listings, corrupt-index
// errors, and a corrupt index written back over a good one.
func (c *Ctx) c09Pool() {
	r, p := c.R, c.P
	rule := "C09/POOL/no-escape"
	r.Rule(rule, "in the storage packages a value handed back to a sync.Pool (Put, or a wrapper whose parameter goes to Put), and every object constructed around it, does not escape the function that hands it back (no return, field store or goroutine) and is not used after a non-deferred hand-back")
	var fns []*ssa.Function
	for _, rel := range []string{fileRel, "pkg/storage/mem", "pkg/storage"} {
		fns = append(fns, pkgFuncs(p, rel)...)
	}
	// put functions: sync.Pool.Put and module wrappers whose parameter reaches it
	putParam := map[*ssa.Function]int{}
	for changed := true; changed; {
		changed = false
		for _, fn := range fns {
			if _, done := putParam[fn]; done {
				continue
			}
			fn := fn
			eng.EachInstr(fn, func(in ssa.Instruction) {
				cc := eng.CallOf(in)
				if cc == nil {
					return
				}
				idx := -1
				if eng.CalleeName(cc) == "(*sync.Pool).Put" && len(cc.Args) == 2 {
					idx = 1
				} else if g := eng.StaticCallee(cc); g != nil {
					if k, ok := putParam[g]; ok && k < len(cc.Args) {
						idx = k
					}
				}
				if idx < 0 {
					return
				}
				if pi := eng.ParamIndex(eng.Unwrap(cc.Args[idx])); pi >= 0 {
					if _, done := putParam[fn]; !done {
						putParam[fn] = pi
						changed = true
					}
				}
			})
		}
	}
	aliasing := func(t types.Type) bool {
		if n, ok := t.(*types.Named); ok && n.Obj().Pkg() == nil && n.Obj().Name() == "error" {
			return false
		}
		switch t.Underlying().(type) {
		case *types.Pointer, *types.Interface, *types.Slice, *types.Map, *types.Chan, *types.Struct, *types.Signature:
			return true
		}
		return false
	}
	n := 0
	ord := map[string]int{}
	for _, fn := range fns {
		if _, isWrapper := putParam[fn]; isWrapper {
			continue // the wrapper hands back its caller's object; the caller is examined
		}
		fn := fn
		eng.EachInstr(fn, func(in ssa.Instruction) {
			cc := eng.CallOf(in)
			if cc == nil {
				return
			}
			idx := -1
			if eng.CalleeName(cc) == "(*sync.Pool).Put" && len(cc.Args) == 2 {
				idx = 1
			} else if g := eng.StaticCallee(cc); g != nil {
				if k, ok := putParam[g]; ok && k < len(cc.Args) {
					idx = k
				}
			}
			if idx < 0 {
				return
			}
			n++
			cons := siteCons(p, in, ord, "put")
			root := eng.Unwrap(cc.Args[idx])
			// everything built around the pooled object in this function
			derived := map[ssa.Value]bool{root: true}
			for grew := true; grew; {
				grew = false
				eng.EachInstr(fn, func(x ssa.Instruction) {
					v, isV := x.(ssa.Value)
					if !isV || derived[v] {
						return
					}
					hit := false
					switch y := x.(type) {
					case *ssa.Call:
						if !aliasing(y.Type()) {
							return
						}
						if y.Call.IsInvoke() && derived[y.Call.Value] {
							hit = true
						}
						for _, a := range y.Call.Args {
							if derived[a] || derived[eng.Unwrap(a)] {
								hit = true
							}
						}
					case *ssa.Extract:
						hit = derived[y.Tuple] && aliasing(y.Type())
					case *ssa.MakeInterface:
						hit = derived[y.X]
					case *ssa.ChangeType:
						hit = derived[y.X]
					case *ssa.ChangeInterface:
						hit = derived[y.X]
					case *ssa.TypeAssert:
						hit = derived[y.X]
					case *ssa.Slice:
						hit = derived[y.X]
					case *ssa.Phi:
						for _, e := range y.Edges {
							hit = hit || derived[e]
						}
					}
					if hit {
						derived[v] = true
						grew = true
					}
				})
			}
			_, deferred := in.(*ssa.Defer)
			why := ""
			eng.EachInstr(fn, func(x ssa.Instruction) {
				if why != "" {
					return
				}
				switch y := x.(type) {
				case *ssa.Return:
					for _, res := range eng.ReturnResults(y) {
						if derived[res] || derived[eng.Unwrap(res)] {
							why = "it (or an object built around it) is returned at " + p.InstrPos(x)
						}
					}
				case *ssa.Store:
					if derived[y.Val] || derived[eng.Unwrap(y.Val)] {
						switch a := y.Addr.(type) {
						case *ssa.FieldAddr:
							if _, local := a.X.(*ssa.Alloc); !local {
								why = "it (or an object built around it) is stored in a field at " + p.InstrPos(x)
							}
						case *ssa.Global:
							why = "it (or an object built around it) is stored in a package variable at " + p.InstrPos(x)
						}
					}
				case *ssa.Go:
					for _, a := range y.Call.Args {
						if derived[a] {
							why = "it (or an object built around it) is handed to a goroutine at " + p.InstrPos(x)
						}
					}
					if mc, ok := y.Call.Value.(*ssa.MakeClosure); ok {
						for _, b := range mc.Bindings {
							if derived[b] {
								why = "it (or an object built around it) is captured by a goroutine at " + p.InstrPos(x)
							}
						}
					}
				}
			})
			if why == "" && !deferred {
				uses := func(x ssa.Instruction) bool {
					if x == in {
						return false
					}
					if _, isDbg := x.(*ssa.DebugRef); isDbg {
						return false
					}
					for _, op := range x.Operands(nil) {
						if op != nil && *op != nil && derived[*op] {
							return true
						}
					}
					return false
				}
				if hit := (&eng.Search{Target: uses}).After(in); hit != nil {
					why = "it (or an object built around it) is still used at " + p.InstrPos(hit) + " after the hand-back"
				}
			}
			if why != "" {
				r.Bad(rule, cons, p.InstrPos(in), "%s hands a pooled object back at %s although %s: the next store operation draws the same object and both read through one buffer (torn listings, corrupt-index errors, a damaged index written back)", shortFn(fn), p.InstrPos(in), why)
			} else {
				r.Ok(rule, cons, p.InstrPos(in), "the pooled object and the %d values built around it stay inside %s", len(derived)-1, shortFn(fn))
			}
		})
	}
	if n == 0 {
		r.Ok(rule, "no-pool", "", "the storage packages hand nothing back to a sync.Pool")
	}
}

// memGates finds the mailbox lock gates of the memory store by role: top-level functions of
// the package (each instance of a generic one counts) that acquire the mailbox lock, take a
// function parameter whose own first parameter is the mailbox, and call it.
func (c *Ctx) memGates(fMu *types.Var) []*ssa.Function {
	p := c.P
	mboxT := p.Named("pkg/storage/mem", "mbox")
	if mboxT == nil {
		return nil
	}
	ops := opsFor(fMu)
	var out []*ssa.Function
	for _, fn := range pkgFuncs(p, "pkg/storage/mem") {
		if fn.Parent() != nil || len(fn.Blocks) == 0 {
			continue
		}
		var cb *ssa.Parameter
		for _, prm := range fn.Params {
			sig, ok := prm.Type().Underlying().(*types.Signature)
			if !ok || sig.Params().Len() == 0 {
				continue
			}
			if pt, ok := sig.Params().At(0).Type().(*types.Pointer); ok && types.Identical(pt.Elem(), mboxT) {
				cb = prm
			}
		}
		if cb == nil {
			continue
		}
		calls, acquires := false, false
		eng.EachInstr(fn, func(in ssa.Instruction) {
			if call, ok := in.(*ssa.Call); ok && call.Call.Value == ssa.Value(cb) {
				calls = true
			}
			if ops.isAcq(in) {
				acquires = true
			}
		})
		if !acquires {
			// through a sync.Locker chosen from the mailbox (l = mb / mb.RLocker(); l.Lock())
			eng.EachInstr(fn, func(in ssa.Instruction) {
				if call, ok := in.(*ssa.Call); ok && call.Call.IsInvoke() && call.Call.Method.Name() == "Lock" {
					acquires = true
				}
			})
		}
		if calls && acquires {
			out = append(out, fn)
		}
	}
	sortFuncs(out)
	return out
}

// memElementField: the back-reference from a memory-store message to its element in the
// enforcer's list — the field of type *list.Element in mem.Message or in a record of the
// package that Message holds by value.
func memElementField(p *eng.Prog) *types.Var {
	T := p.Named("pkg/storage/mem", "Message")
	if T == nil {
		return nil
	}
	isEl := func(t types.Type) bool {
		pt, ok := t.(*types.Pointer)
		if !ok {
			return false
		}
		n, ok := pt.Elem().(*types.Named)
		return ok && n.Obj().Pkg() != nil && n.Obj().Pkg().Path() == "container/list" && n.Obj().Name() == "Element"
	}
	var found []*types.Var
	var scan func(n *types.Named, depth int)
	scan = func(n *types.Named, depth int) {
		st, ok := n.Underlying().(*types.Struct)
		if !ok || depth > 2 {
			return
		}
		for i := 0; i < st.NumFields(); i++ {
			f := st.Field(i)
			if isEl(f.Type()) {
				found = append(found, f)
			}
			if inner, ok := f.Type().(*types.Named); ok && inner.Obj().Pkg() == T.Obj().Pkg() {
				scan(inner, depth+1)
			}
		}
	}
	scan(T, 0)
	if len(found) == 1 {
		return found[0]
	}
	return nil
}
