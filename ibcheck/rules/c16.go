package rules

import (
	"go/token"
	"go/types"
	"strings"

	"golang.org/x/tools/go/ssa"

	"ibcheck/eng"
)

func init() { Registry["C16"] = checkC16 }

func checkC16(c *Ctx) {
	r, p := c.R, c.P
	r.Explanation = "Decides the event-pairing skeleton: (D1) every site that removes messages from a mailbox container of either back-end (mem: builtin delete, map swap; file: slice-out, clear) is classified and is paired, on every path of the enclosing operation (or of each caller, for internal helpers), with AfterMessageDeleted.Emit(MakeMetadata(m)) where m originates from the removed element(s) — bypass allowed only along edges proving nothing was removed; (D2) in StoreManager.Deliver every path from a successful Store.AddMessage to the next iteration/return passes AfterMessageStored.Emit of an event whose ID is that AddMessage result, and no other function emits AfterMessageStored; (D3) the asynchronous broker must not start a goroutine per (event, listener), because that gives no order between consecutive events of one listener."
	r.NotDecided = []string{"exactly-once delivery at run time", "arrival order per mailbox under concurrency", "ordering between the stored and deleted brokers"}
	r.Assumptions = []string{"message.MakeMetadata copies mailbox and id of its argument (checked by C14/FIELDS-style literal coverage in C01/META)"}
	r.Rule("C16/PAIR/classify", "every writer of mem.mbox.messages / file.mbox.messages is classified add / remove / load / init; an unclassified writer is undecided")
	r.Rule("C16/PAIR/deleted", "each removal site is paired with AfterMessageDeleted.Emit(MakeMetadata(removed message)) on every path of the enclosing operation or of every caller (bypass only on nothing-removed edges)")
	r.Rule("C16/PAIR/stored", "in Deliver, AfterMessageStored.Emit follows every successful AddMessage, carrying that call's id; no other emitter of AfterMessageStored exists")
	r.Rule("C16/ORDER/async", "AsyncEventBroker.Emit must hand events to a listener in FIFO order; a `go listener(event)` per event gives no order between consecutive events")
	pm := c.pairing()
	if !pm.ok {
		return
	}
	for _, u := range pm.unknown {
		r.Undecided("C16/PAIR/classify", siteName(u), p.InstrPos(u.in), "unclassified writer of %s.mbox.messages", u.store)
	}
	c.c16DecidedUnderLock(pm)
	nMem, nFile := 0, 0
	for _, s := range pm.removes {
		if s.store == "mem" {
			nMem++
		} else {
			nFile++
		}
		r.Ok("C16/PAIR/classify", siteName(s), p.InstrPos(s.in), "remove site (%s)", s.kind)
		v := pm.checkPair(s, "deleted-event")
		if v.ok {
			r.Ok("C16/PAIR/deleted", siteName(s), p.InstrPos(s.in), "%s", v.detail)
		} else {
			r.Bad("C16/PAIR/deleted", siteName(s), p.InstrPos(s.in), "messages removed here leave the mailbox without a 'deleted' event: %s", v.detail)
		}
	}
	r.Floor("C16/PAIR/classify", "mem remove sites", nMem, 1)
	r.Floor("C16/PAIR/classify", "file remove sites", nFile, 1)
	r.Count("add sites", len(pm.adds))
	r.Count("load sites", len(pm.loads))

	c.c16Stored(pm)
	c.c16Async(pm)
	// the hub relays every event it is given to the connected monitors, whatever the state of
	// its replay history (decided by C15's broadcast rule): a 'deleted' event that is only
	// relayed when the message is still in the history never reaches a listener that saw its
	// 'stored' event
	nR := c.borrow(checkC15, "C15/ACTOR/broadcast-unconditional", "C16/RELAY/unconditional", "every hub operation that relays stored/deleted events to the listeners does so on every path")
	r.Floor("C16/RELAY/unconditional", "borrowed obligations", nR, 1)
	// after quiescence the hub's replay history holds exactly the stored-and-not-deleted
	// messages only if the search that drops a deleted message looks at every slot of the ring
	// (decided by C15's ring-walk rule)
	c.c16NoAliasedQueue()
	c.c16GuardedSliceStaysInside()
	nW := c.borrow(checkC15, "C15/WIRING", "C16/RELAY/wired", "the hub is registered on the AfterMessageStored and AfterMessageDeleted brokers with callbacks that reach Dispatch and Delete")
	r.Floor("C16/RELAY/wired", "borrowed obligations", nW, 2)
	nH := c.borrow(checkC15, "C15/HISTORY/full-cycle", "C16/HISTORY/full-cycle", "every walk over the history ring that looks for a message inspects all N slots")
	r.Floor("C16/HISTORY/full-cycle", "borrowed obligations", nH, 1)
	// a delivery that overwrites the index with a list it loaded before releasing the lock undoes
	// what happened in between: a stored message vanishes without a 'deleted' event, a deleted
	// one comes back without a 'stored' event (decided by C09's critical-section rule)
	nA := c.borrow(func(c2 *Ctx) {
		if pm2 := c2.pairing(); pm2.ok {
			c2.c09File(pm2)
		}
	}, "C09/GUARD/file/(*file.Store).AddMessage", "C16/ATOMIC/file-add", "file store: AddMessage loads the index, appends and writes it back inside one critical section")
	r.Floor("C16/ATOMIC/file-add", "borrowed obligations", nA, 1)
}

func (c *Ctx) c16Stored(pm *pairModel) {
	r, p := c.R, c.P
	deliver := p.Method("pkg/message", "StoreManager", "Deliver")
	addMsg := p.MethodObj("pkg/storage", "Store", "AddMessage")
	fID := p.Field("pkg/extension/event", "MessageMetadata", "ID")
	if deliver == nil || addMsg == nil || fID == nil {
		return
	}
	// all emitters of AfterMessageStored in non-test module code
	var emitters []ssa.Instruction
	for _, fn := range p.Funcs {
		if p.IsTestSupport(fn) {
			continue
		}
		eng.EachInstr(fn, func(in ssa.Instruction) {
			call, ok := in.(*ssa.Call)
			if ok && eng.IsCallTo(call.Common(), pm.emitObj) && len(call.Call.Args) > 0 && eng.SameField(eng.AddrField(call.Call.Args[0]), pm.fStored) {
				emitters = append(emitters, in)
			}
		})
	}
	for _, e := range emitters {
		if ok, _ := p.OnlyReachedFrom(eng.Outer(e.Parent()), func(g *ssa.Function) bool { return g == deliver }); !ok {
			r.Bad("C16/PAIR/stored", "extra-emitter:"+shortFn(e.Parent()), p.InstrPos(e), "AfterMessageStored is emitted outside StoreManager.Deliver: a second 'stored' event per message")
		}
	}
	var adds []*ssa.Call
	for g := range p.SyncReach(deliver) {
		if eng.FuncPkgPath(g) != eng.Mod+"/pkg/message" {
			continue
		}
		eng.EachInstr(g, func(in ssa.Instruction) {
			if call, ok := in.(*ssa.Call); ok && eng.IsCallTo(call.Common(), addMsg) {
				adds = append(adds, call)
			}
		})
	}
	r.Floor("C16/PAIR/stored", "AddMessage sites in Deliver", len(adds), 1)
	for _, add := range adds {
		cons := "deliver:AddMessage"
		var idv, errv ssa.Value
		for _, ref := range *add.Referrers() {
			if e, ok := ref.(*ssa.Extract); ok {
				if e.Index == 0 {
					idv = e
				} else {
					errv = e
				}
			}
		}
		if idv == nil || errv == nil {
			r.Bad("C16/PAIR/stored", cons, p.InstrPos(add), "result of AddMessage is discarded")
			continue
		}
		// emit predicate: Emit(&ev) where ev's ID field was stored with idv
		isEmit := func(in ssa.Instruction) bool {
			call, ok := in.(*ssa.Call)
			if !ok || !eng.IsCallTo(call.Common(), pm.emitObj) || !eng.SameField(eng.AddrField(call.Call.Args[0]), pm.fStored) {
				return false
			}
			ev := call.Call.Args[1]
			okID := false
			// the event built by a helper of the package from the id it is given
			// (Emit(storedMetadata(delivery, id))): every record it returns has its ID set from
			// the parameter that receives this call's id
			if bc, isCall := ev.(*ssa.Call); isCall {
				if rets, g := eng.ReturnedValues(bc, 0); g != nil && len(rets) > 0 && eng.InModule(g) {
					all := true
					for _, rv := range rets {
						one := false
						if rv.Referrers() != nil {
							for _, ref := range *rv.Referrers() {
								fa, ok := ref.(*ssa.FieldAddr)
								if !ok || !eng.SameField(eng.FieldOfAddr(fa), fID) || fa.Referrers() == nil {
									continue
								}
								for _, r2 := range *fa.Referrers() {
									st, ok := r2.(*ssa.Store)
									if !ok {
										continue
									}
									if prm, isP := st.Val.(*ssa.Parameter); isP && prm.Parent() == g {
										if pi := eng.ParamIndex(prm); pi >= 0 && pi < len(bc.Call.Args) && (bc.Call.Args[pi] == idv || p.Actual(bc.Call.Args[pi]) == idv) {
											one = true
										}
									}
								}
							}
						}
						if !one {
							all = false
						}
					}
					if all {
						return true
					}
				}
			}
			if ev.Referrers() != nil {
				for _, ref := range *ev.Referrers() {
					if fa, ok := ref.(*ssa.FieldAddr); ok && eng.SameField(eng.FieldOfAddr(fa), fID) {
						for _, r2 := range *fa.Referrers() {
							// the id may arrive through the parameter of an emitting helper
							if st, ok := r2.(*ssa.Store); ok && (st.Val == idv || p.Actual(st.Val) == idv) && eng.Dominates(st, call) {
								okID = true
							}
						}
					}
				}
			}
			return okID
		}
		// success edge of err check
		var succ *ssa.BasicBlock
		for _, b := range add.Parent().Blocks {
			for k := 0; k < len(b.Succs) && len(b.Succs) == 2; k++ {
				rel, ok := eng.EdgeRel(b, k)
				if ok && rel.X == errv && eng.IsNilConst(rel.Y) && rel.Op.String() == "==" {
					succ = b.Succs[k]
				}
			}
		}
		if succ == nil {
			r.Undecided("C16/PAIR/stored", cons, p.InstrPos(add), "no `err == nil` edge found after AddMessage")
			continue
		}
		// from the success edge: reaching a return or the next AddMessage without an Emit is a violation
		retOK := eng.IsReturnOf(add.Parent())
		miss := (&eng.Search{Target: func(in ssa.Instruction) bool {
			return retOK(in) || in == ssa.Instruction(add)
		}, Avoid: isEmit, Deep: true}).FromBlockStart(succ)
		if miss != nil {
			r.Bad("C16/PAIR/stored", cons, p.InstrPos(add), "after a successful AddMessage a path reaches %s without AfterMessageStored.Emit of an event carrying that call's id", p.InstrPos(miss))
		} else {
			r.Ok("C16/PAIR/stored", cons, p.InstrPos(add), "every path after a successful AddMessage emits AfterMessageStored with ID = the AddMessage result (emitters in module: %d, all in Deliver)", len(emitters))
		}
	}
}

func (c *Ctx) c16Async(pm *pairModel) {
	r, p := c.R, c.P
	// the generic Emit is analysed through its instantiations
	seenOrigin := map[string]bool{}
	n := 0
	for _, fn := range p.Funcs {
		if o := eng.FuncObj(fn); o == nil || o != pm.emitObj {
			continue
		}
		n++
		var perEvent []ssa.Instruction
		for _, g := range eng.WithAnons(fn) {
			eng.EachInstr(g, func(in ssa.Instruction) {
				goi, ok := in.(*ssa.Go)
				if !ok {
					return
				}
				// callee is a function value taken from a slice of listener funcs
				if _, isSig := goi.Call.Value.Type().Underlying().(*types.Signature); isSig && eng.StaticCallee(goi.Common()) == nil {
					perEvent = append(perEvent, in)
				}
			})
		}
		key := strings.Split(fn.String(), "[")[0]
		if seenOrigin[key] {
			continue
		}
		seenOrigin[key] = true
		cons := "extension.AsyncEventBroker.Emit"
		if len(perEvent) > 0 {
			r.Bad("C16/ORDER/async", cons, p.InstrPos(perEvent[0]), "Emit starts `go listener(event)` for every event: two consecutive events of one listener run in unordered goroutines, so a listener can see a message's 'deleted' before its 'stored' and deliveries out of arrival order (contradicts the contract in extension/host.go)")
		} else {
			r.Ok("C16/ORDER/async", cons, p.Pos(fn.Pos()), "no goroutine per (event, listener)")
		}
	}
	r.Floor("C16/ORDER/async", "instantiations of AsyncEventBroker.Emit analysed", n, 1)
}

// c16NoAliasedQueue: events that wait in a slice (a per-listener queue) are delivered exactly
// once only if the slice they wait in is not reused while they wait. `batch := q.pending;
// q.pending = q.pending[:0]` leaves batch and the live queue on one backing array: what is
// emitted while the batch is being delivered overwrites its undelivered tail — some events are
// lost, others delivered twice, and the count still adds up.
func (c *Ctx) c16NoAliasedQueue() {
	r, p := c.R, c.P
	rule := "C16/QUEUE/no-alias"
	r.Rule(rule, "in pkg/extension a slice field is never cut back in place (f = f[:0]) while a value loaded from it earlier is still used afterwards: a queue that is handed off for delivery is replaced (nil or a new slice), not truncated")
	n, nBad := 0, 0
	ord := map[string]int{}
	seenFn := map[*ssa.Function]bool{}
	for _, fn := range p.Funcs {
		if eng.FuncPkgPath(fn) != eng.Mod+"/pkg/extension" || seenFn[fn] || p.IsTestSupport(fn) {
			continue
		}
		seenFn[fn] = true
		fn := fn
		eng.EachInstr(fn, func(in ssa.Instruction) {
			st, ok := in.(*ssa.Store)
			if !ok {
				return
			}
			fa, ok := st.Addr.(*ssa.FieldAddr)
			if !ok {
				return
			}
			f := eng.FieldOfAddr(fa)
			if f == nil {
				return
			}
			if _, isSl := f.Type().Underlying().(*types.Slice); !isSl {
				return
			}
			sl, ok := st.Val.(*ssa.Slice)
			if !ok || sl.High == nil {
				return
			}
			if k, isC := eng.ConstInt(sl.High); !isC || k != 0 {
				return
			}
			if !eng.SameField(eng.LoadedField(sl.X), f) {
				return
			}
			n++
			cons := siteCons(p, in, ord, "truncate:"+f.Name())
			// earlier loads of the same field whose value is still used after the truncation
			var late ssa.Instruction
			eng.EachInstr(fn, func(x ssa.Instruction) {
				ld, isLd := x.(*ssa.UnOp)
				if !isLd || ld.Op != token.MUL || !eng.SameField(eng.LoadedField(ld), f) || ld == sl.X || !eng.Dominates(x, in) {
					return
				}
				if ld.Referrers() == nil {
					return
				}
				for _, ref := range *ld.Referrers() {
					if _, isDbg := ref.(*ssa.DebugRef); isDbg || ref == ssa.Instruction(sl) {
						continue
					}
					if eng.Dominates(in, ref) || (&eng.Search{Target: func(y ssa.Instruction) bool { return y == ref }}).After(in) != nil {
						late = ref
					}
				}
			})
			if late != nil {
				nBad++
				r.Bad(rule, cons, p.InstrPos(in), "%s is cut back in place at %s while a value loaded from it before is still used at %s: the two share one backing array, so what is appended next overwrites entries that are still waiting to be delivered (events lost, others delivered twice)", f.Name(), p.InstrPos(in), p.InstrPos(late))
			} else {
				r.Ok(rule, cons, p.InstrPos(in), "nothing loaded from %s before the truncation is used after it", f.Name())
			}
		})
	}
	if n == 0 {
		r.Ok(rule, "pkg/extension", "", "no slice field of the brokers is cut back in place")
	}
}

// c16DecidedUnderLock: "exactly one deleted event". In the memory store the event for a single
// removal is emitted by whoever took the message out of the map. That is decided by a lookup and
// a delete inside one critical section: each delete(mailbox.messages, k) is dominated, in the
// same function (the locked closure), by a test that a lookup of the same map found an entry.
// A delete whose presence test was made earlier, under another hold of the lock, lets two
// removers both find the message; both delete (the second is a no-op) and both announce it.
func (c *Ctx) c16DecidedUnderLock(pm *pairModel) {
	p, r := c.P, c.R
	rule := "C16/ONCE/mem-removal-decided-under-lock"
	r.Rule(rule, "memory store: every delete on a mailbox's message map is dominated, within the same function (one hold of the lock), by the found-edge of a lookup in that map, or sits in a range over it")
	n := 0
	ord := map[string]int{}
	for _, rs := range pm.removes {
		if rs.store != "mem" || rs.kind != "delete" {
			continue
		}
		n++
		call := rs.in.(*ssa.Call)
		fn := rs.fn
		cons := siteCons(p, rs.in, ord, "delete")
		mapV := call.Call.Args[0]
		sameMap := func(v ssa.Value) bool {
			return v == mapV || (eng.LoadedField(v) != nil && eng.SameField(eng.LoadedField(v), eng.LoadedField(mapV)))
		}
		ok := false
		ctxFn := fn
		var foundEdge func(fn *ssa.Function, at *ssa.BasicBlock) bool
		foundEdge = func(fn *ssa.Function, at *ssa.BasicBlock) bool {
			ok := false
			for _, b := range fn.Blocks {
				if len(b.Succs) != 2 {
					continue
				}
				for k := 0; k < 2; k++ {
					if !eng.EdgeDominates(b, k, at) {
						continue
					}
					// v != nil with v a lookup, or the comma-ok of a lookup
					if rel, isRel := eng.EdgeRel(b, k); isRel && rel.Op == token.NEQ {
						x, y := rel.X, rel.Y
						if eng.IsNilConst(x) {
							x, y = y, x
						}
						if eng.IsNilConst(y) {
							// a captured variable: `*m = lookup; t = *m; if t != nil`
							if u, isU := x.(*ssa.UnOp); isU && u.Op == token.MUL {
								blk, idx := u.Block(), -1
								for i, in := range blk.Instrs {
									if in == ssa.Instruction(u) {
										idx = i
									}
								}
								for hops := 0; hops < 4 && blk != nil; hops++ {
									for i := idx - 1; i >= 0; i-- {
										if st, isSt := blk.Instrs[i].(*ssa.Store); isSt && st.Addr == u.X {
											if lk, isLk := st.Val.(*ssa.Lookup); isLk && sameMap(lk.X) {
												ok = true
											}
											blk = nil
											break
										}
										if _, isCall := blk.Instrs[i].(*ssa.Call); isCall {
											blk = nil // the cell may have been rewritten by the callee
											break
										}
									}
									if blk == nil || len(blk.Preds) != 1 {
										break
									}
									blk = blk.Preds[0]
									idx = len(blk.Instrs)
								}
							}
							for _, al := range append(eng.ValueAliases(x), x) {
								if lk, isLk := eng.ResolveLocalLoad(al).(*ssa.Lookup); isLk && sameMap(lk.X) {
									ok = true
								}
								if lk, isLk := al.(*ssa.Lookup); isLk && sameMap(lk.X) {
									ok = true
								}
							}
						}
					}
					if v, pol, isT := eng.CondTruth(b, k); isT && pol {
						if ex, isEx := v.(*ssa.Extract); isEx && ex.Index == 1 {
							if lk, isLk := ex.Tuple.(*ssa.Lookup); isLk && sameMap(lk.X) {
								ok = true
							}
						}
					}
				}
			}
			return ok
		}
		ok = foundEdge(fn, call.Block())
		// the delete sits in a callback that a lookup helper of the package invokes on its found
		// edge, inside the helper's critical section (findMessage(…, func(mb, m) { delete(…) }))
		if !ok && fn.Parent() != nil {
			var handed []*ssa.Function
			eng.EachInstr(fn.Parent(), func(x ssa.Instruction) {
				cl, isCall := x.(*ssa.Call)
				if !isCall {
					return
				}
				g := eng.StaticCallee(cl.Common())
				if g == nil || !eng.InModule(g) {
					return
				}
				for _, a := range cl.Call.Args {
					if mc, isMC := a.(*ssa.MakeClosure); isMC && mc.Fn == ssa.Value(fn) {
						handed = append(handed, g)
					}
					if f0, isF := a.(*ssa.Function); isF && f0 == fn {
						handed = append(handed, g)
					}
				}
			})
			for _, g := range handed {
				var scope []*ssa.Function
				scope = append(scope, g)
				scope = append(scope, g.AnonFuncs...)
				nInv, nOK := 0, 0
				for _, h := range scope {
					h := h
					eng.EachInstr(h, func(x ssa.Instruction) {
						cl, isCall := x.(*ssa.Call)
						if !isCall || cl.Call.IsInvoke() || eng.StaticCallee(cl.Common()) != nil {
							return
						}
						if !types.Identical(cl.Call.Value.Type().Underlying(), fn.Signature) {
							return
						}
						nInv++
						if foundEdge(h, cl.Block()) {
							nOK++
							ctxFn = h
						}
					})
				}
				if nInv > 0 && nInv == nOK {
					ok = true
				}
			}
		}
		// a range over the same map
		for _, h := range loopHeaders(call.Block()) {
			for _, in := range h.Instrs {
				if nx, isN := in.(*ssa.Next); isN {
					if rg, isR := nx.Iter.(*ssa.Range); isR && sameMap(rg.X) {
						ok = true
					}
				}
			}
		}
		// the removed message is kept for whoever announces it: the value the lookup found is
		// stored somewhere (a captured variable, a list) — a removal whose message is only tested
		// and dropped cannot be followed by an event or a size notice for that message
		if ok {
			kept := false
			eng.EachInstr(ctxFn, func(x ssa.Instruction) {
				st, isSt := x.(*ssa.Store)
				if !isSt {
					return
				}
				v := st.Val
				if lk, isLk := v.(*ssa.Lookup); isLk && sameMap(lk.X) {
					kept = true
				}
				if ex, isEx := v.(*ssa.Extract); isEx {
					if lk, isLk := ex.Tuple.(*ssa.Lookup); isLk && sameMap(lk.X) {
						kept = true
					}
				}
				if u, isU := v.(*ssa.UnOp); isU && u.Op == token.MUL {
					// re-loaded from the variable the lookup was stored in
					eng.EachInstr(ctxFn, func(y ssa.Instruction) {
						if s2, isS2 := y.(*ssa.Store); isS2 && s2.Addr == u.X && s2 != st {
							if lk, isLk := s2.Val.(*ssa.Lookup); isLk && sameMap(lk.X) {
								kept = true
							}
						}
					})
				}
			})
			if !kept {
				// …or returned to the caller (a take(id) helper run under the caller's lock)
				eng.EachInstr(ctxFn, func(x ssa.Instruction) {
					rt, isRt := x.(*ssa.Return)
					if !isRt || x.Parent() != ctxFn {
						return
					}
					for _, rv := range rt.Results {
						if eng.BackSlice(rv, func(v ssa.Value) bool {
							lk, isLk := v.(*ssa.Lookup)
							return isLk && sameMap(lk.X)
						}) {
							kept = true
						}
					}
				})
			}
			if !kept {
				r.Bad(rule, cons+":kept", p.InstrPos(call), "the message found here is deleted and kept nowhere: nothing after the critical section can announce its deletion or tell the size enforcer about it")
			} else {
				r.Ok(rule, cons+":kept", p.InstrPos(call), "the removed message is handed out of the critical section")
			}
		}
		if ok {
			r.Ok(rule, cons, p.InstrPos(call), "the entry is found and deleted inside one function (one hold of the mailbox lock)")
		} else {
			r.Bad(rule, cons, p.InstrPos(call), "nothing in %s establishes that the entry is still there when it is deleted: the presence test was made under an earlier hold of the lock (or not at all), so two overlapping removals of one message — two clients, a client and the retention scan, an explicit delete racing the size enforcer — both see it, both pass here, and each announces a deletion that happened once", shortFn(fn))
		}
	}
	r.Floor(rule, "delete sites on the memory store's message maps", n, 1)
}

// c16GuardedSliceStaysInside: the listener lists of the event brokers are edited in place under
// the broker's lock (a removal shifts the entries down). A function that hands the list itself
// out of its critical section — `RLock; defer RUnlock; return eb.listenerFuncs` — lets the caller
// walk the backing array while a removal shifts it: one registered listener is skipped and
// another called twice, so an event is delivered zero or two times.
func (c *Ctx) c16GuardedSliceStaysInside() {
	r, p := c.R, c.P
	rule := "C16/BROKER/list-stays-under-lock"
	r.Rule(rule, "in pkg/extension no function returns (directly, or re-sliced) the value of a slice field of a struct that carries a sync mutex: what leaves the critical section is a copy")
	hasMutex := func(t types.Type) bool {
		if pt, ok := t.Underlying().(*types.Pointer); ok {
			t = pt.Elem()
		}
		st, ok := t.Underlying().(*types.Struct)
		if !ok {
			return false
		}
		for i := 0; i < st.NumFields(); i++ {
			ft := st.Field(i).Type()
			if pt, ok := ft.(*types.Pointer); ok {
				ft = pt.Elem()
			}
			if n, ok := ft.(*types.Named); ok && n.Obj().Pkg() != nil && n.Obj().Pkg().Path() == "sync" && (n.Obj().Name() == "Mutex" || n.Obj().Name() == "RWMutex") {
				return true
			}
		}
		return false
	}
	n := 0
	seenFn := map[*ssa.Function]bool{}
	for _, fn := range p.Funcs {
		if eng.FuncPkgPath(fn) != eng.Mod+"/pkg/extension" || seenFn[fn] || p.IsTestSupport(fn) || len(fn.Blocks) == 0 {
			continue
		}
		seenFn[fn] = true
		fn := fn
		eng.EachInstr(fn, func(in ssa.Instruction) {
			rt, ok := in.(*ssa.Return)
			if !ok || in.Parent() != fn {
				return
			}
			for _, rv := range eng.ReturnResults(rt) {
				if _, isSl := rv.Type().Underlying().(*types.Slice); !isSl {
					continue
				}
				n++
				v := eng.StripConv(rv)
				for d := 0; d < 3; d++ {
					if sl, isS := v.(*ssa.Slice); isS {
						v = eng.StripConv(sl.X)
						continue
					}
					break
				}
				bad := false
				if u, isU := v.(*ssa.UnOp); isU && u.Op == token.MUL {
					if fa, isFA := u.X.(*ssa.FieldAddr); isFA && hasMutex(fa.X.Type()) {
						bad = true
					}
				}
				cons := "returns-slice@" + shortFn(fn)
				if bad {
					r.Bad(rule, cons, p.InstrPos(rt), "the broker's own listener list is returned from the critical section: the caller walks it with no lock held while RemoveListener (or a re-registration) shifts its entries in place — a listener that is still registered is skipped and the last one is called twice, so one event is announced to some listeners never and to others twice")
				} else {
					r.Ok(rule, cons, p.InstrPos(rt), "the slice returned is not a guarded field itself")
				}
			}
		})
	}
	r.Count(rule+": slice-returning returns examined", n)
}
