package rules

import (
	"fmt"
	"go/token"
	"go/types"
	"sort"
	"strings"

	"golang.org/x/tools/go/ssa"

	"ibcheck/eng"
)

func init() { Registry["C01"] = checkC01 }

// loopHeaders returns the headers of the natural loops containing block b.
func loopHeaders(b *ssa.BasicBlock) []*ssa.BasicBlock {
	fn := b.Parent()
	var out []*ssa.BasicBlock
	for _, t := range fn.Blocks {
		for _, h := range t.Succs {
			if !h.Dominates(t) {
				continue
			}
			// back edge t→h; body = nodes that reach t without passing h
			body := map[*ssa.BasicBlock]bool{h: true}
			work := []*ssa.BasicBlock{t}
			for len(work) > 0 {
				x := work[len(work)-1]
				work = work[:len(work)-1]
				if body[x] {
					continue
				}
				body[x] = true
				work = append(work, x.Preds...)
			}
			if body[b] {
				dup := false
				for _, o := range out {
					if o == h {
						dup = true
					}
				}
				if !dup {
					out = append(out, h)
				}
			}
		}
	}
	return out
}

func checkC01(c *Ctx) {
	r, p := c.R, c.P
	r.Explanation = "Decides the routing skeleton of a delivery: (D1) who-may-call — every call site that can dispatch to a Store implementer's AddMessage lies in StoreManager.Deliver, and every call of Manager.Deliver lies in the SMTP function that reads the DATA block (call graph: VTA over CHA, test-support callers excluded), so nothing but an SMTP DATA completion adds mail; (D2) Deliver is unreachable from the error edge of the DATA read; (D3) Deliver contains exactly one AddMessage site, inside exactly one loop, which ranges over the Mailboxes of the post-hook InboundMessage, and Deliver is not re-entered; (D4) on the no-extension branch the destination list is rebuilt from empty with, per ranged recipient, recip.Mailbox appended under recip.ShouldStore() true — nothing else; (D5) a 2xx reply after DATA is sent only where Deliver returned nil, and the Deliver error edge sends a non-2xx reply; (D6) typestate: recipients are appended only in state MAIL, every input read outside a transaction sees an empty recipient list, and the envelope is gone at the next read after Deliver; (D7) the stored metadata takes From/To/Subject/Size from the post-hook InboundMessage and Mailbox from the loop element."
	r.NotDecided = []string{"that the store implementations retain what AddMessage is given (C07/C02 clauses)", "duplicates arising inside a store", "store I/O failure in the middle of the fan-out (earlier recipients keep their copy while the client sees 451)", "which address strings are accepted"}
	r.Assumptions = []string{"VTA-over-CHA call graph over-approximates interface dispatch", "one Session object per session goroutine"}
	r.Rule("C01/WMC", "who-may-call: Store.AddMessage implementers are called only from StoreManager.Deliver; Manager.Deliver only from the SMTP function that reads the DATA block")
	r.Rule("C01/DOM/deliver-after-data", "the Deliver call is dominated by the success edge of the DATA read")
	r.Rule("C01/ONCE/fanout", "exactly one AddMessage site in Deliver, in exactly one loop, ranging over InboundMessage.Mailboxes of the post-hook message; the stored mailbox is the loop element; Deliver is not recursive")
	r.Rule("C01/FLOW/mailboxes", "without an extension answer, Mailboxes is rebuilt from empty by appending recip.Mailbox of each ranged recipient under ShouldStore() true, nothing else")
	r.Rule("C01/ACK/250-iff-stored", "after the DATA read a 2xx reply is sent only where Deliver's error is nil; the Deliver error edge replies non-2xx")
	r.Rule("C01/TS/sequence", "typestate: append(recipients) only under state=MAIL (with the other sequencing invariants of C03)")
	r.Rule("C01/TS/reset", "typestate: outside a transaction the recipient list is empty at every input read; the envelope is discarded after Deliver and on RSET/EHLO/HELO")
	r.Rule("C01/META", "Delivery.Meta: Mailbox = loop element; From, To, Subject, Size = fields of the post-hook InboundMessage")
	m := c.smtp()
	sm := c.stores()
	if !m.ok || !sm.ok {
		return
	}
	deliver := p.Method("pkg/message", "StoreManager", "Deliver")
	addObj := p.MethodObj("pkg/storage", "Store", "AddMessage")
	fMailboxes := p.Field("pkg/extension/event", "InboundMessage", "Mailboxes")
	fRecipMb := p.Field("pkg/policy", "Recipient", "Mailbox")
	shouldStore := p.Method("pkg/policy", "Recipient", "ShouldStore")
	fMeta := p.Field("pkg/message", "Delivery", "Meta")
	if deliver == nil || addObj == nil || fMailboxes == nil || fRecipMb == nil || shouldStore == nil || fMeta == nil {
		return
	}
	// ---- D1
	nImpl := 0
	for _, T := range sm.impls {
		fn := p.MethodOf(T, "AddMessage")
		if fn == nil || p.IsTestSupport(fn) {
			continue
		}
		nImpl++
		var bad []string
		sites := p.SitesMayCall(fn)
		for _, s := range sites {
			if ok, _ := p.OnlyReachedFrom(eng.Outer(s.Parent()), func(g *ssa.Function) bool { return g == deliver }); !ok {
				bad = append(bad, shortFn(s.Parent())+" at "+p.InstrPos(s))
			}
		}
		cons := "AddMessage:" + eng.ShortType(T)
		if len(bad) > 0 {
			r.Bad("C01/WMC", cons, p.Pos(fn.Pos()), "mail can be added to a mailbox outside StoreManager.Deliver: called from %s", strings.Join(bad, "; "))
		} else {
			r.Ok("C01/WMC", cons, p.Pos(fn.Pos()), "%d call site(s), all in StoreManager.Deliver", len(sites))
		}
		r.Count("AddMessage call sites", len(sites))
	}
	r.Floor("C01/WMC", "non-test Store implementers", nImpl, 1)
	// interface-level sites as cross-check
	for _, s := range p.SitesCalling(addObj) {
		if ok, _ := p.OnlyReachedFrom(eng.Outer(s.Parent()), func(g *ssa.Function) bool { return g == deliver }); !ok {
			r.Bad("C01/WMC", "AddMessage:interface-site@"+shortFn(s.Parent()), p.InstrPos(s), "Store.AddMessage is called outside StoreManager.Deliver")
		}
	}
	dSites := p.SitesCalling(m.deliverObj)
	var badD []string
	for _, s := range dSites {
		F := s.Parent()
		_, _, reads := m.liftToDataReader(p, s)
		if !reads {
			badD = append(badD, shortFn(F)+" at "+p.InstrPos(s))
		}
	}
	if len(badD) > 0 {
		r.Bad("C01/WMC", "Deliver", "", "Manager.Deliver is called from a function that neither reads the SMTP DATA block nor is called only from the function that does: %s", strings.Join(badD, "; "))
	} else {
		r.Ok("C01/WMC", "Deliver", "", "%d call site(s) of Manager.Deliver, all in the DATA-reading SMTP function (or a helper called only from it)", len(dSites))
	}
	r.Floor("C01/WMC", "Manager.Deliver call sites", len(dSites), 1)

	// ---- D2
	c.c01Atomic("C01/DOM/deliver-after-data", m)
	// a transaction that never completed adds nothing: a DATA block cut short must not come
	// back from the read as a complete message
	c.c03ReadError("C01/DOM/data-read-error", m)

	// ---- D3
	var adds []*ssa.Call
	var dfns []*ssa.Function
	for g := range p.SyncReach(deliver) {
		if eng.FuncPkgPath(g) == eng.Mod+"/pkg/message" {
			dfns = append(dfns, g)
		}
	}
	sort.Slice(dfns, func(i, j int) bool { return dfns[i].String() < dfns[j].String() })
	for _, g := range dfns {
		eng.EachInstr(g, func(in ssa.Instruction) {
			if call, ok := in.(*ssa.Call); ok && eng.IsCallTo(call.Common(), addObj) {
				adds = append(adds, call)
			}
		})
	}
	// chainLoops: the loops enclosing a site, counted along the (single) call chain up to Deliver
	var chainLoops func(in ssa.Instruction, depth int) ([]*ssa.BasicBlock, bool)
	chainLoops = func(in ssa.Instruction, depth int) ([]*ssa.BasicBlock, bool) {
		hs := loopHeaders(in.Block())
		fn := in.Parent()
		if fn == deliver {
			return hs, true
		}
		if depth > 4 {
			return nil, false
		}
		sites := p.StaticCallSites(fn)
		if len(sites) != 1 {
			return nil, false
		}
		up, ok := chainLoops(sites[0].Instr.(ssa.Instruction), depth+1)
		return append(hs, up...), ok
	}
	var postHook ssa.Value         // the phi of (policy branch, extension branch)
	var metaAnchor ssa.Instruction // where the Delivery record is complete: the AddMessage call, or the append that queues it
	if len(adds) != 1 {
		r.Bad("C01/ONCE/fanout", "single-site", p.Pos(deliver.Pos()), "Deliver contains %d AddMessage call sites; exactly one is required (a second site stores a message twice or to an extra mailbox)", len(adds))
	} else {
		add := adds[0]
		hs, chainOK := chainLoops(add, 0)
		okLoop := false
		detail := ""
		if !chainOK {
			detail = "the function containing the AddMessage site is not reached from Deliver through a single call chain"
		} else if len(hs) != 1 {
			detail = "the AddMessage site is nested in " + string(rune('0'+len(hs))) + " loops; exactly one (over the destination mailboxes) is required"
		} else {
			ranged := rangedBy(hs[0])
			if prm, isP := ranged.(*ssa.Parameter); isP {
				// the loop sits in a helper that is handed the list (storeEach(inbound.Mailboxes, …))
				if act := eng.StripConv(p.Actual(prm)); eng.SameField(eng.LoadedField(act), fMailboxes) {
					ranged = act
				}
			}
			if ranged != nil && eng.SameField(eng.LoadedField(ranged), fMailboxes) {
				base := ranged.(*ssa.UnOp).X.(*ssa.FieldAddr).X
				postHook = base
				okLoop = true
				detail = "one AddMessage site, in the single loop ranging over InboundMessage.Mailboxes"
			} else if ap, base, why := c.c01DerivedList(ranged, add, fMailboxes); ap != nil {
				// two passes: the deliveries are prepared one per destination, then stored
				postHook = base
				metaAnchor = ap
				okLoop = true
				detail = "one AddMessage site, in the single loop over the deliveries prepared one per element of InboundMessage.Mailboxes (at " + p.InstrPos(ap) + ")"
			} else {
				detail = "the loop around AddMessage does not range over InboundMessage.Mailboxes"
				if why != "" {
					detail += " (" + why + ")"
				}
			}
		}
		r.Check(okLoop, "C01/ONCE/fanout", "single-site", p.InstrPos(add), detail, detail)
	}
	// recursion
	rec := false
	for fn := range p.ReachModule(deliver) {
		if fn == deliver {
			continue
		}
		eng.EachInstr(fn, func(in ssa.Instruction) {
			if ci, ok := in.(ssa.CallInstruction); ok && (eng.StaticCallee(ci.Common()) == deliver || eng.IsCallTo(ci.Common(), m.deliverObj)) && eng.FuncPkgPath(fn) != eng.Mod+"/"+smtpRel {
				rec = true
			}
		})
	}
	r.Check(!rec, "C01/ONCE/fanout", "no-reentry", p.Pos(deliver.Pos()), "Deliver is not re-entered from the code it calls", "Deliver can be re-entered from code it reaches: a message would be delivered more than once")

	// post-hook message must be φ(pre-hook alloc, Emit result)
	if postHook != nil {
		okPhi := false
		// the message kept in a variable a closure reads (the loop body as a local function):
		// the variable is assigned the pre-hook record and, on the other branch, the hook's answer
		if cell := cellOfLoad(postHook); cell != nil {
			nAlloc, nEmit, other := 0, 0, 0
			for _, st := range eng.CellStores(cell) {
				switch x := st.Val.(type) {
				case *ssa.Alloc:
					nAlloc++
				case *ssa.Call:
					if o := eng.CalleeObj(x.Common()); o != nil && strings.Contains(eng.CalleeName(x.Common()), "EventBroker") && strings.HasSuffix(o.Name(), "Emit") {
						nEmit++
					} else {
						other++
					}
				default:
					other++
				}
			}
			okPhi = nAlloc == 1 && nEmit == 1 && other == 0
		}
		if ph, ok := postHook.(*ssa.Phi); ok && len(ph.Edges) == 2 {
			nAlloc, nEmit := 0, 0
			for _, e := range ph.Edges {
				switch x := e.(type) {
				case *ssa.Alloc:
					nAlloc++
				case *ssa.Call:
					if strings.Contains(eng.CalleeName(x.Common()), "EventBroker") && strings.HasSuffix(eng.CalleeObj(x.Common()).Name(), "Emit") {
						nEmit++
					}
				}
				// the pre-hook message built by a helper of the package: every value it returns
				// is a fresh record (or nil together with an error)
				if call, idx := eng.CallAndIndex(e); call != nil {
					if rets, g := eng.ReturnedValues(call, idx); g != nil && eng.FuncPkgPath(g) == eng.FuncPkgPath(deliver) && len(rets) > 0 {
						fresh, n := true, 0
						for _, rv := range rets {
							if eng.IsNilConst(rv) {
								continue
							}
							if _, isAl := rv.(*ssa.Alloc); !isAl {
								fresh = false
							}
							n++
						}
						if fresh && n > 0 {
							nAlloc++
						}
					}
				}
			}
			okPhi = nAlloc == 1 && nEmit == 1
		}
		// or the result of a helper that returns either the hook's answer or the message it
		// was given
		if call, idx := eng.CallAndIndex(postHook); call != nil && !okPhi {
			if rets, g := eng.ReturnedValues(call, idx); g != nil && len(rets) > 0 {
				nPrm, nEmit, other := 0, 0, 0
				for _, rv := range rets {
					switch x := rv.(type) {
					case *ssa.Parameter:
						nPrm++
					case *ssa.Call:
						if o := eng.CalleeObj(x.Common()); o != nil && strings.Contains(eng.CalleeName(x.Common()), "EventBroker") && strings.HasSuffix(o.Name(), "Emit") {
							nEmit++
						} else {
							other++
						}
					default:
						other++
					}
				}
				okPhi = nPrm >= 1 && nEmit >= 1 && other == 0
			}
		}
		r.Check(okPhi, "C01/ONCE/fanout", "post-hook-message", p.Pos(deliver.Pos()), "destinations are read from φ(policy-filtered message, BeforeMessageStored answer)", "the destination list is not read from the post-hook message (policy branch / extension branch)")
	}

	// ---- D4
	c.c01Mailboxes(deliver, fMailboxes, fRecipMb, shouldStore)

	// ---- D5
	c.c01Ack(m)
	// a store failure for any destination must make Deliver fail: the 2xx gate of D5 only
	// sees Deliver's result
	r.Rule("C01/ACK/store-error", "in Deliver no return reachable on the error edge of Store.AddMessage reports success: an acknowledged message was stored for every destination")
	var ackFns []*ssa.Function
	for fn := range p.SyncReach(deliver) {
		if eng.FuncPkgPath(fn) == eng.FuncPkgPath(deliver) {
			ackFns = append(ackFns, fn)
		}
	}
	sortFuncs(ackFns)
	nAdd := c.errNotSwallowedCalls("C01/ACK/store-error", ackFns, func(call *ssa.Call) (string, bool) {
		return "Store.AddMessage", eng.IsCallTo(call.Common(), addObj)
	}, false, "the transaction is acknowledged with 250 although a recipient's copy was not stored, and the client will not retry")
	r.Floor("C01/ACK/store-error", "Store.AddMessage calls in Deliver", nAdd, 1)

	// stores: the append of the new message to a mailbox is atomic with respect to other
	// deliveries (decided by C09's lock rules; a lost update here is a lost acknowledged message)
	nB := c.borrow(func(c2 *Ctx) {
		if pm := c2.pairing(); pm.ok {
			c2.c09File(pm)
		}
	}, "C09/GUARD/file/(*file.Store).AddMessage", "C01/STORE/atomic-append", "file store: AddMessage loads the index, appends and writes it back inside one critical section of the mailbox's bucket lock, in write mode, released on all exits")
	nB += c.borrow(func(c2 *Ctx) {
		if pm := c2.pairing(); pm.ok {
			c2.c09Mem(pm)
		}
	}, "C09/GUARD/mem/boxes-insert", "C01/STORE/atomic-create", "memory store: a mailbox entry is looked up and created in one critical section (two first deliveries cannot each create an entry)")
	nB += c.borrow(func(c2 *Ctx) {
		if sm := c2.stores(); sm.ok {
			c2.c07Mem(sm)
		}
	}, "C07/ID/monotone/mem.Store.boxes:entries-persist", "C01/STORE/entries-persist", "memory store: mailbox entries are never deleted or replaced, so a delivery that already holds an entry cannot file its (then acknowledged) message in a mailbox no reader can reach")
	r.Floor("C01/STORE/atomic-append", "borrowed store-atomicity obligations", nB, 1)
	// "eligible for storage" is the documented store rule (decided by C05's truth table): a
	// predicate that consults the inactive list drops an acknowledged recipient's copy
	nE := c.borrow(checkC05, "C05/TABLE/predicates/policy.ShouldStoreDomain", "C01/STORE/eligible", "the store decision of an accepted recipient is DefaultStore∧¬in(DiscardDomains) ∨ ¬DefaultStore∧in(StoreDomains), for every combination of the three atoms")
	r.Floor("C01/STORE/eligible", "borrowed obligations", nE, 1)

	// each copy carries the whole message (its size): the reader handed to a store is built per
	// destination from the unmodified source (decided by C02's concatenation rule); a reader
	// shared by the iterations is at EOF after the first AddMessage
	nCp := c.borrow(func(c2 *Ctx) { c2.c02Deliver() }, "C02/DELIVER/concat", "C01/COPY/per-destination", "the content of each stored copy is header text followed by a reader over the unmodified source, created for that destination")
	r.Floor("C01/COPY/per-destination", "borrowed obligations", nCp, 1)

	// "250 only when stored": inside the stores, a failure on the way (source, raw file, copy,
	// flush, close, index) must come back from AddMessage as an error — a failure branch that
	// reports success makes Deliver acknowledge a message no mailbox holds
	{
		r.Rule("C01/STORE/errors", "in what a store's AddMessage runs, every error the code tests against nil is reported on its failure branch (no return there reports success, except behind an explicit not-exist / EOF test)")
		var afns []*ssa.Function
		seenA := map[*ssa.Function]bool{}
		if iface, ok := p.Named("pkg/storage", "Store").Underlying().(*types.Interface); ok {
			for _, T := range p.Implementers(iface, false) {
				if am := p.MethodOf(T, "AddMessage"); am != nil {
					for g := range p.SyncReach(am) {
						if strings.HasPrefix(eng.FuncPkgPath(g), eng.Mod+"/pkg/storage") && !seenA[g] {
							seenA[g] = true
							afns = append(afns, g)
						}
					}
					if !seenA[am] {
						seenA[am] = true
						afns = append(afns, am)
					}
				}
			}
		}
		sortFuncs(afns)
		nSE := c.storeErrorsPropagate("C01/STORE/errors", afns, "AddMessage reports success although the message was not (completely) stored: the SMTP client gets its 250 and the mailbox holds nothing, or a truncated copy")
		r.Floor("C01/STORE/errors", "tested errors on the AddMessage paths of the stores", nSE, 3)
	}

	c.c01RefusedGainsNothing(m)
	// "carrying that message's sender, recipients, subject and size": what is handed to Deliver
	// are the bytes this transaction read, and they stay this transaction's until Deliver is
	// done with them (decided by C02's byte-path rule: no lossy step, no buffer handed back to a
	// pool while the bytes are still in use)
	nIn := c.borrow(checkC02, "C02/IN/dot-decode", "C01/CONTENT/own-bytes", "the content argument of Deliver is the DATA block this session read, through pass-through operations only, and does not alias storage that is released before Deliver returns")
	r.Floor("C01/CONTENT/own-bytes", "borrowed obligations", nIn, 1)
	// Deliver itself: a failure on the way to the store is not reported as a delivery
	r.Rule("C01/DELIVER/errors", "in pkg/message no return reports success on the branch where a call's error is known non-nil, and none reports a failure built from an error known nil")
	r.Floor("C01/DELIVER/errors", "returns examined", c.errContradictions("C01/DELIVER/errors", pkgFuncs(p, "pkg/message"), "Deliver returns nil although the message was not handed to the store: the SMTP client is told 250 and the mail is gone"), 5)

	// "in the mailbox its address names": the name a recipient's copy is filed under is computed
	// by the same function every reader uses (decided by C04's one-authority rule)
	nNm := c.borrow(checkC04, "C04/ONE-AUTHORITY/Recipient.Mailbox", "C01/NAME/recipient-mailbox", "Recipient.Mailbox is written only in NewRecipient, from ExtractMailbox of the recipient's own address: delivery and lookup name the mailbox alike")
	r.Floor("C01/NAME/recipient-mailbox", "borrowed obligations", nNm, 1)

	// ---- D6
	t := c.smtpTypestate(m)
	for _, u := range t.undec {
		r.Undecided("C01/TS/sequence", "model", "", "%s", u)
	}
	r.Count("typestate (function, entry-config) summaries", t.ts.FunctionsAnalysed())
	c.c03Sequence("C01", m, t)
	c.c03Reset("C01", m, t)

	// ---- D7
	c.c01Meta(deliver, adds, metaAnchor, postHook, fMeta, fMailboxes)
}

// c01Mailboxes checks the rebuild of the destination list on the no-extension branch.
// rangedBy returns the slice a `for … range` loop with header h walks, or nil.
func rangedBy(h *ssa.BasicBlock) ssa.Value {
	rel, ok := eng.EdgeRel(h, 0)
	if !ok || rel.Op != token.LSS {
		return nil
	}
	ranged := rel.Y
	if lx := eng.LenOf(rel.Y); lx != nil {
		ranged = lx
	}
	// go/ssa hoists len(x) before the loop: t = len(x)
	if call, ok := rel.Y.(*ssa.Call); ok && eng.CalleeName(call.Common()) == "builtin.len" {
		ranged = call.Call.Args[0]
	}
	return ranged
}

// c01DerivedList decides the two-pass fan-out: the slice the storing loop walks was built from
// an empty slice by exactly one append, of one element, on every iteration of a single loop
// that ranges over InboundMessage.Mailboxes; the stored message is the element at the storing
// loop's counter. Returns the append and the InboundMessage (in Deliver's terms).
func (c *Ctx) c01DerivedList(ranged ssa.Value, add *ssa.Call, fMailboxes *types.Var) (ssa.Instruction, ssa.Value, string) {
	p := c.P
	if ranged == nil {
		return nil, nil, ""
	}
	// what is stored: element of the walked slice at the loop counter
	arg := unwrapIface(add.Call.Args[len(add.Call.Args)-1])
	u, ok := arg.(*ssa.UnOp)
	if !ok {
		return nil, nil, ""
	}
	ia, ok := u.X.(*ssa.IndexAddr)
	if !ok || ia.X != ranged || !isRangeCounter(ia.Index) {
		return nil, nil, ""
	}
	call, idx := eng.CallAndIndex(p.Actual(ranged))
	if call == nil {
		return nil, nil, ""
	}
	rets, g := eng.ReturnedValues(call, idx)
	if g == nil || len(rets) == 0 {
		return nil, nil, ""
	}
	var appends []*ssa.Call
	seen := map[ssa.Value]bool{}
	var walk func(v ssa.Value) bool
	walk = func(v ssa.Value) bool {
		if seen[v] {
			return true
		}
		seen[v] = true
		switch x := v.(type) {
		case *ssa.Phi:
			for _, e := range x.Edges {
				if !walk(e) {
					return false
				}
			}
			return true
		case *ssa.MakeSlice:
			k, isK := eng.ConstInt(x.Len)
			return isK && k == 0
		case *ssa.Const:
			return x.IsNil()
		case *ssa.Call:
			if eng.CalleeName(x.Common()) != "builtin.append" {
				return false
			}
			appends = append(appends, x)
			return walk(x.Call.Args[0])
		}
		return false
	}
	for _, v := range rets {
		if !walk(v) {
			return nil, nil, "the prepared list is not built by appending to an empty slice"
		}
	}
	if len(appends) != 1 {
		return nil, nil, fmt.Sprintf("the prepared list is built by %d appends; exactly one per destination is required", len(appends))
	}
	ap := appends[0]
	if sl, ok := ap.Call.Args[1].(*ssa.Slice); !ok {
		return nil, nil, "the prepared list is extended by a whole slice"
	} else if al, ok := sl.X.(*ssa.Alloc); !ok || al.Type().(*types.Pointer).Elem().(*types.Array).Len() != 1 {
		return nil, nil, "the prepared list does not grow by exactly one delivery per destination"
	}
	hs := loopHeaders(ap.Block())
	if len(hs) != 1 {
		return nil, nil, "the prepared list is not filled in exactly one loop"
	}
	h := hs[0]
	// every iteration appends: the append dominates each back edge
	for _, t := range h.Preds {
		if h.Dominates(t) && !ap.Block().Dominates(t) {
			return nil, nil, "an iteration over the destinations can skip the append"
		}
	}
	src := rangedBy(h)
	if src == nil || !eng.SameField(eng.LoadedField(src), fMailboxes) {
		return nil, nil, "the prepared list is not filled by a loop over InboundMessage.Mailboxes"
	}
	return ap, p.Actual(src.(*ssa.UnOp).X.(*ssa.FieldAddr).X), ""
}

func (c *Ctx) c01Mailboxes(deliver *ssa.Function, fMailboxes, fRecipMb *types.Var, shouldStore *ssa.Function) {
	c.c01MailboxesAs("C01/FLOW/mailboxes", deliver, fMailboxes, fRecipMb, shouldStore)
}

// c01MailboxesAs reports under the given rule id (C05 claims the same clause as its store
// decision rule).
func (c *Ctx) c01MailboxesAs(rule string, deliver *ssa.Function, fMailboxes, fRecipMb *types.Var, shouldStore *ssa.Function) {
	r, p := c.R, c.P
	var recipients *ssa.Parameter
	for _, prm := range deliver.Params {
		if strings.Contains(prm.Type().String(), "policy.Recipient") {
			recipients = prm
		}
	}
	if recipients == nil {
		r.Fatal("UNRESOLVED anchor=Deliver recipients parameter")
		return
	}
	var dfnsM []*ssa.Function
	for fn := range p.SyncReach(deliver) {
		if eng.FuncPkgPath(fn) == eng.FuncPkgPath(deliver) {
			dfnsM = append(dfnsM, fn)
		}
	}
	sortFuncs(dfnsM)
	sts := eng.StoresToField(dfnsM, fMailboxes)
	// the store that is not part of the composite literal initialisation dominated by the
	// extResult == nil edge
	n := 0
	for _, s := range sts {
		// under `extResult == nil`?
		under := false
		for _, b := range s.Fn.Blocks {
			for k := 0; k < len(b.Succs) && len(b.Succs) == 2; k++ {
				rel, ok := eng.EdgeRel(b, k)
				if !ok || rel.Op != token.EQL || !eng.IsNilConst(rel.Y) {
					continue
				}
				if call, ok := rel.X.(*ssa.Call); ok && strings.HasSuffix(eng.CalleeName(call.Common()), "Emit") && eng.EdgeDominates(b, k, s.Store.Block()) {
					under = true
				}
			}
		}
		if !under {
			continue
		}
		n++
		var probs []string
		seen := map[ssa.Value]bool{}
		type env map[*ssa.Parameter]ssa.Value
		res := func(v ssa.Value, e env) ssa.Value {
			for i := 0; i < 4; i++ {
				prm, ok := v.(*ssa.Parameter)
				if !ok {
					break
				}
				a, ok := e[prm]
				if !ok {
					break
				}
				v = a
			}
			return v
		}
		// guardedByShouldStore: the instruction at is not reachable from its function's entry
		// without taking the ShouldStore(recip)==true edge, once edges that contradict
		// constant arguments of the enclosing helper are removed
		guardedByShouldStore := func(at ssa.Instruction, recip ssa.Value, e env) bool {
			fn := at.Parent()
			edgeOK := func(b *ssa.BasicBlock, k int) bool {
				cv, pol, ok := eng.CondTruth(b, k)
				if !ok {
					return true
				}
				if call, ok := cv.(*ssa.Call); ok && eng.StaticCallee(call.Common()) == shouldStore && call.Call.Args[0] == recip && pol {
					return false // do not take the guard's true edge
				}
				if prm, ok := cv.(*ssa.Parameter); ok {
					if bv, isC := eng.ConstBool(res(prm, e)); isC && bv != pol {
						return false // infeasible under the constant argument
					}
				}
				return true
			}
			start := fn.Blocks[0]
			if fn == deliver {
				start = s.Store.Block() // irrelevant: in Deliver the dominance form below is used
			}
			hit := (&eng.Search{Target: func(in ssa.Instruction) bool { return in == at }, Edge: edgeOK}).FromBlockStart(start)
			return hit == nil
		}
		// checkElem: the value the store st puts into the destination list (appended at the
		// call `at`, or written in place at `at` = st) is recip.Mailbox of a ranged recipient
		// under ShouldStore() true, and the decision is taken for every recipient
		checkElem := func(at ssa.Instruction, st *ssa.Store, e env) (okEl bool) {
			u, ok := st.Val.(*ssa.UnOp)
			if !ok || !eng.SameField(eng.AddrField(u.X), fRecipMb) {
				probs = append(probs, "appended value is not recip.Mailbox at "+p.InstrPos(st))
				return false
			}
			recip := u.X.(*ssa.FieldAddr).X
			ru, ok := recip.(*ssa.UnOp)
			if !ok {
				probs = append(probs, "appended mailbox does not belong to a ranged recipient")
				return false
			}
			ia2, ok := ru.X.(*ssa.IndexAddr)
			if !ok || p.Actual(res(ia2.X, e)) != ssa.Value(recipients) {
				probs = append(probs, "appended mailbox does not belong to an element of the recipients parameter")
				return false
			}
			g := false
			fnA := at.Parent()
			for _, b := range fnA.Blocks {
				for k := 0; k < len(b.Succs) && len(b.Succs) == 2; k++ {
					cv, pol, ok := eng.CondTruth(b, k)
					if !ok || !pol || !eng.EdgeDominates(b, k, at.Block()) {
						continue
					}
					if call, ok := cv.(*ssa.Call); ok && eng.StaticCallee(call.Common()) == shouldStore && call.Call.Args[0] == recip {
						g = true
					}
				}
			}
			if !g && fnA != deliver {
				g = guardedByShouldStore(at, recip, e)
			}
			if !g {
				probs = append(probs, "recip.Mailbox is appended at "+p.InstrPos(at)+" without recip.ShouldStore() being true for the same recipient: mail for a discard domain is stored")
			} else {
				okEl = true
				// converse: the decision is taken for every ranged recipient and a
				// positive decision always reaches the append
				if hs := loopHeaders(ru.Block()); len(hs) > 0 {
					header := hs[len(hs)-1]
					for _, h := range hs {
						if h.Dominates(header) {
							continue
						}
						if header.Dominates(h) {
							header = h
						}
					}
					next := func(in ssa.Instruction) bool { return in.Block() == header && in == header.Instrs[0] }
					var ssCall ssa.Instruction
					eng.EachInstr(fnA, func(y ssa.Instruction) {
						if call, ok := y.(*ssa.Call); ok && eng.StaticCallee(call.Common()) == shouldStore && call.Call.Args[0] == recip {
							ssCall = y
						}
					})
					if ssCall != nil {
						if (&eng.Search{Target: next, Avoid: func(y ssa.Instruction) bool { return y == ssCall || y == at }}).After(ru) != nil {
							probs = append(probs, "a ranged recipient can be passed over before recip.ShouldStore() is asked (path from "+p.InstrPos(ru)+" to the next iteration avoiding "+p.InstrPos(ssCall)+"): whether its mail is stored then depends on something other than its own domain's policy")
						}
						for _, b := range fnA.Blocks {
							for k := 0; k < len(b.Succs) && len(b.Succs) == 2; k++ {
								cv, pol, ok := eng.CondTruth(b, k)
								if !ok || !pol || cv != ssa.Value(ssCall.(*ssa.Call)) {
									continue
								}
								if (&eng.Search{Target: next, Avoid: func(y ssa.Instruction) bool { return y == at }}).FromBlockStart(b.Succs[k]) != nil {
									probs = append(probs, "a recipient whose ShouldStore() is true can be left out of the destination list (path from the true edge at "+p.InstrPos(eng.IfOf(b))+" to the next iteration avoiding the append)")
								}
							}
						}
					}
				}
			}

			return okEl
		}
		var walk func(v ssa.Value, e env)
		walk = func(v ssa.Value, e env) {
			v = res(v, e)
			if seen[v] {
				return
			}
			seen[v] = true
			switch x := v.(type) {
			case *ssa.Phi:
				for _, ed := range x.Edges {
					walk(ed, e)
				}
			case *ssa.Slice:
				if k, ok := eng.ConstInt(x.High); ok && k == 0 {
					break
				}
				// compaction in place: list[:kept] where kept counts from 0 and every
				// list[kept] = recip.Mailbox is followed by kept++ (same block)
				if kh, ok := x.High.(*ssa.Phi); ok && x.Low == nil && isRangeCounterFromZero(kh) {
					nSt, okAll := 0, true
					eng.EachInstr(x.Parent(), func(in ssa.Instruction) {
						st, ok := in.(*ssa.Store)
						if !ok {
							return
						}
						ia, ok := st.Addr.(*ssa.IndexAddr)
						if !ok || res(ia.X, e) != res(x.X, e) {
							return
						}
						if len(loopHeaders(st.Block())) == 0 || !kh.Block().Dominates(st.Block()) || kh.Block() == st.Block() && false {
							return // the initial fill before the hook ran
						}
						if ia.Index != ssa.Value(kh) {
							// a write elsewhere in the list inside the compaction loop
							if eng.Dominates(kh.Block().Instrs[0], st) && inLoopOf(kh.Block(), st.Block()) {
								okAll = false
							}
							return
						}
						if !inLoopOf(kh.Block(), st.Block()) {
							return
						}
						nSt++
						// kept++ in the same block
						inc := false
						for _, bi := range st.Block().Instrs {
							if bo, ok := bi.(*ssa.BinOp); ok && bo.Op == token.ADD && bo.X == ssa.Value(kh) {
								if k1, isC := eng.ConstInt(bo.Y); isC && k1 == 1 {
									inc = true
								}
							}
						}
						if !inc || !checkElem(st, st, e) {
							okAll = false
						}
					})
					if nSt == 1 && okAll {
						break
					}
					if len(probs) == 0 {
						probs = append(probs, "the list is cut to a counted length at "+p.InstrPos(x)+" but the counter does not count exactly the recipients stored in place")
					}
					break
				}
				probs = append(probs, "base list is not emptied ([:0]) at "+p.InstrPos(x))
			case *ssa.Const:
			case *ssa.MakeSlice:
				if k, ok := eng.ConstInt(x.Len); !(ok && k == 0) {
					probs = append(probs, "base list is not empty at "+p.InstrPos(x))
				}
			case *ssa.Call:
				if eng.CalleeName(x.Common()) != "builtin.append" {
					// a module helper building the list from its parameters
					if rets, g := eng.ReturnedValues(x, 0); g != nil && len(rets) > 0 {
						ne := env{}
						for k2, v2 := range e {
							ne[k2] = v2
						}
						for i, prm := range g.Params {
							if i < len(x.Call.Args) {
								ne[prm] = res(x.Call.Args[i], e)
							}
						}
						for _, rv := range rets {
							walk(rv, ne)
						}
						return
					}
					probs = append(probs, "destination list produced by "+eng.CalleeName(x.Common())+" at "+p.InstrPos(x))
					return
				}
				walk(x.Call.Args[0], e)
				// appended elements
				okEl := false
				if sl, ok := x.Call.Args[1].(*ssa.Slice); ok {
					if al, ok := sl.X.(*ssa.Alloc); ok {
						for _, ref := range *al.Referrers() {
							if ia, ok := ref.(*ssa.IndexAddr); ok {
								for _, r2 := range *ia.Referrers() {
									st, ok := r2.(*ssa.Store)
									if !ok {
										continue
									}
									if checkElem(x, st, e) {
										okEl = true
									}
								}
							}
						}
					}
				}
				if !okEl && len(probs) == 0 {
					probs = append(probs, "cannot resolve the appended element at "+p.InstrPos(x))
				}
			default:
				probs = append(probs, "unclassified destination list source at "+valuePos(p, v))
			}
		}
		walk(s.Store.Val, env{})
		sort.Strings(probs)
		if len(probs) > 0 {
			r.Bad(rule, "policy-branch", p.InstrPos(s.Store), "%s", strings.Join(probs, "; "))
		} else {
			r.Ok(rule, "policy-branch", p.InstrPos(s.Store), "Mailboxes = [recip.Mailbox for recip in recipients if recip.ShouldStore()], rebuilt from an emptied list")
		}
	}
	r.Floor(rule, "policy-branch stores of InboundMessage.Mailboxes", n, 1)
}

func (c *Ctx) c01Ack(m *smtpModel) {
	r, p := c.R, c.P
	nSites := 0
	defer func() { r.Floor("C01/ACK/250-iff-stored", "Deliver call sites examined", nSites, 1) }()
	for _, site := range m.deliverSites {
		F := site.Parent()
		call, ok := site.(*ssa.Call)
		if !ok {
			continue
		}
		cons := "ack@" + shortFn(F)
		var gcall *ssa.Call
		eng.EachInstr(F, func(in ssa.Instruction) {
			if cc, ok := in.(*ssa.Call); ok && eng.StaticCallee(cc.Common()) == m.dataRead {
				gcall = cc
			}
		})
		// Deliver called from a helper of the DATA-reading function (deliver(msg)): everything
		// the helper sends comes after the read
		if gcall == nil {
			if _, _, reads := m.liftToDataReader(p, site); !reads {
				continue
			}
		}
		nSites++
		var probs []string
		n2 := 0
		eng.EachInstr(F, func(in ssa.Instruction) {
			if !m.isSend(in) || gcall != nil && !eng.Dominates(gcall, in) {
				return
			}
			pre, ok := m.sendPrefix(in)
			if replyClass(pre, ok) != '2' || strings.HasPrefix(pre, "221") {
				return // 221 = closing the channel, not an acknowledgement
			}
			n2++
			if !eng.Dominates(call, in) || !eng.KnownNil(call, in.Block()) {
				probs = append(probs, "2xx reply at "+p.InstrPos(in)+" is not confined to the path on which Deliver returned nil: the client is told the message was accepted although it was not stored")
			}
		})
		// error edge of Deliver: must send a non-2xx before returning
		for _, b := range F.Blocks {
			for k := 0; k < len(b.Succs) && len(b.Succs) == 2; k++ {
				rel, ok := eng.EdgeRel(b, k)
				if !ok || rel.Op != token.NEQ || !eng.IsNilConst(rel.Y) {
					continue
				}
				isD := false
				for _, a := range eng.ValueAliases(call) {
					if rel.X == a {
						isD = true
					}
				}
				if !isD {
					continue
				}
				ret := eng.BlockReaches(b.Succs[k], eng.IsReturn, func(in ssa.Instruction) bool {
					if !m.isSend(in) {
						return false
					}
					pre, ok := m.sendPrefix(in)
					cl := replyClass(pre, ok)
					return cl == '4' || cl == '5'
				})
				if ret != nil {
					probs = append(probs, "the Deliver error edge can return at "+p.InstrPos(ret)+" without a 4xx/5xx reply")
				}
			}
		}
		if n2 == 0 {
			probs = append(probs, "no 2xx acknowledgement after the DATA read")
		}
		sort.Strings(probs)
		if len(probs) > 0 {
			r.Bad("C01/ACK/250-iff-stored", cons, p.InstrPos(call), "%s", strings.Join(probs, "; "))
		} else {
			r.Ok("C01/ACK/250-iff-stored", cons, p.InstrPos(call), "%d 2xx repl(ies) after DATA, all dominated by Deliver == nil; error edge replies 4xx/5xx", n2)
		}
	}
}

func (c *Ctx) c01Meta(deliver *ssa.Function, adds []*ssa.Call, anchor ssa.Instruction, postHook ssa.Value, fMeta, fMailboxes *types.Var) {
	r, p := c.R, c.P
	if postHook == nil || len(adds) != 1 {
		r.Undecided("C01/META", "Delivery.Meta", p.Pos(deliver.Pos()), "post-hook message or AddMessage site not established (see C01/ONCE/fanout)")
		return
	}
	if anchor == nil {
		anchor = adds[0]
	}
	// sameMsg: v is the post-hook message: the value itself, or another load of the variable
	// that holds it
	sameMsg := func(v ssa.Value) bool {
		if v == postHook {
			return true
		}
		c1, c2 := cellOfLoad(v), cellOfLoad(postHook)
		return c1 != nil && c1 == c2
	}
	want := map[string]string{"From": "From", "To": "To", "Subject": "Subject", "Size": "Size"}
	got := map[string]bool{}
	var probs []string
	checkField := func(name string, st *ssa.Store) {
		got[name] = true
		switch {
		case name == "Mailbox":
			// element of the ranged Mailboxes
			okMb := false
			if u, ok := p.Actual(st.Val).(*ssa.UnOp); ok {
				if ia, ok := u.X.(*ssa.IndexAddr); ok {
					list := eng.StripConv(p.Actual(ia.X)) // the list may be a parameter of the helper holding the loop
					if eng.SameField(eng.LoadedField(list), fMailboxes) && isRangeCounter(ia.Index) && len(loopHeaders(ia.Block())) == 1 {
						if sameMsg(p.Actual(list.(*ssa.UnOp).X.(*ssa.FieldAddr).X)) {
							okMb = true
						}
					}
				}
			}
			if !okMb {
				probs = append(probs, "Meta.Mailbox is not the loop element of the post-hook Mailboxes (at "+p.InstrPos(st)+")")
			}
		case want[name] != "":
			f := eng.LoadedField(st.Val)
			okF := f != nil && f.Name() == want[name]
			if okF {
				if base, ok := st.Val.(*ssa.UnOp).X.(*ssa.FieldAddr); !ok || !sameMsg(p.Actual(base.X)) {
					okF = false
				}
			}
			if !okF {
				probs = append(probs, "Meta."+name+" is not read from the post-hook InboundMessage."+want[name]+" (at "+p.InstrPos(st)+"): a hook's replacement would be ignored or the wrong value stored")
			}
		}
	}
	// where the record is built: the function holding the anchor, or the function literal the
	// record comes from when the anchor's function asks a callback for it (delivery := build(mb))
	unit := anchor.Parent()
	if ac, ok := anchor.(*ssa.Call); ok && len(ac.Call.Args) > 0 {
		if bc, ok := resolveCell(eng.Unwrap(ac.Call.Args[len(ac.Call.Args)-1])).(*ssa.Call); ok {
			if prm, isP := bc.Call.Value.(*ssa.Parameter); isP {
				if b, _, ok := eng.FuncValueOf(p.Actual(prm)); ok && b != nil && len(b.Blocks) > 0 {
					unit = b
				}
			}
		}
	}
	before := func(st ssa.Instruction) bool {
		return st.Parent() != anchor.Parent() || eng.Dominates(st, anchor)
	}
	eng.EachInstr(unit, func(in ssa.Instruction) {
		st, ok := in.(*ssa.Store)
		if !ok {
			return
		}
		fa, ok := st.Addr.(*ssa.FieldAddr)
		if !ok {
			return
		}
		if eng.SameField(eng.FieldOfAddr(fa), fMeta) && before(st) {
			// the whole record copied from a local template whose fields are set beforehand
			// (meta := MessageMetadata{…}; meta.Mailbox = mb; Meta: meta)
			if u, ok := st.Val.(*ssa.UnOp); ok {
				if al, ok := u.X.(*ssa.Alloc); ok && al.Referrers() != nil {
					for _, ref := range *al.Referrers() {
						fa2, ok := ref.(*ssa.FieldAddr)
						if !ok {
							continue
						}
						for _, r2 := range *fa2.Referrers() {
							if st2, ok := r2.(*ssa.Store); ok && st2.Addr == ssa.Value(fa2) && eng.Dominates(st2, u) {
								checkField(eng.FieldOfAddr(fa2).Name(), st2)
							}
						}
					}
					return
				}
			}
			// the whole record built by a helper of the package: Meta: deliveryMetadata(msg, mb, now)
			if call, idx := eng.CallAndIndex(st.Val); call != nil {
				if rets, g := eng.ReturnedValues(call, idx); g != nil && len(p.StaticCallSites(g)) == 1 {
					for _, rv := range rets {
						u, ok := rv.(*ssa.UnOp)
						if !ok {
							continue
						}
						al, ok := u.X.(*ssa.Alloc)
						if !ok || al.Referrers() == nil {
							continue
						}
						for _, ref := range *al.Referrers() {
							fa2, ok := ref.(*ssa.FieldAddr)
							if !ok {
								continue
							}
							for _, r2 := range *fa2.Referrers() {
								if st2, ok := r2.(*ssa.Store); ok && st2.Addr == ssa.Value(fa2) {
									checkField(eng.FieldOfAddr(fa2).Name(), st2)
								}
							}
						}
					}
				}
			}
			return
		}
		outer, ok := fa.X.(*ssa.FieldAddr)
		if !ok || !eng.SameField(eng.FieldOfAddr(outer), fMeta) {
			return
		}
		if !before(st) {
			return
		}
		checkField(eng.FieldOfAddr(fa).Name(), st)
	})
	for _, k := range []string{"Mailbox", "From", "To", "Subject", "Size", "Date"} {
		if !got[k] {
			probs = append(probs, "Meta."+k+" is not set")
		}
	}
	sort.Strings(probs)
	if len(probs) > 0 {
		r.Bad("C01/META", "Delivery.Meta", p.InstrPos(adds[0]), "%s", strings.Join(probs, "; "))
	} else {
		r.Ok("C01/META", "Delivery.Meta", p.InstrPos(adds[0]), "Mailbox = Mailboxes[i]; From/To/Subject/Size from the post-hook InboundMessage; Date set")
	}
}

// isRangeCounterFromZero: ph = φ(0, …) at a loop header whose other edge leads back to ph or ph+1
// (a counter that starts at zero and is incremented on some iterations).
func isRangeCounterFromZero(ph *ssa.Phi) bool {
	zero, back := false, false
	var derives func(v ssa.Value, depth int) bool
	derives = func(v ssa.Value, depth int) bool {
		if depth > 4 {
			return false
		}
		if v == ssa.Value(ph) {
			return true
		}
		switch x := v.(type) {
		case *ssa.BinOp:
			k, isC := eng.ConstInt(x.Y)
			return x.Op == token.ADD && isC && k == 1 && x.X == ssa.Value(ph)
		case *ssa.Phi:
			for _, e := range x.Edges {
				if !derives(e, depth+1) {
					return false
				}
			}
			return len(x.Edges) > 0
		}
		return false
	}
	for _, e := range ph.Edges {
		if k, isC := eng.ConstInt(e); isC && k == 0 {
			zero = true
			continue
		}
		if derives(e, 0) {
			back = true
			continue
		}
		return false
	}
	return zero && back
}

// inLoopOf: b lies in a loop whose header is h.
func inLoopOf(h, b *ssa.BasicBlock) bool {
	for _, x := range loopHeaders(b) {
		if x == h {
			return true
		}
	}
	return false
}

// cellOfLoad: the local variable cell v was loaded from, if any.
func cellOfLoad(v ssa.Value) *ssa.Alloc {
	ad := eng.LoadAddr(v)
	if ad == nil {
		return nil
	}
	return eng.CellOf(ad)
}

// c01RefusedGainsNothing: "a refused recipient gains nothing" — once a recipient has been put on
// the envelope, the first reply the client sees for that command is not a refusal (4xx/5xx). A
// recipient that is appended and then answered 552 stays on the list, and the DATA that follows
// stores a copy for it. The search starts at each append(recipients); a path ends at the first
// reply, at an envelope reset or at the next command read; a path that leaves the function
// without a reply goes on behind each of its call sites.
func (c *Ctx) c01RefusedGainsNothing(m *smtpModel) {
	p, r := c.P, c.R
	r.Rule("C01/RCPT/refused-gains-nothing", "after append(recipients) the first reply of the command is not a 4xx/5xx refusal (followed through helper returns): a recipient that is refused is not on the envelope")
	n := 0
	ord := map[string]int{}
	for _, fn := range m.fns {
		fn := fn
		eng.EachInstr(fn, func(in ssa.Instruction) {
			st, ok := in.(*ssa.Store)
			if !ok {
				return
			}
			fa, ok := st.Addr.(*ssa.FieldAddr)
			if !ok || !eng.SameField(eng.FieldOfAddr(fa), m.fRecips) {
				return
			}
			call, ok := st.Val.(*ssa.Call)
			if !ok || eng.CalleeName(call.Common()) != "builtin.append" {
				return
			}
			n++
			cons := siteCons(p, in, ord, "append")
			bad := c.firstReplyRefusal(m, st)
			if bad != nil {
				r.Bad("C01/RCPT/refused-gains-nothing", cons, p.InstrPos(st), "the recipient is appended to the envelope here and the command can still be answered with the refusal at %s: the client is told the recipient was not accepted, yet the message data that follows is stored for it", p.InstrPos(bad))
			} else {
				r.Ok("C01/RCPT/refused-gains-nothing", cons, p.InstrPos(st), "no refusal reply is reachable after the append before the command is answered")
			}
		})
	}
	r.Floor("C01/RCPT/refused-gains-nothing", "append(recipients) sites", n, 1)
}

// firstReplyRefusal follows the code after `at` to the first reply the client sees for the
// command: a path ends at the first non-refusal reply, at an envelope reset or at the next input
// read; a path that leaves the function without a reply goes on behind each of its call sites.
// It returns a 4xx/5xx reply that can be the first one, or nil.
func (c *Ctx) firstReplyRefusal(m *smtpModel, at ssa.Instruction) ssa.Instruction {
	p := c.P
	isRefusal := func(x ssa.Instruction) bool {
		if !m.isSend(x) {
			return false
		}
		pre, okp := m.sendPrefix(x)
		cl := replyClass(pre, okp)
		return cl == '4' || cl == '5'
	}
	stops := func(x ssa.Instruction) bool {
		if m.isSend(x) && !isRefusal(x) {
			return true
		}
		if m.isReset(x) {
			return true
		}
		if cl, isCall := x.(*ssa.Call); isCall {
			if g := eng.StaticCallee(cl.Common()); g != nil && (g == m.readLine || g == m.dataRead) {
				return true
			}
		}
		return false
	}
	var bad ssa.Instruction
	seen := map[ssa.Instruction]bool{}
	var from func(at ssa.Instruction, depth int)
	from = func(at ssa.Instruction, depth int) {
		if bad != nil || seen[at] || depth > 3 {
			return
		}
		seen[at] = true
		s1 := &eng.Search{Target: isRefusal, Avoid: stops, Deep: true, DeepHit: true}
		if hit := s1.After(at); hit != nil {
			bad = hit
			return
		}
		s2 := &eng.Search{Target: func(x ssa.Instruction) bool { _, isRet := x.(*ssa.Return); return isRet }, Avoid: stops, Deep: true}
		if s2.After(at) == nil {
			return
		}
		for _, cs := range p.StaticCallSites(at.Parent()) {
			if _, isCall := cs.Instr.(*ssa.Call); isCall {
				from(cs.Instr.(ssa.Instruction), depth+1)
			}
		}
	}
	from(at, 0)
	return bad
}
