package rules

import (
	"fmt"
	"go/constant"
	"go/token"
	"go/types"
	"sort"
	"strings"

	"golang.org/x/tools/go/ssa"

	"ibcheck/eng"
)

func init() { Registry["C05"] = checkC05 }

// ---- a tiny symbolic evaluator for the policy predicates -------------------------------
//
// The predicates are loop-free boolean functions of three atoms. They are executed under a
// truth assignment; calls of module helpers are followed with their parameters bound to
// what the caller passed, so the table does not depend on how the code is split up.

type pdesc struct {
	kind string // "flag" | "list" | "raw" | "lowered" | "const" | "record"
	name string // config field name for flag/list
	b    bool
	// fields of a record value built by a helper (domainRule{verdict: true, exceptions: list}),
	// by field index
	fields map[int]pdesc
}

type penv map[*ssa.Parameter]pdesc

type peval struct {
	assign map[string]bool // "flag:X" / "in:X"
	raw    *ssa.Parameter  // the predicate's domain parameter
	err    string
	steps  int
	// blocks executed so far (to read a record back from the stores on the path taken)
	executed map[*ssa.BasicBlock]bool
}

func (e *peval) desc(v ssa.Value, env penv) pdesc {
	v = eng.StripConv(v)
	if b, ok := eng.ConstBool(v); ok {
		return pdesc{kind: "const", b: b}
	}
	if prm, ok := v.(*ssa.Parameter); ok {
		if d, ok := env[prm]; ok {
			return d
		}
		if prm == e.raw {
			return pdesc{kind: "raw"}
		}
	}
	if f := eng.LoadedField(v); f != nil && f.Pkg() != nil && f.Pkg().Path() == eng.Mod+"/pkg/config" {
		if bt, ok := f.Type().Underlying().(*types.Basic); ok && bt.Kind() == types.Bool {
			return pdesc{kind: "flag", name: f.Name()}
		}
		if _, ok := f.Type().Underlying().(*types.Slice); ok {
			return pdesc{kind: "list", name: f.Name()}
		}
	}
	if call, ok := v.(*ssa.Call); ok && eng.CalleeName(call.Common()) == "strings.ToLower" {
		if d := e.desc(call.Call.Args[0], env); d.kind == "raw" || d.kind == "lowered" {
			return pdesc{kind: "lowered"}
		}
	}
	// a field of a record: r.verdict with r a parameter bound to a record, read directly
	// (ssa.Field) or through the local the parameter was spilled to
	switch x := v.(type) {
	case *ssa.Field:
		if d := e.desc(x.X, env); d.kind == "record" {
			if fd, ok := d.fields[x.Field]; ok {
				return fd
			}
		}
	case *ssa.UnOp:
		if x.Op == token.MUL {
			if fa, ok := x.X.(*ssa.FieldAddr); ok {
				if al, ok := fa.X.(*ssa.Alloc); ok {
					for _, st := range eng.CellStores(al) {
						if d := e.desc(st.Val, env); d.kind == "record" {
							if fd, ok := d.fields[fa.Field]; ok {
								return fd
							}
						}
					}
				}
			}
			// a record local read back as a whole
			if al, ok := x.X.(*ssa.Alloc); ok {
				if _, isStruct := al.Type().(*types.Pointer).Elem().Underlying().(*types.Struct); isStruct {
					if d, ok := e.recordOf(al, env); ok {
						return d
					}
				}
			}
		}
	case *ssa.Call:
		// a module helper that returns a record chosen by the configuration (acceptRule())
		if g := eng.StaticCallee(x.Common()); g != nil && eng.InModule(g) && len(g.Blocks) > 0 && g.Signature.Results().Len() == 1 {
			_, isStruct := g.Signature.Results().At(0).Type().Underlying().(*types.Struct)
			// …or a list chosen by the configuration (the exceptions to the default: RejectDomains
			// when mail is accepted by default, AcceptDomains when it is not)
			_, isList := g.Signature.Results().At(0).Type().Underlying().(*types.Slice)
			if isStruct || isList {
				nenv := penv{}
				for i, prm := range g.Params {
					if i < len(x.Call.Args) {
						nenv[prm] = e.desc(x.Call.Args[i], env)
					}
				}
				if ret, ok := e.exec(g, nenv); ok {
					return e.desc(eng.ReturnResults(ret)[0], nenv)
				}
			}
		}
	}
	return pdesc{kind: "?"}
}

// recordOf describes the record held in the local al from the field stores executed so far.
func (e *peval) recordOf(al *ssa.Alloc, env penv) (pdesc, bool) {
	d := pdesc{kind: "record", fields: map[int]pdesc{}}
	found := false
	for _, ref := range *al.Referrers() {
		fa, ok := ref.(*ssa.FieldAddr)
		if !ok || fa.Referrers() == nil {
			continue
		}
		for _, r2 := range *fa.Referrers() {
			st, ok := r2.(*ssa.Store)
			if !ok || !e.executed[st.Block()] {
				continue
			}
			d.fields[fa.Field] = e.desc(st.Val, env)
			found = true
		}
	}
	return d, found
}

// boolOf evaluates a boolean SSA value; prev is the block control came from (for phis).
func (e *peval) boolOf(v ssa.Value, env penv, prev *ssa.BasicBlock) bool {
	if e.err != "" {
		return false
	}
	switch x := v.(type) {
	case *ssa.UnOp:
		if x.Op == token.NOT {
			return !e.boolOf(x.X, env, prev)
		}
	case *ssa.BinOp:
		if (x.Op == token.NEQ || x.Op == token.EQL) && isBool(x.X.Type()) {
			a, b := e.boolOf(x.X, env, prev), e.boolOf(x.Y, env, prev)
			if x.Op == token.NEQ {
				return a != b
			}
			return a == b
		}
	case *ssa.Phi:
		for i, p := range x.Block().Preds {
			if p == prev {
				return e.boolOf(x.Edges[i], env, prev)
			}
		}
		e.err = "phi without a matching predecessor"
		return false
	case *ssa.Call:
		g := eng.StaticCallee(x.Common())
		if g != nil && g.Name() == "SliceContains" && len(x.Call.Args) == 2 {
			l := e.desc(x.Call.Args[0], env)
			d := e.desc(x.Call.Args[1], env)
			if l.kind != "list" {
				e.err = "membership test over something that is not a configured domain list"
				return false
			}
			if d.kind != "lowered" {
				e.err = "membership test in " + l.name + " does not use the lower-cased domain: mixed-case addresses escape the (lower-cased) list"
				return false
			}
			val, ok := e.assign["in:"+l.name]
			if !ok {
				e.err = "list " + l.name + " is not part of the documented rule for this predicate"
				return false
			}
			return val
		}
		if g != nil && eng.InModule(g) && len(g.Blocks) > 0 && g.Signature.Results().Len() == 1 {
			nenv := penv{}
			for i, prm := range g.Params {
				if i < len(x.Call.Args) {
					nenv[prm] = e.desc(x.Call.Args[i], env)
				}
			}
			return e.run(g, nenv)
		}
	}
	d := e.desc(v, env)
	switch d.kind {
	case "const":
		return d.b
	case "flag":
		val, ok := e.assign["flag:"+d.name]
		if !ok {
			e.err = "flag " + d.name + " is not part of the documented rule for this predicate"
		}
		return val
	}
	e.err = "unrecognised boolean expression " + v.String()
	return false
}

// exec walks fn under the assignment to the return it reaches.
func (e *peval) exec(fn *ssa.Function, env penv) (*ssa.Return, bool) {
	if e.executed == nil {
		e.executed = map[*ssa.BasicBlock]bool{}
	}
	b := fn.Blocks[0]
	var prev *ssa.BasicBlock
	for e.err == "" {
		e.steps++
		if e.steps > 500 {
			e.err = "evaluation did not terminate (loop)"
			return nil, false
		}
		e.executed[b] = true
		switch x := b.Instrs[len(b.Instrs)-1].(type) {
		case *ssa.Return:
			return x, true
		case *ssa.Jump:
			prev, b = b, b.Succs[0]
		case *ssa.If:
			if e.boolOf(x.Cond, env, prev) {
				prev, b = b, b.Succs[0]
			} else {
				prev, b = b, b.Succs[1]
			}
		default:
			e.err = "unexpected terminator"
		}
	}
	return nil, false
}

func (e *peval) run(fn *ssa.Function, env penv) bool {
	if e.executed == nil {
		e.executed = map[*ssa.BasicBlock]bool{}
	}
	b := fn.Blocks[0]
	var prev *ssa.BasicBlock
	for e.err == "" {
		e.steps++
		if e.steps > 500 {
			e.err = "evaluation did not terminate (loop)"
			return false
		}
		e.executed[b] = true
		switch x := b.Instrs[len(b.Instrs)-1].(type) {
		case *ssa.Return:
			return e.boolOf(eng.ReturnResults(x)[0], env, prev)
		case *ssa.Jump:
			prev, b = b, b.Succs[0]
		case *ssa.If:
			if e.boolOf(x.Cond, env, prev) {
				prev, b = b, b.Succs[0]
			} else {
				prev, b = b, b.Succs[1]
			}
		default:
			e.err = "unexpected terminator"
		}
	}
	return false
}

// evalPredicate executes the predicate fn under a truth assignment of its atoms.
func evalPredicate(fn *ssa.Function, assign map[string]bool) (bool, string) {
	e := &peval{assign: assign, raw: fn.Params[len(fn.Params)-1]}
	v := e.run(fn, penv{})
	return v, e.err
}

func checkC05(c *Ctx) {
	r, p := c.R, c.P
	r.Explanation = "Decides the policy plumbing: (D1) every []string field of config.SMTP that pkg/policy reads is passed to the lower-casing helper in config.Process; (D2) each Should*Domain predicate uses its domain parameter only through strings.ToLower; (D3) the accept and store predicates are loop-free over three atoms (default flag, membership in two lists, each membership test applied to the lower-cased domain) and are evaluated exhaustively over all 8 truth assignments against the documented rule; the origin predicate returns false exactly on the edge where MatchWithWildcards(pattern = list element, s = lower-cased domain) is true, true everywhere else; (D4) the only growth of Session.recipients is unreachable from the false edge of ShouldAccept() of the same recipient, the policy call can be bypassed only on the edge extAction != Defer, the append is dominated by len(recipients) < MaxRecipients (strict), and the transition to MAIL is guarded the same way by the origin check; (D5) store eligibility (C01/FLOW/mailboxes)."
	r.NotDecided = []string{"the wildcard matcher's dynamic-programming table (input-quantified arithmetic)", "envconfig parsing of list values", "Unicode case folding beyond strings.ToLower"}
	r.Assumptions = []string{"stringutil.SliceContains is exact membership (checked: loop with == and return true)", "configuration is immutable after config.Process"}
	r.Rule("C05/LOWER/config", "config.SMTP []string fields read in pkg/policy ⊆ fields passed to the lower-casing helper in config.Process")
	r.Rule("C05/LOWER/arg", "in each Should*Domain predicate the domain parameter is used only as the argument of strings.ToLower")
	r.Rule("C05/TABLE/predicates", "exhaustive truth table: accept = DefaultAccept∧¬in(RejectDomains) ∨ ¬DefaultAccept∧in(AcceptDomains); store = DefaultStore∧¬in(DiscardDomains) ∨ ¬DefaultStore∧in(StoreDomains); origin = no element of RejectOriginDomains matches (pattern=element, s=domain)")
	r.Rule("C05/RCPT/guards", "append(recipients) is unreachable from ShouldAccept()==false of the same recipient; the policy call is bypassed only via extAction != Defer; the append is dominated by len(recipients) < MaxRecipients")
	r.Rule("C05/STORE/mailboxes", "Deliver without an extension answer: the destination list is rebuilt from empty; recip.Mailbox is appended only under recip.ShouldStore() true, the decision is taken for every ranged recipient and a positive decision always reaches the append")
	r.Rule("C05/MAIL/guards", "enterState(MAIL) is unreachable from Origin.ShouldAccept()==false; bypass only via extAction != Defer")
	smtpT := p.Named("pkg/config", "SMTP")
	process := p.Func("pkg/config", "Process")
	if smtpT == nil || process == nil {
		return
	}
	c.c05VerdictsIndependent()
	// ---- D1
	policyFns := pkgFuncs(p, "pkg/policy")
	read := map[string]token.Pos{}
	for _, fn := range policyFns {
		eng.EachInstr(fn, func(in ssa.Instruction) {
			fa, ok := in.(*ssa.FieldAddr)
			if !ok {
				return
			}
			f := eng.FieldOfAddr(fa)
			if f == nil || f.Pkg() == nil || f.Pkg().Path() != eng.Mod+"/pkg/config" {
				return
			}
			if sl, ok := f.Type().Underlying().(*types.Slice); ok {
				if b, ok := sl.Elem().Underlying().(*types.Basic); ok && b.Info()&types.IsString != 0 {
					read[f.Name()] = in.Pos()
				}
			}
		})
	}
	lowered := map[string]bool{}
	eng.EachInstr(process, func(in ssa.Instruction) {
		call, ok := in.(*ssa.Call)
		if !ok {
			return
		}
		g := eng.StaticCallee(call.Common())
		if g == nil || !lowersSlice(g) {
			return
		}
		if f := eng.LoadedField(call.Call.Args[0]); f != nil {
			lowered[f.Name()] = true
			return
		}
		// the lists lower-cased one after the other in a loop over a literal collection of them
		// (for _, l := range c.SMTP.domainLists() { SliceToLower(l) }): every list placed in
		// that collection is lower-cased (the slices share their backing arrays with the fields)
		if u, ok := call.Call.Args[0].(*ssa.UnOp); ok && u.Op == token.MUL {
			if ia, ok := u.X.(*ssa.IndexAddr); ok && isRangeCounter(ia.Index) {
				colls := []ssa.Value{ia.X}
				if cc, isCall := ia.X.(*ssa.Call); isCall {
					if rets, hg := eng.ReturnedValues(cc, 0); hg != nil {
						colls = rets
					}
				}
				for _, cv := range colls {
					sl, ok := cv.(*ssa.Slice)
					if !ok {
						continue
					}
					al, ok := sl.X.(*ssa.Alloc)
					if !ok {
						continue
					}
					for _, ref := range *al.Referrers() {
						ea, ok := ref.(*ssa.IndexAddr)
						if !ok || ea.Referrers() == nil {
							continue
						}
						for _, r2 := range *ea.Referrers() {
							if st, ok := r2.(*ssa.Store); ok {
								if f := eng.LoadedField(st.Val); f != nil {
									lowered[f.Name()] = true
								}
							}
						}
					}
				}
			}
		}
	})
	var names []string
	for n := range read {
		names = append(names, n)
	}
	sort.Strings(names)
	for _, n := range names {
		r.Check(lowered[n], "C05/LOWER/config", "config.SMTP."+n, p.Pos(read[n]), "read by pkg/policy and lower-cased in config.Process", "config.SMTP."+n+" is compared with lower-cased domains in pkg/policy but config.Process does not lower-case it: a mixed-case entry from the environment never matches")
	}
	r.Floor("C05/LOWER/config", "string-list config fields read by pkg/policy", len(names), 1)

	// ---- D2 / D3
	addr := p.Named("pkg/policy", "Addressing")
	if addr == nil {
		return
	}
	type table struct {
		method, flag, negList, posList string
	}
	for _, tb := range []table{
		{"ShouldAcceptDomain", "DefaultAccept", "RejectDomains", "AcceptDomains"},
		{"ShouldStoreDomain", "DefaultStore", "DiscardDomains", "StoreDomains"},
	} {
		fn := p.MethodOf(addr, tb.method)
		if fn == nil {
			r.Fatal("UNRESOLVED anchor=policy.Addressing.%s", tb.method)
			continue
		}
		var probs []string
		n := 0
		for mask := 0; mask < 8; mask++ {
			assign := map[string]bool{"flag:" + tb.flag: mask&1 != 0, "in:" + tb.negList: mask&2 != 0, "in:" + tb.posList: mask&4 != 0}
			got, why := evalPredicate(fn, assign)
			if why != "" {
				probs = append(probs, why)
				break
			}
			n++
			d, inNeg, inPos := assign["flag:"+tb.flag], assign["in:"+tb.negList], assign["in:"+tb.posList]
			want := (d && !inNeg) || (!d && inPos)
			if got != want {
				probs = append(probs, fmt.Sprintf("%s=%v in(%s)=%v in(%s)=%v → %v, documented rule says %v", tb.flag, d, tb.negList, inNeg, tb.posList, inPos, got, want))
			}
		}
		cons := "policy." + tb.method
		if len(probs) > 0 {
			undec := false
			for _, pr := range probs {
				if !strings.Contains(pr, "→") {
					undec = true
				}
				if strings.Contains(pr, "does not use the lower-cased domain") {
					r.Bad("C05/LOWER/arg", cons, p.Pos(fn.Pos()), "%s", pr)
					undec = false
				}
			}
			if len(probs) == 1 && strings.Contains(probs[0], "does not use the lower-cased domain") {
				continue
			}
			if undec {
				r.Undecided("C05/TABLE/predicates", cons, p.Pos(fn.Pos()), "predicate is not reducible to the three atoms: %s", strings.Join(probs, "; "))
			} else {
				r.Bad("C05/TABLE/predicates", cons, p.Pos(fn.Pos()), "decision differs from the documented rule for: %s", strings.Join(probs, " | "))
			}
		} else {
			r.Ok("C05/TABLE/predicates", cons, p.Pos(fn.Pos()), "all %d truth assignments agree with %s∧¬in(%s) ∨ ¬%s∧in(%s)", n, tb.flag, tb.negList, tb.flag, tb.posList)
			r.Ok("C05/LOWER/arg", cons, p.Pos(fn.Pos()), "every membership test uses the lower-cased domain")
		}
	}
	// origin predicate
	if fn := p.MethodOf(addr, "ShouldAcceptOriginDomain"); fn != nil {
		dom := fn.Params[len(fn.Params)-1]
		low := c.c05ArgLower(fn, dom)
		var match *ssa.Call
		eng.EachInstr(fn, func(in ssa.Instruction) {
			if call, ok := in.(*ssa.Call); ok {
				if g := eng.StaticCallee(call.Common()); g != nil && g.Name() == "MatchWithWildcards" {
					match = call
				}
			}
		})
		cons := "policy.ShouldAcceptOriginDomain"
		// the loop may sit in a helper that answers "does any pattern of this list match s"
		// (matchesAnyPattern(list, s)); the predicate is then the negation of its answer
		var viaHelper *ssa.Call
		if match == nil {
			eng.EachInstr(fn, func(in ssa.Instruction) {
				hc, ok := in.(*ssa.Call)
				if !ok {
					return
				}
				h := eng.StaticCallee(hc.Common())
				if h == nil || h == fn || len(h.Blocks) == 0 || eng.FuncPkgPath(h) != eng.FuncPkgPath(fn) {
					return
				}
				eng.EachInstr(h, func(hi ssa.Instruction) {
					if call, ok := hi.(*ssa.Call); ok && hi.Parent() == h {
						if g := eng.StaticCallee(call.Common()); g != nil && g.Name() == "MatchWithWildcards" {
							match, viaHelper = call, hc
						}
					}
				})
			})
		}
		// the loop may be the library's: slices.ContainsFunc(list, func(pattern) bool { return
		// MatchWithWildcards(pattern, lowered) }), the predicate returning the negation
		handledOrigin := false
		if match == nil {
			if why, site, found := c.c05OriginContainsFunc(fn, low); found {
				if why != "" {
					r.Bad("C05/TABLE/predicates", cons, site, "%s", why)
				} else {
					r.Ok("C05/TABLE/predicates", cons, site, "refuses exactly when slices.ContainsFunc finds an element of RejectOriginDomains that MatchWithWildcards(element, lower(domain)) accepts")
				}
				handledOrigin = true
			}
		}
		switch {
		case handledOrigin:
		case match == nil:
			r.Bad("C05/TABLE/predicates", cons, p.Pos(fn.Pos()), "no wildcard match against RejectOriginDomains")
		case viaHelper != nil:
			h := match.Parent()
			var probs []string
			// in the helper: pattern = element of a slice parameter, subject = a string parameter
			var listPrm, subjPrm *ssa.Parameter
			if u, ok := match.Call.Args[0].(*ssa.UnOp); ok {
				if ia, ok := u.X.(*ssa.IndexAddr); ok {
					listPrm, _ = ia.X.(*ssa.Parameter)
				}
			}
			subjPrm, _ = match.Call.Args[1].(*ssa.Parameter)
			li, si := -1, -1
			if listPrm != nil && subjPrm != nil {
				li, si = eng.ParamIndex(listPrm), eng.ParamIndex(subjPrm)
			}
			if listPrm == nil || subjPrm == nil || listPrm.Parent() != h || subjPrm.Parent() != h || li < 0 || si < 0 || li >= len(viaHelper.Call.Args) || si >= len(viaHelper.Call.Args) {
				probs = append(probs, "in "+shortFn(h)+" MatchWithWildcards is not called with (element of the list parameter, the subject parameter): pattern and subject are swapped or something else is matched")
			} else {
				if f := eng.LoadedField(viaHelper.Call.Args[li]); f == nil || f.Name() != "RejectOriginDomains" {
					probs = append(probs, "the list handed to "+shortFn(h)+" is not RejectOriginDomains")
				}
				if low == nil || viaHelper.Call.Args[si] != ssa.Value(low) {
					probs = append(probs, "the subject handed to "+shortFn(h)+" is not the lower-cased domain")
				}
			}
			// the helper answers true exactly under a match
			var tEdge *ssa.BasicBlock
			for _, b := range h.Blocks {
				for k := 0; k < len(b.Succs) && len(b.Succs) == 2; k++ {
					if v, pol, ok := eng.CondTruth(b, k); ok && v == ssa.Value(match) && pol {
						tEdge = b.Succs[k]
					}
				}
			}
			if tEdge == nil {
				probs = append(probs, "the match result is not branched on in "+shortFn(h))
			} else {
				eng.EachInstr(h, func(in ssa.Instruction) {
					ret, ok := in.(*ssa.Return)
					if !ok || len(eng.ReturnResults(ret)) != 1 {
						return
					}
					v, isC := eng.ConstBool(eng.ReturnResults(ret)[0])
					under := tEdge.Dominates(ret.Block())
					if !isC {
						probs = append(probs, "non-constant return at "+p.InstrPos(ret))
					} else if under && !v {
						probs = append(probs, shortFn(h)+" answers false at "+p.InstrPos(ret)+" although a pattern matched")
					} else if !under && v {
						probs = append(probs, shortFn(h)+" answers true at "+p.InstrPos(ret)+" although no pattern matched")
					}
				})
			}
			// the predicate returns the negation of the answer
			eng.EachInstr(fn, func(in ssa.Instruction) {
				ret, ok := in.(*ssa.Return)
				if !ok || len(eng.ReturnResults(ret)) != 1 {
					return
				}
				rv := eng.ReturnResults(ret)[0]
				if u, ok := rv.(*ssa.UnOp); ok && u.Op == token.NOT && u.X == ssa.Value(viaHelper) {
					return
				}
				if v, isC := eng.ConstBool(rv); isC {
					if kv, known := eng.KnownBool(viaHelper, ret.Block()); known && kv != v {
						return
					}
				}
				probs = append(probs, "return at "+p.InstrPos(ret)+" is not the negation of "+shortFn(h)+"'s answer")
			})
			if len(probs) > 0 {
				r.Bad("C05/TABLE/predicates", cons, p.InstrPos(match), "%s", strings.Join(probs, "; "))
			} else {
				r.Ok("C05/TABLE/predicates", cons, p.InstrPos(match), "refuses exactly when %s(RejectOriginDomains, lower(domain)) finds a matching element", shortFn(h))
			}
		default:
			var probs []string
			// pattern = element of RejectOriginDomains, s = lowered domain
			patOK := false
			if u, ok := match.Call.Args[0].(*ssa.UnOp); ok {
				if ia, ok := u.X.(*ssa.IndexAddr); ok {
					if f := eng.LoadedField(ia.X); f != nil && f.Name() == "RejectOriginDomains" {
						patOK = true
					}
				}
			}
			if !patOK {
				probs = append(probs, "first argument (pattern) of MatchWithWildcards is not an element of RejectOriginDomains")
			}
			if low == nil || match.Call.Args[1] != ssa.Value(low) {
				probs = append(probs, "second argument (subject) of MatchWithWildcards is not the lower-cased domain: pattern and subject are swapped or the case is not folded")
			}
			// returns
			var tEdge *ssa.BasicBlock
			for _, b := range fn.Blocks {
				for k := 0; k < len(b.Succs) && len(b.Succs) == 2; k++ {
					v, pol, ok := eng.CondTruth(b, k)
					if ok && v == ssa.Value(match) && pol {
						tEdge = b.Succs[k]
					}
				}
			}
			if tEdge == nil {
				probs = append(probs, "the match result is not branched on")
			} else {
				eng.EachInstr(fn, func(in ssa.Instruction) {
					ret, ok := in.(*ssa.Return)
					if !ok {
						return
					}
					v, isC := eng.ConstBool(eng.ReturnResults(ret)[0])
					under := tEdge.Dominates(ret.Block())
					if !isC {
						probs = append(probs, "non-constant return at "+p.InstrPos(ret))
					} else if under && v {
						probs = append(probs, "returns true (accept) at "+p.InstrPos(ret)+" although a reject-origin pattern matched")
					} else if !under && !v {
						probs = append(probs, "returns false (refuse) at "+p.InstrPos(ret)+" although no pattern matched")
					}
				})
			}
			if len(probs) > 0 {
				r.Bad("C05/TABLE/predicates", cons, p.InstrPos(match), "%s", strings.Join(probs, "; "))
			} else {
				r.Ok("C05/TABLE/predicates", cons, p.InstrPos(match), "refuses exactly when MatchWithWildcards(element, lower(domain)) is true for some element")
			}
		}
	}
	c.c05SliceContains()
	c.c05Guards()
	// D5: the store decision per recipient (same analysis as C01/FLOW/mailboxes)
	deliver := p.Method("pkg/message", "StoreManager", "Deliver")
	fMailboxes := p.Field("pkg/extension/event", "InboundMessage", "Mailboxes")
	fRecipMb := p.Field("pkg/policy", "Recipient", "Mailbox")
	shouldStore := p.Method("pkg/policy", "Recipient", "ShouldStore")
	if deliver != nil && fMailboxes != nil && fRecipMb != nil && shouldStore != nil {
		c.c01MailboxesAs("C05/STORE/mailboxes", deliver, fMailboxes, fRecipMb, shouldStore)
	}
}

// lowersSlice: g stores strings.ToLower(elem) back into the elements of its slice parameter.
func lowersSlice(g *ssa.Function) bool {
	if len(g.Params) != 1 {
		return false
	}
	ok := false
	eng.EachInstr(g, func(in ssa.Instruction) {
		st, isSt := in.(*ssa.Store)
		if !isSt {
			return
		}
		ia, isIA := st.Addr.(*ssa.IndexAddr)
		if !isIA || ia.X != ssa.Value(g.Params[0]) {
			return
		}
		if call, isC := st.Val.(*ssa.Call); isC && eng.CalleeName(call.Common()) == "strings.ToLower" {
			ok = true
		}
	})
	return ok
}

// c05ArgLower checks D2 for one predicate and returns the lowered value.
func (c *Ctx) c05ArgLower(fn *ssa.Function, dom *ssa.Parameter) *ssa.Call {
	r, p := c.R, c.P
	var low *ssa.Call
	var other []string
	if dom.Referrers() != nil {
		for _, ref := range *dom.Referrers() {
			switch x := ref.(type) {
			case *ssa.Call:
				if eng.CalleeName(x.Common()) == "strings.ToLower" {
					low = x
				} else {
					other = append(other, eng.CalleeName(x.Common())+" at "+p.InstrPos(x))
				}
			case *ssa.DebugRef:
			default:
				other = append(other, fmt.Sprintf("%T at %s", ref, p.InstrPos(ref)))
			}
		}
	}
	cons := "policy." + fn.Name()
	// `domain = strings.ToLower(domain)` with the variable captured by a closure: the parameter
	// lives in a cell; the raw value may be read only to be lower-cased, and the lowered value
	// must be back in the cell before anything else reads it or a closure is made over it
	if low == nil && len(other) == 1 && dom.Referrers() != nil {
		for _, ref := range *dom.Referrers() {
			st, ok := ref.(*ssa.Store)
			if !ok {
				continue
			}
			cell, ok := st.Addr.(*ssa.Alloc)
			if !ok {
				continue
			}
			var lowSt *ssa.Store
			bad := ""
			for _, cr := range *cell.Referrers() {
				if s2, ok := cr.(*ssa.Store); ok && s2 != st && s2.Addr == ssa.Value(cell) {
					if lc, ok := s2.Val.(*ssa.Call); ok && eng.CalleeName(lc.Common()) == "strings.ToLower" {
						if ld, ok := lc.Call.Args[0].(*ssa.UnOp); ok && ld.X == ssa.Value(cell) {
							lowSt, low = s2, lc
							continue
						}
					}
					bad = "the domain variable is assigned something other than its lower-cased value at " + p.InstrPos(s2)
				}
			}
			if lowSt == nil {
				break
			}
			for _, cr := range *cell.Referrers() {
				switch y := cr.(type) {
				case *ssa.UnOp:
					if y == low.Call.Args[0] {
						continue
					}
					if !eng.Dominates(lowSt, y) {
						bad = "the raw domain is read at " + p.InstrPos(y) + " before it is lower-cased"
					}
				case *ssa.MakeClosure:
					if !eng.Dominates(lowSt, y) {
						bad = "a closure is made over the domain variable at " + p.InstrPos(y) + " before it is lower-cased"
					}
				}
			}
			if bad != "" {
				r.Bad("C05/LOWER/arg", cons, p.Pos(fn.Pos()), "%s", bad)
			} else {
				r.Ok("C05/LOWER/arg", cons, p.InstrPos(low), "domain is replaced by strings.ToLower(domain) before any other use")
			}
			return low
		}
	}
	switch {
	case low == nil:
		r.Bad("C05/LOWER/arg", cons, p.Pos(fn.Pos()), "the domain parameter is never lower-cased: mixed-case addresses escape the (lower-cased) lists")
	case len(other) > 0:
		r.Bad("C05/LOWER/arg", cons, p.Pos(fn.Pos()), "the raw domain parameter is also used by %s", strings.Join(other, "; "))
	default:
		r.Ok("C05/LOWER/arg", cons, p.InstrPos(low), "domain is used only through strings.ToLower")
	}
	return low
}

// c05SliceContains confirms the membership helper is exact.
func (c *Ctx) c05SliceContains() {
	r, p := c.R, c.P
	fn := p.Func("pkg/stringutil", "SliceContains")
	if fn == nil {
		return
	}
	// shape: loop; if elem == s return true; return false
	okEq := false
	bad := ""
	eng.EachInstr(fn, func(in ssa.Instruction) {
		ret, ok := in.(*ssa.Return)
		if !ok {
			return
		}
		v, isC := eng.ConstBool(eng.ReturnResults(ret)[0])
		if !isC {
			bad = "non-constant return"
			return
		}
		// true return must be dominated by elem == param edge
		under := false
		for _, b := range fn.Blocks {
			for k := 0; k < len(b.Succs) && len(b.Succs) == 2; k++ {
				rel, ok := eng.EdgeRel(b, k)
				if ok && rel.Op == token.EQL && (rel.X == ssa.Value(fn.Params[1]) || rel.Y == ssa.Value(fn.Params[1])) && eng.EdgeDominates(b, k, ret.Block()) {
					under = true
				}
			}
		}
		if v && under {
			okEq = true
		}
		if v && !under {
			bad = "returns true without an equality test"
		}
		if !v && under {
			bad = "returns false under the equality test"
		}
	})
	r.Check(okEq && bad == "", "C05/TABLE/predicates", "stringutil.SliceContains", p.Pos(fn.Pos()), "exact membership: true iff some element == s", "SliceContains is not exact membership ("+bad+"): the predicates' atoms lose their meaning")
}

// actionConst returns the value of an event.Action* constant.
func (c *Ctx) actionConst(name string) (int64, bool) {
	o := c.P.Obj("pkg/extension/event", name)
	k, ok := o.(*types.Const)
	if !ok {
		return 0, false
	}
	v, ok2 := constant.Int64Val(k.Val())
	return v, ok2
}

// notDeferEdge: on edge (b,k) the extension action is known to differ from Defer.
func notDeferEdge(b *ssa.BasicBlock, k int, deferV int64) bool {
	rel, ok := eng.EdgeRel(b, k)
	if !ok || rel.Op != token.NEQ {
		return false
	}
	kk, isC := eng.ConstInt(rel.Y)
	if !isC || kk != deferV {
		return false
	}
	return isExtAction(rel.X)
}

// isExtAction: v = φ(Defer, load SMTPResponse.Action) — the effective extension action.
func isExtAction(v ssa.Value) bool {
	ph, ok := v.(*ssa.Phi)
	if !ok {
		return false
	}
	hasLoad := false
	for _, e := range ph.Edges {
		if f := eng.LoadedField(e); f != nil && f.Name() == "Action" {
			hasLoad = true
		}
	}
	return hasLoad
}

func (c *Ctx) c05Guards() {
	r, p := c.R, c.P
	m := c.smtp()
	if !m.ok {
		return
	}
	deferV, ok := c.actionConst("ActionDefer")
	if !ok {
		r.Fatal("UNRESOLVED anchor=event.ActionDefer")
		return
	}
	recipAccept := p.Method("pkg/policy", "Recipient", "ShouldAccept")
	originAccept := p.Method("pkg/policy", "Origin", "ShouldAccept")
	if recipAccept == nil || originAccept == nil {
		return
	}
	// RCPT
	var appends []*ssa.Store
	for _, fn := range m.fns {
		eng.EachInstr(fn, func(in ssa.Instruction) {
			st, ok := in.(*ssa.Store)
			if !ok {
				return
			}
			fa, ok := st.Addr.(*ssa.FieldAddr)
			if !ok || !eng.SameField(eng.FieldOfAddr(fa), m.fRecips) {
				return
			}
			if call, ok := st.Val.(*ssa.Call); ok && eng.CalleeName(call.Common()) == "builtin.append" {
				appends = append(appends, st)
			}
		})
	}
	r.Floor("C05/RCPT/guards", "append(recipients) sites", len(appends), 1)
	for _, st := range appends {
		fn := st.Parent()
		cons := "append@" + shortFn(fn)
		ap := st.Val.(*ssa.Call)
		// appended recipient value
		var recip ssa.Value
		if sl, ok := ap.Call.Args[1].(*ssa.Slice); ok {
			if al, ok := sl.X.(*ssa.Alloc); ok {
				for _, ref := range *al.Referrers() {
					if ia, ok := ref.(*ssa.IndexAddr); ok {
						for _, r2 := range *ia.Referrers() {
							if s2, ok := r2.(*ssa.Store); ok {
								recip = s2.Val
							}
						}
					}
				}
			}
		}
		c.policyGuard("C05/RCPT/guards", cons, fn, st, recipAccept, recip, deferV)
		// MaxRecipients
		okMax, why := false, "no dominating comparison of len(recipients) with config.SMTP.MaxRecipients"
		for _, b := range fn.Blocks {
			for k := 0; k < len(b.Succs) && len(b.Succs) == 2; k++ {
				rel, ok := eng.EdgeRel(b, k)
				if !ok || !eng.EdgeDominates(b, k, st.Block()) {
					continue
				}
				if loadsField(rel.X, m.fMaxRecips) {
					rel = rel.Swap()
				}
				lx := eng.LenOf(rel.X)
				if lx == nil || !eng.SameField(eng.LoadedField(lx), m.fRecips) || !loadsField(rel.Y, m.fMaxRecips) {
					continue
				}
				if rel.Op == token.LSS {
					okMax = true
				} else {
					why = "the append is allowed while len(recipients) " + rel.Op.String() + " MaxRecipients; only `<` keeps a transaction at or below the maximum"
				}
			}
		}
		r.Check(okMax, "C05/RCPT/guards", cons+":max", p.InstrPos(st), "append is dominated by len(recipients) < MaxRecipients", why)
	}
	// MAIL
	nMail := 0
	for _, fn := range m.fns {
		fn := fn
		eng.EachInstr(fn, func(in ssa.Instruction) {
			if !m.entersState("MAIL")(in) {
				return
			}
			nMail++
			c.policyGuard("C05/MAIL/guards", "enter-MAIL@"+shortFn(fn), fn, in, originAccept, nil, deferV)
		})
	}
	r.Floor("C05/MAIL/guards", "enterState(MAIL) sites", nMail, 1)
}

// policyGuard: target is unreachable from the false edge of policyFn(...), and every path
// from entry to target that avoids the policy call passes an extAction != Defer edge.
func (c *Ctx) policyGuard(rule, cons string, fn *ssa.Function, target ssa.Instruction, policyFn *ssa.Function, subject ssa.Value, deferV int64) {
	r, p := c.R, c.P
	isTarget := func(in ssa.Instruction) bool { return in == target }
	var pcall *ssa.Call
	eng.EachInstr(fn, func(in ssa.Instruction) {
		if call, ok := in.(*ssa.Call); ok && eng.StaticCallee(call.Common()) == policyFn {
			pcall = call
		}
	})
	if pcall == nil {
		r.Bad(rule, cons, p.InstrPos(target), "%s is never consulted before this point: the domain policy is not applied", shortFn(policyFn))
		return
	}
	if subject != nil && pcall.Call.Args[0] != subject {
		r.Bad(rule, cons, p.InstrPos(pcall), "the policy is evaluated for a different recipient than the one appended")
		return
	}
	var falseEdge *ssa.BasicBlock
	for _, b := range fn.Blocks {
		for k := 0; k < len(b.Succs) && len(b.Succs) == 2; k++ {
			v, pol, ok := eng.CondTruth(b, k)
			if ok && v == ssa.Value(pcall) && !pol {
				falseEdge = b.Succs[k]
			}
		}
	}
	if falseEdge == nil {
		r.Bad(rule, cons, p.InstrPos(pcall), "the result of %s is not branched on", shortFn(policyFn))
		return
	}
	if hit := eng.BlockReaches(falseEdge, isTarget, nil); hit != nil {
		r.Bad(rule, cons, p.InstrPos(pcall), "the accepting step at %s is reachable although %s returned false", p.InstrPos(target), shortFn(policyFn))
		return
	}
	isP := func(in ssa.Instruction) bool { return in == ssa.Instruction(pcall) }
	// the policy may be bypassed only when a hook answered Allow: case analysis over the
	// hook's answer (no hook in this function counts as "no answer")
	emits := hookEmits(fn)
	if len(emits) == 0 {
		if hit := (&eng.Search{Target: isTarget, Avoid: isP}).FromEntry(fn); hit != nil {
			r.Bad(rule, cons, p.InstrPos(pcall), "the accepting step can be reached without consulting %s", shortFn(policyFn))
			return
		}
	}
	for _, emit := range emits {
		he := c.newHookEval(fn, emit)
		for _, hc := range []hookCase{hcNil, hcDefer} {
			if hit := (&eng.Search{Target: isTarget, Avoid: isP, Edge: he.feasible(hc)}).FromEntry(fn); hit != nil {
				r.Bad(rule, cons, p.InstrPos(pcall), "the accepting step can be reached without consulting %s and without the extension having answered Allow (hook answer: %s)", shortFn(policyFn), hc)
				return
			}
		}
	}
	_ = deferV
	r.Ok(rule, cons, p.InstrPos(pcall), "unreachable from %s()==false; the policy call is bypassed only when extAction != Defer", shortFn(policyFn))
}

// c05OriginContainsFunc: the origin predicate written with the library's search:
// rejected := slices.ContainsFunc(RejectOriginDomains, func(pattern string) bool { return
// MatchWithWildcards(pattern, lowered) }); return !rejected.
func (c *Ctx) c05OriginContainsFunc(fn *ssa.Function, low *ssa.Call) (why string, site string, found bool) {
	p := c.P
	var cf *ssa.Call
	eng.EachInstr(fn, func(in ssa.Instruction) {
		if call, ok := in.(*ssa.Call); ok && strings.HasPrefix(eng.CalleeName(call.Common()), "slices.ContainsFunc") && len(call.Call.Args) == 2 {
			cf = call
		}
	})
	if cf == nil {
		return "", "", false
	}
	site = p.InstrPos(cf)
	cl, _, isFn := eng.FuncValueOf(cf.Call.Args[1])
	if !isFn || cl == nil || len(cl.Blocks) == 0 || len(cl.Params) != 1 {
		return "the function handed to slices.ContainsFunc cannot be examined", site, true
	}
	var probs []string
	if f := eng.LoadedField(cf.Call.Args[0]); f == nil || f.Name() != "RejectOriginDomains" {
		probs = append(probs, "the list searched is not RejectOriginDomains")
	}
	var match *ssa.Call
	eng.EachInstr(cl, func(in ssa.Instruction) {
		if call, ok := in.(*ssa.Call); ok {
			if g := eng.StaticCallee(call.Common()); g != nil && g.Name() == "MatchWithWildcards" {
				match = call
			}
		}
	})
	if match == nil {
		return "no wildcard match against RejectOriginDomains", site, true
	}
	if match.Call.Args[0] != ssa.Value(cl.Params[0]) {
		probs = append(probs, "first argument (pattern) of MatchWithWildcards is not the list element handed to the callback: pattern and subject are swapped")
	}
	// subject: the lowered domain — the ToLower result itself, or the domain variable's cell
	// read through the closure (the cell holds the lowered value by then: C05/LOWER/arg)
	subjOK := false
	if low != nil {
		sv := match.Call.Args[1]
		if sv == ssa.Value(low) {
			subjOK = true
		}
		if u, ok := sv.(*ssa.UnOp); ok {
			if fv, ok := u.X.(*ssa.FreeVar); ok {
				if mc, ok := cf.Call.Args[1].(*ssa.MakeClosure); ok {
					for i, b := range mc.Bindings {
						if i < len(cl.FreeVars) && cl.FreeVars[i] == fv {
							if ld, ok := low.Call.Args[0].(*ssa.UnOp); ok && ld.X == b {
								subjOK = true
							}
						}
					}
				}
			}
		}
		// the lowered value captured by value
		if fv, ok := sv.(*ssa.FreeVar); ok {
			if mc, ok := cf.Call.Args[1].(*ssa.MakeClosure); ok {
				for i, b := range mc.Bindings {
					if i < len(cl.FreeVars) && cl.FreeVars[i] == fv && b == ssa.Value(low) {
						subjOK = true
					}
				}
			}
		}
	}
	if !subjOK {
		probs = append(probs, "second argument (subject) of MatchWithWildcards is not the lower-cased domain: pattern and subject are swapped or the case is not folded")
	}
	// the callback answers with the match result
	eng.EachInstr(cl, func(in ssa.Instruction) {
		ret, ok := in.(*ssa.Return)
		if !ok {
			return
		}
		if res := eng.ReturnResults(ret); len(res) != 1 || res[0] != ssa.Value(match) {
			probs = append(probs, "the callback does not answer with the match result at "+p.InstrPos(ret))
		}
	})
	// the predicate answers with the negation of the search
	eng.EachInstr(fn, func(in ssa.Instruction) {
		ret, ok := in.(*ssa.Return)
		if !ok || len(eng.ReturnResults(ret)) != 1 {
			return
		}
		rv := eng.ReturnResults(ret)[0]
		if u, ok := rv.(*ssa.UnOp); ok && u.Op == token.NOT && u.X == ssa.Value(cf) {
			return
		}
		if v, isC := eng.ConstBool(rv); isC {
			if kv, known := eng.KnownBool(cf, ret.Block()); known && kv != v {
				return
			}
		}
		probs = append(probs, "return at "+p.InstrPos(ret)+" is not the negation of the search's answer")
	})
	return strings.Join(probs, "; "), site, true
}

// c05VerdictsIndependent: "accept" and "store" are two questions with two answers. The two
// verdict methods of a recipient share no mutable state: a field of Recipient that is written
// after construction (or whose address is handed to a function) is touched by at most one of
// them. A memo that both reach makes whichever question is asked first answer the other too — a
// recipient accepted at RCPT is then stored although its domain is on the discard list.
func (c *Ctx) c05VerdictsIndependent() {
	p, r := c.P, c.R
	rule := "C05/RECIPIENT/verdicts-independent"
	r.Rule(rule, "Recipient.ShouldAccept and Recipient.ShouldStore touch no common field of Recipient that is written outside the constructor or whose address is passed to a call")
	rt := p.Named("pkg/policy", "Recipient")
	acc := p.Method("pkg/policy", "Recipient", "ShouldAccept")
	sto := p.Method("pkg/policy", "Recipient", "ShouldStore")
	ctor := p.Method("pkg/policy", "Addressing", "NewRecipient")
	if rt == nil || acc == nil || sto == nil {
		return
	}
	isRecipPtr := func(t types.Type) bool {
		pt, ok := t.Underlying().(*types.Pointer)
		return ok && types.Identical(pt.Elem(), rt)
	}
	mutable := map[int]string{}
	for _, fn := range pkgFuncs(p, "pkg/policy") {
		if fn == ctor {
			continue
		}
		eng.EachInstr(fn, func(in ssa.Instruction) {
			fa, ok := in.(*ssa.FieldAddr)
			if !ok || !isRecipPtr(fa.X.Type()) || fa.Referrers() == nil {
				return
			}
			for _, ref := range *fa.Referrers() {
				switch x := ref.(type) {
				case *ssa.Store:
					if x.Addr == ssa.Value(fa) {
						mutable[fa.Field] = p.InstrPos(x)
					}
				case ssa.CallInstruction:
					for _, a := range x.Common().Args {
						if a == ssa.Value(fa) {
							mutable[fa.Field] = p.InstrPos(x.(ssa.Instruction))
						}
					}
				}
			}
		})
	}
	touched := func(fn *ssa.Function) map[int]bool {
		out := map[int]bool{}
		for g := range p.SyncReach(fn) {
			if eng.FuncPkgPath(g) != eng.Mod+"/pkg/policy" {
				continue
			}
			eng.EachInstr(g, func(in ssa.Instruction) {
				if fa, ok := in.(*ssa.FieldAddr); ok && isRecipPtr(fa.X.Type()) {
					out[fa.Field] = true
				}
			})
		}
		return out
	}
	ta, ts := touched(acc), touched(sto)
	st := rt.Underlying().(*types.Struct)
	var shared []string
	for i := 0; i < st.NumFields(); i++ {
		if ta[i] && ts[i] {
			if at, isMut := mutable[i]; isMut {
				shared = append(shared, st.Field(i).Name()+" (written at "+at+")")
			}
		}
	}
	if len(shared) > 0 {
		r.Bad(rule, "Recipient", p.Pos(acc.Pos()), "ShouldAccept and ShouldStore both work on the mutable field(s) %s: the first of the two questions asked for a recipient fixes the answer to the other — with a discard list (or default-store off) a recipient that was accepted at RCPT is stored although it must not be, or the other way round", strings.Join(shared, ", "))
	} else {
		r.Ok(rule, "Recipient", p.Pos(acc.Pos()), "the two verdict methods share no field that changes after construction")
	}
}
