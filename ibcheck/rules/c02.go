package rules

import (
	"fmt"
	"go/token"
	"go/types"
	"sort"
	"strings"

	"golang.org/x/tools/go/ssa"

	"ibcheck/eng"
)

func init() { Registry["C02"] = checkC02 }

// byteTracer follows a []byte / io.Reader value backwards through the transformer tables.
type byteTracer struct {
	c *Ctx
	// pass-through: callee → index of the argument that carries the bytes
	pass map[string]int
	// sources: callee names that produce the bytes being tracked
	source map[string]bool
	lossy  map[string]bool
	// needsGate: transformers acceptable only together with an over-limit rejection (C06)
	gated []string
	// noRecords: a field load is an origin of its own (the read side asks which field)
	noRecords bool
}

func newByteTracer(c *Ctx) *byteTracer {
	return &byteTracer{c: c,
		pass: map[string]int{
			"bytes.NewBuffer": 0, "(*bytes.Buffer).Bytes": 0, "bytes.NewReader": 0, "io.ReadAll": 0,
			"io.NopCloser": 0, "bufio.NewReader": 0, "io.LimitReader": 0, "bytes.NewBufferString": 0,
			"strings.NewReader": 0, "(*bufio.Reader).Reset": 1,
		},
		source: map[string]bool{
			"(*net/textproto.Reader).ReadDotBytes": true, "(*net/textproto.Reader).DotReader": true,
		},
		lossy: map[string]bool{
			"bytes.TrimSpace": true, "bytes.Trim": true, "bytes.TrimRight": true, "bytes.TrimLeft": true, "bytes.TrimSuffix": true, "bytes.TrimPrefix": true,
			"bytes.Replace": true, "bytes.ReplaceAll": true, "bytes.ToLower": true, "bytes.ToUpper": true, "bytes.Fields": true, "bytes.Split": true,
			"strings.TrimSpace": true, "strings.Trim": true, "strings.TrimRight": true, "strings.ReplaceAll": true, "strings.Replace": true,
			"io.CopyN": true, "(*bufio.Reader).ReadLine": true, "bytes.Map": true, "bytes.ToValidUTF8": true,
		},
	}
}

type origin struct {
	kind string // source | param | lossy | unknown | msgsource | field
	what string
	val  ssa.Value
}

// trace returns the terminal origins of v.
func (t *byteTracer) trace(v ssa.Value, depth int, seen map[ssa.Value]bool) []origin {
	if depth > 16 || seen[v] {
		return nil
	}
	seen[v] = true
	p := t.c.P
	switch x := v.(type) {
	case *ssa.Parameter:
		if a := p.Actual(x); a != ssa.Value(x) {
			return t.trace(a, depth+1, seen)
		}
		return []origin{{"param", x.Name(), x}}
	case *ssa.Const:
		return []origin{{"const", "", x}}
	case *ssa.ChangeInterface:
		return t.trace(x.X, depth+1, seen)
	case *ssa.MakeInterface:
		return t.trace(x.X, depth+1, seen)
	case *ssa.ChangeType:
		return t.trace(x.X, depth+1, seen)
	case *ssa.Convert:
		return t.trace(x.X, depth+1, seen)
	case *ssa.Phi:
		var out []origin
		for _, e := range x.Edges {
			out = append(out, t.trace(e, depth+1, seen)...)
		}
		return out
	case *ssa.Slice:
		if x.Low == nil && x.High == nil {
			return t.trace(x.X, depth+1, seen)
		}
		return []origin{{"lossy", "slice expression at " + p.InstrPos(x), x}}
	case *ssa.Extract:
		call, ok := x.Tuple.(*ssa.Call)
		if !ok {
			return []origin{{"unknown", x.String(), x}}
		}
		return t.traceCall(call, x.Index, depth, seen)
	case *ssa.Call:
		return t.traceCall(x, 0, depth, seen)
	case *ssa.UnOp:
		if x.Op == token.MUL {
			if f := eng.AddrField(x.X); f != nil {
				// a field of a per-call record that is set exactly once in its package
				// (delivery{source: source}): what was put there
				if sv, ok := recordField(p, x); ok && !t.noRecords {
					return t.trace(sv, depth+1, seen)
				}
				return []origin{{"field", f.Name(), x}}
			}
			if cell := eng.CellOf(x.X); cell != nil && !eng.CellEscapes(cell) {
				var out []origin
				for _, st := range eng.CellStores(cell) {
					out = append(out, t.trace(st.Val, depth+1, seen)...)
				}
				return out
			}
		}
	case *ssa.Alloc:
		// &io.LimitedReader{R: r, N: n}: the reader form of io.LimitReader
		if isNamedPtr(x.Type(), "io", "LimitedReader") && x.Referrers() != nil {
			var out []origin
			for _, ref := range *x.Referrers() {
				fa, ok := ref.(*ssa.FieldAddr)
				if !ok || eng.FieldOfAddr(fa) == nil || eng.FieldOfAddr(fa).Name() != "R" {
					continue
				}
				for _, r2 := range *fa.Referrers() {
					if st, ok := r2.(*ssa.Store); ok && st.Addr == ssa.Value(fa) {
						t.gated = append(t.gated, p.InstrPos(st))
						out = append(out, t.trace(st.Val, depth+1, seen)...)
					}
				}
			}
			if len(out) > 0 {
				return out
			}
		}
		if isNamedPtr(x.Type(), "bytes", "Buffer") {
			return t.bufferContent(x, depth, seen)
		}
		return []origin{{"alloc", "", x}}
	case *ssa.TypeAssert:
		// a buffer taken from a sync.Pool
		if isNamedPtr(x.AssertedType, "bytes", "Buffer") {
			if call, ok := x.X.(*ssa.Call); ok && eng.CalleeName(call.Common()) == "(*sync.Pool).Get" {
				return t.bufferContent(x, depth, seen)
			}
		}
	}
	return []origin{{"unknown", fmt.Sprintf("%T %s at %s", v, v.String(), valuePos(p, v)), v}}
}

func isNamedPtr(t types.Type, pkg, name string) bool {
	pt, ok := t.(*types.Pointer)
	if !ok {
		return false
	}
	n, ok := pt.Elem().(*types.Named)
	return ok && n.Obj().Pkg() != nil && n.Obj().Pkg().Path() == pkg && n.Obj().Name() == name
}

// bufferContent: the bytes a *bytes.Buffer value holds are what was fed into it. A buffer
// that is handed (back) to a sync.Pool in the same function is shared: bytes that alias it
// (Buffer.Bytes()) are overwritten by whoever draws the buffer next.
func (t *byteTracer) bufferContent(b ssa.Value, depth int, seen map[ssa.Value]bool) []origin {
	p := t.c.P
	var out []origin
	if b.Referrers() == nil {
		return []origin{{"unknown", "buffer never filled", b}}
	}
	fed := 0
	refs := append([]ssa.Instruction(nil), *b.Referrers()...)
	for _, ref := range *b.Referrers() {
		if mi, ok := ref.(*ssa.MakeInterface); ok && mi.Referrers() != nil {
			refs = append(refs, *mi.Referrers()...)
		}
	}
	for _, ref := range refs {
		var cc *ssa.CallCommon
		switch x := ref.(type) {
		case *ssa.Call:
			cc = x.Common()
		case *ssa.Defer:
			cc = x.Common()
		default:
			continue
		}
		name := eng.CalleeName(cc)
		switch name {
		case "(*bytes.Buffer).ReadFrom", "(*bytes.Buffer).Write", "(*bytes.Buffer).WriteString":
			if len(cc.Args) == 2 && cc.Args[0] == b {
				fed++
				out = append(out, t.trace(cc.Args[1], depth+1, seen)...)
			}
		case "io.Copy":
			if len(cc.Args) == 2 && eng.Unwrap(cc.Args[0]) == b {
				fed++
				out = append(out, t.trace(cc.Args[1], depth+1, seen)...)
			}
		case "(*sync.Pool).Put":
			for _, a := range cc.Args[1:] {
				if eng.Unwrap(a) == b {
					out = append(out, origin{"lossy", "the bytes alias a buffer that is handed back to a sync.Pool at " + p.InstrPos(ref) + " while they are still in use: another session draws the buffer and overwrites them", b})
				}
			}
		}
	}
	if fed == 0 {
		out = append(out, origin{"unknown", "buffer never filled", b})
	}
	return out
}

func valuePos(p *eng.Prog, v ssa.Value) string {
	if in, ok := v.(ssa.Instruction); ok {
		return p.InstrPos(in)
	}
	return p.Pos(v.Pos())
}

func (t *byteTracer) traceCall(call *ssa.Call, idx int, depth int, seen map[ssa.Value]bool) []origin {
	p := t.c.P
	name := eng.CalleeName(call.Common())
	// copies: the result no longer aliases its operand
	if name == "bytes.Clone" || name == "slices.Clone" || name == "builtin.append" && len(call.Call.Args) == 2 && (eng.IsNilConst(call.Call.Args[0]) || isFreshEmptySlice(call.Call.Args[0])) {
		src := call.Call.Args[len(call.Call.Args)-1]
		var out []origin
		for _, o := range t.trace(src, depth+1, seen) {
			if o.kind == "lossy" && strings.HasPrefix(o.what, "the bytes alias a buffer") {
				continue
			}
			out = append(out, o)
		}
		return out
	}
	if t.source[name] {
		return []origin{{"source", name, call}}
	}
	if t.lossy[name] {
		return []origin{{"lossy", name + " at " + p.InstrPos(call), call}}
	}
	if ai, ok := t.pass[name]; ok && idx == 0 {
		if name == "io.LimitReader" {
			t.gated = append(t.gated, p.InstrPos(call))
		}
		args := call.Call.Args
		return t.trace(args[ai], depth+1, seen)
	}
	if call.Call.IsInvoke() && call.Call.Method.Name() == "Source" && idx == 0 {
		return []origin{{"msgsource", eng.ShortType(call.Call.Value.Type()), call}}
	}
	if g := eng.StaticCallee(call.Common()); g != nil && eng.InModule(g) && g.Blocks != nil {
		var out []origin
		eng.EachInstr(g, func(in ssa.Instruction) {
			ret, ok := in.(*ssa.Return)
			if !ok || eng.IsRecoverBlock(ret.Block()) {
				return
			}
			res := eng.ReturnResults(ret)
			if idx < len(res) && !eng.IsNilConst(res[idx]) {
				out = append(out, t.trace(res[idx], depth+1, seen)...)
			}
		})
		return out
	}
	return []origin{{"unknown", "call of " + name + " at " + p.InstrPos(call), call}}
}

func originsStr(os []origin) string {
	var parts []string
	seen := map[string]bool{}
	for _, o := range os {
		s := o.kind
		if o.what != "" {
			s += ":" + o.what
		}
		if !seen[s] {
			seen[s] = true
			parts = append(parts, s)
		}
	}
	sort.Strings(parts)
	return strings.Join(parts, ", ")
}

// onlyKinds: every origin has one of the kinds; returns the first offender.
func onlyKinds(os []origin, kinds ...string) (bool, origin) {
	for _, o := range os {
		ok := false
		for _, k := range kinds {
			if o.kind == k {
				ok = true
			}
		}
		if !ok {
			return false, o
		}
	}
	return len(os) > 0, origin{kind: "none"}
}

func checkC02(c *Ctx) {
	r, p := c.R, c.P
	r.Explanation = "Decides that no lossy operation lies on any byte path between the SMTP DATA read and each read interface — by classifying every operation that consumes the tracked []byte / io.Reader as pass-through (table), lossy (table) or unclassified (undecided) — not byte equality: (D1) the bytes handed to Manager.Deliver are the textproto dot-decoded DATA block through pass-through operations only (a LimitReader only together with the C06 over-limit rejection); (D2) Delivery.Reader is a concatenation whose last segment reads the unmodified source parameter, preceded only by generated header text, and source has no writer; (D3) each store's AddMessage moves Source() into its sink through pass-through operations and the reported size is defined from the same bytes; each store's Source() is a plain reader over the stored bytes/file; (D4) REST and web UI source handlers copy the SourceReader result to the response untouched; (D5) POP3: no bufio.Scanner over a message source keeps the default 64 KiB token limit, each emitted line is the scanned line or '.'+line selected by HasPrefix(line, \".\"), and the terminator is sent on every exit after streaming began."
	r.NotDecided = []string{"byte equality for every body", "CR/LF normalisation details of bufio.ScanLines and textproto", "MIME views (Text/HTML/attachments)"}
	r.Assumptions = []string{"A-enmime-readonly: enmime.DecodeHeaders does not modify its argument", "pass-through table entries (bytes.NewBuffer, Buffer.Bytes, bytes.NewReader, io.ReadAll, io.NopCloser, io.Copy) preserve bytes", "net/textproto dot-decoding is correct"}
	r.Rule("C02/IN/dot-decode", "the content argument of Manager.Deliver traces back, through pass-through operations only, to textproto ReadDotBytes/DotReader")
	r.Rule("C02/DELIVER/concat", "Delivery.Reader = io.MultiReader(header text…, bytes.NewReader(source)) with source the unmodified parameter as last segment; the source parameter is only read")
	r.Rule("C02/STORE/write", "AddMessage of each store moves message.Source() to its sink unmodified; Size() is defined from the stored bytes; Source() reads them back plainly")
	r.Rule("C02/READ/source", "source endpoints: the reader from Manager.SourceReader reaches io.Copy(w, r) untouched; StoreManager.SourceReader returns the store message's Source()")
	r.Rule("C02/POP3/lines", "POP3 streaming: Scanner over a message source has its token limit raised; each sent line is φ(line, \".\"+line) under HasPrefix(line, \".\"); \".\" terminator sent on every exit after streaming began; every consumer of a message source in the package is a Scanner (examined), Close, or a helper that is followed — ReadLine pieces are refused, anything else is undecided")
	// the raw file is named by the id: two live messages with one id read back one body
	c.fileIDUnique("C02/ID/file-unique")
	m := c.smtp()
	if !m.ok {
		return
	}
	// ---- D1
	for _, site := range m.deliverSites {
		args := site.Common().Args
		content := args[len(args)-1]
		tr := newByteTracer(c)
		os := tr.trace(content, 0, map[ssa.Value]bool{})
		cons := "deliver-content@" + shortFn(site.Parent())
		if ok, off := onlyKinds(os, "source"); ok {
			if why := c.c06ReadBound(m); why != "" {
				r.Bad("C02/IN/dot-decode", cons, p.InstrPos(site), "%s (a bounded read is only loss-free together with the over-limit rejection)", why)
				continue
			}
			detail := "content = " + originsStr(os)
			if len(tr.gated) > 0 {
				detail += "; io.LimitReader at " + strings.Join(tr.gated, ",") + " is paired with the over-limit rejection decided by C06/SIZE/data"
			}
			r.Ok("C02/IN/dot-decode", cons, p.InstrPos(site), "%s", detail)
		} else if off.kind == "lossy" {
			r.Bad("C02/IN/dot-decode", cons, p.InstrPos(site), "the DATA bytes pass a lossy operation before delivery: %s", off.what)
		} else {
			r.Undecided("C02/IN/dot-decode", cons, p.InstrPos(site), "cannot classify the origin of the delivered bytes: %s (%s)", originsStr(os), off.what)
		}
	}
	r.Floor("C02/IN/dot-decode", "Deliver sites", len(m.deliverSites), 1)

	c.c02Deliver()
	c.c02Stores()
	c.c02Read()
	c.c02Pop3()
}

func (c *Ctx) c02Deliver() {
	r, p := c.R, c.P
	deliver := p.Method("pkg/message", "StoreManager", "Deliver")
	fReader := p.Field("pkg/message", "Delivery", "Reader")
	if deliver == nil || fReader == nil {
		return
	}
	var source *ssa.Parameter
	for _, prm := range deliver.Params {
		if sl, ok := prm.Type().Underlying().(*types.Slice); ok {
			if b, ok := sl.Elem().Underlying().(*types.Basic); ok && b.Kind() == types.Uint8 {
				source = prm
			}
		}
	}
	if source == nil {
		r.Fatal("UNRESOLVED anchor=Deliver []byte parameter")
		return
	}
	// source read-only (followed into helpers of the package and through struct fields that
	// merely carry it)
	var badUse []string
	var dfns0 []*ssa.Function
	for g := range p.SyncReach(deliver) {
		if eng.FuncPkgPath(g) == eng.Mod+"/pkg/message" {
			dfns0 = append(dfns0, g)
		}
	}
	sortFuncs(dfns0)
	seenV := map[ssa.Value]bool{}
	var readOnly func(v ssa.Value, depth int)
	readOnly = func(v ssa.Value, depth int) {
		if depth > 5 || seenV[v] || v.Referrers() == nil {
			return
		}
		seenV[v] = true
		for _, ref := range *v.Referrers() {
			switch x := ref.(type) {
			case *ssa.Call:
				switch eng.CalleeName(x.Common()) {
				case "github.com/jhillyerd/enmime/v2.DecodeHeaders", "bytes.NewReader", "builtin.len":
					continue
				}
				if g := eng.StaticCallee(x.Common()); g != nil && eng.FuncPkgPath(g) == eng.Mod+"/pkg/message" && len(g.Blocks) > 0 {
					for i, a := range x.Call.Args {
						if a == v && i < len(g.Params) {
							readOnly(g.Params[i], depth+1)
						}
					}
					continue
				}
				badUse = append(badUse, eng.CalleeName(x.Common())+" at "+p.InstrPos(x))
			case *ssa.Store:
				// carried in a struct field: every load of that field must be read-only too
				if fa, ok := x.Addr.(*ssa.FieldAddr); ok && x.Val == v {
					f := eng.FieldOfAddr(fa)
					for _, fn := range dfns0 {
						eng.EachInstr(fn, func(in ssa.Instruction) {
							if u, ok := in.(*ssa.UnOp); ok && u.Op == token.MUL && eng.SameField(eng.AddrField(u.X), f) {
								readOnly(u, depth+1)
							}
						})
					}
					continue
				}
				// spilled to a local so that a closure can read it (the loop body as a local
				// function): the store is the only one, every load is followed
				if cell := eng.CellOf(x.Addr); cell != nil && x.Val == v {
					if sts := eng.CellStores(cell); len(sts) == 1 {
						for _, ld := range eng.CellLoads(cell) {
							readOnly(ld, depth+1)
						}
						continue
					}
				}
				badUse = append(badUse, "stored at "+p.InstrPos(x))
			case *ssa.DebugRef:
			case *ssa.Slice:
				badUse = append(badUse, "slice expression at "+p.InstrPos(x))
			case *ssa.IndexAddr:
				badUse = append(badUse, "element access at "+p.InstrPos(x))
			default:
				badUse = append(badUse, fmt.Sprintf("%T at %s", ref, p.InstrPos(ref)))
			}
		}
	}
	readOnly(source, 0)
	sort.Strings(badUse)
	if len(badUse) > 0 {
		r.Bad("C02/DELIVER/concat", "source-readonly", p.Pos(deliver.Pos()), "the message bytes are used by an operation that is not in the read-only table: %s", strings.Join(badUse, "; "))
	} else {
		r.Ok("C02/DELIVER/concat", "source-readonly", p.Pos(deliver.Pos()), "source is only passed to DecodeHeaders, len and bytes.NewReader")
	}
	var dfns []*ssa.Function
	for g := range p.SyncReach(deliver) {
		if eng.FuncPkgPath(g) == eng.Mod+"/pkg/message" {
			dfns = append(dfns, g)
		}
	}
	sort.Slice(dfns, func(i, j int) bool { return dfns[i].String() < dfns[j].String() })
	sts := eng.StoresToField(dfns, fReader)
	r.Floor("C02/DELIVER/concat", "stores to Delivery.Reader in Deliver", len(sts), 1)
	for _, s := range sts {
		cons := "Delivery.Reader"
		// the loop whose iterations must not share a reader: the loops around the store, or
		// (when the store sits in an extracted helper) around the helper's call site
		storeAt := ssa.Instruction(s.Store)
		stored := s.Store.Val
		if prm, isP := stored.(*ssa.Parameter); isP {
			if sites := p.StaticCallSites(prm.Parent()); len(sites) == 1 {
				storeAt = sites[0].Instr.(ssa.Instruction)
				stored = p.Actual(stored)
			}
		}
		call, ok := stored.(*ssa.Call)
		var viaHelper ssa.Instruction
		if ok && eng.CalleeName(call.Common()) != "io.MultiReader" {
			// a helper of the package that builds the reader: its single returned value
			if rets, g := eng.ReturnedValues(call, 0); g != nil && len(rets) == 1 && eng.FuncPkgPath(g) == eng.Mod+"/pkg/message" {
				if mr, isCall := rets[0].(*ssa.Call); isCall && eng.CalleeName(mr.Common()) == "io.MultiReader" {
					viaHelper = call
					call = mr
				}
			}
		}
		if !ok || eng.CalleeName(call.Common()) != "io.MultiReader" {
			// direct reader over source?
			tr := newByteTracer(c)
			os := tr.trace(stored, 0, map[ssa.Value]bool{})
			r.Bad("C02/DELIVER/concat", cons, p.InstrPos(s.Store), "Delivery.Reader is not io.MultiReader(headers…, bytes.NewReader(source)) (origins: %s): the trace headers or the body would be missing", originsStr(os))
			continue
		}
		// elements of the variadic slice in index order
		elems := map[int64]ssa.Value{}
		if sl, ok := call.Call.Args[0].(*ssa.Slice); ok {
			if al, ok := sl.X.(*ssa.Alloc); ok {
				for _, ref := range *al.Referrers() {
					if ia, ok := ref.(*ssa.IndexAddr); ok {
						k, _ := eng.ConstInt(ia.Index)
						for _, r2 := range *ia.Referrers() {
							if st, ok := r2.(*ssa.Store); ok {
								elems[k] = st.Val
							}
						}
					}
				}
			}
		}
		n := int64(len(elems))
		if n < 2 {
			r.Bad("C02/DELIVER/concat", cons, p.InstrPos(s.Store), "io.MultiReader has %d segments; expected header text followed by the source", n)
			continue
		}
		problems := []string{}
		for i := int64(0); i < n; i++ {
			tr := newByteTracer(c)
			os := tr.trace(elems[i], 0, map[ssa.Value]bool{})
			if i == n-1 {
				if len(os) == 1 && os[0].kind == "field" {
					// the source carried in a struct field with a single store in the package
					if u, isU := os[0].val.(*ssa.UnOp); isU {
						if f := eng.AddrField(u.X); f != nil {
							if fs := eng.StoresToField(dfns, f); len(fs) == 1 {
								tr2 := newByteTracer(c)
								os = tr2.trace(fs[0].Store.Val, 0, map[ssa.Value]bool{})
							}
						}
					}
				}
				ok := len(os) == 1 && os[0].kind == "param" && os[0].val == ssa.Value(source)
				if !ok {
					problems = append(problems, fmt.Sprintf("last segment is not a reader over the unmodified source parameter (origins: %s)", originsStr(os)))
				}
			} else {
				// header text: strings.NewReader(fmt.Sprintf(const…))
				for _, o := range os {
					if o.kind == "param" && o.val == ssa.Value(source) {
						problems = append(problems, fmt.Sprintf("segment %d reads the source before the last position: body would be duplicated or reordered", i))
					}
				}
			}
		}
		// every (stateful) reader segment must be created in the same loop iteration as the
		// Delivery it is stored in: a reader shared across iterations is exhausted by the
		// first store and later recipients receive nothing
		want := loopHeaders(storeAt.Block())
		for i := int64(0); i < n; i++ {
			v := unwrapIface(elems[i])
			def, ok := v.(ssa.Instruction)
			if !ok {
				continue
			}
			if viaHelper != nil && def.Parent() != storeAt.Parent() {
				def = viaHelper // created inside the helper: as fresh as the helper call
			}
			have := loopHeaders(def.Block())
			for _, h := range want {
				in := false
				for _, g := range have {
					if g == h {
						in = true
					}
				}
				if !in {
					problems = append(problems, fmt.Sprintf("segment %d is a reader created outside the per-mailbox loop (at %s) and shared by all iterations: after the first AddMessage it is at EOF, so every further recipient stores a message without that part", i, p.InstrPos(def)))
				}
			}
		}
		if len(problems) > 0 {
			r.Bad("C02/DELIVER/concat", cons, p.InstrPos(s.Store), "%s", strings.Join(problems, "; "))
		} else {
			r.Ok("C02/DELIVER/concat", cons, p.InstrPos(s.Store), "%d header segments followed by bytes.NewReader(source)", n-1)
		}
	}
}

func (c *Ctx) c02Stores() {
	r, p := c.R, c.P
	// mem
	fSource := p.Field("pkg/storage/mem", "Message", "source")
	memAdd := p.Method("pkg/storage/mem", "Store", "AddMessage")
	memSize := p.Method("pkg/storage/mem", "Message", "Size")
	memSrc := p.Method("pkg/storage/mem", "Message", "Source")
	if fSource != nil && memAdd != nil && memSize != nil && memSrc != nil {
		sts := eng.StoresToField(pkgFuncs(p, "pkg/storage/mem"), fSource)
		r.Floor("C02/STORE/write", "writers of mem.Message.source", len(sts), 1)
		for _, s := range sts {
			tr := newByteTracer(c)
			os := tr.trace(s.Store.Val, 0, map[ssa.Value]bool{})
			cons := "mem.Message.source@" + shortFn(eng.Outer(s.Fn))
			if ok, off := onlyKinds(os, "msgsource"); ok && len(tr.gated) == 0 {
				r.Ok("C02/STORE/write", cons, p.InstrPos(s.Store), "stored bytes = io.ReadAll(message.Source()) unmodified")
			} else if off.kind == "lossy" || len(tr.gated) > 0 {
				r.Bad("C02/STORE/write", cons, p.InstrPos(s.Store), "the stored bytes pass a lossy operation: %s %v", off.what, tr.gated)
			} else {
				r.Undecided("C02/STORE/write", cons, p.InstrPos(s.Store), "cannot classify the origin of the stored bytes: %s (%s)", originsStr(os), off.what)
			}
		}
		// Size() = len(source)
		okSize := false
		for _, ret := range successReturns(memSize) {
			if x := eng.LenOf(eng.ReturnResults(ret)[0]); x != nil && eng.SameField(eng.LoadedField(x), fSource) {
				okSize = true
			}
		}
		r.Check(okSize, "C02/STORE/write", "mem.Message.Size", p.Pos(memSize.Pos()), "Size() = len(source)", "mem Size() is not len(source): the reported size differs from the stored source")
		// Source() plain reader over source
		okSrc := false
		for _, ret := range successReturns(memSrc) {
			tr := newByteTracer(c)
			tr.noRecords = true
			os := tr.trace(eng.ReturnResults(ret)[0], 0, map[ssa.Value]bool{})
			if len(os) == 1 && os[0].kind == "field" && os[0].what == "source" {
				okSrc = true
			}
		}
		r.Check(okSrc, "C02/STORE/write", "mem.Message.Source", p.Pos(memSrc.Pos()), "Source() reads the stored bytes plainly", "mem Source() does not return a plain reader over the stored bytes")
	}
	// file
	fSize := p.Field("pkg/storage/file", "Message", "Fsize")
	fileAdd := p.Method("pkg/storage/file", "Store", "AddMessage")
	fileSrc := p.Method("pkg/storage/file", "Message", "Source")
	fileSize := p.Method("pkg/storage/file", "Message", "Size")
	rawPath := p.Method("pkg/storage/file", "Message", "rawPath")
	if fSize == nil || fileAdd == nil || fileSrc == nil || fileSize == nil || rawPath == nil {
		return
	}
	var copies []*ssa.Call
	var addFns []*ssa.Function
	for fn := range p.SyncReach(fileAdd) {
		if eng.FuncPkgPath(fn) == eng.FuncPkgPath(fileAdd) {
			addFns = append(addFns, fn)
		}
	}
	sortFuncs(addFns)
	for _, fn := range addFns {
		eng.EachInstr(fn, func(in ssa.Instruction) {
			if call, ok := in.(*ssa.Call); ok {
				switch eng.CalleeName(call.Common()) {
				case "io.Copy", "io.CopyN", "io.CopyBuffer":
					copies = append(copies, call)
				}
			}
		})
	}
	if len(copies) != 1 || eng.CalleeName(copies[0].Common()) != "io.Copy" {
		r.Bad("C02/STORE/write", "file.AddMessage:copy", p.Pos(fileAdd.Pos()), "expected exactly one io.Copy of the message source into the raw file, found %d copy calls (CopyN/limited copies truncate)", len(copies))
	} else {
		cp := copies[0]
		tr := newByteTracer(c)
		os := tr.trace(cp.Call.Args[1], 0, map[ssa.Value]bool{})
		okR, off := onlyKinds(os, "msgsource")
		// writer: bufio.NewWriter(os.Create(rawPath))
		wOK := false
		// the writer (possibly a field of a carrier built by a package constructor) resolves
		// to bufio.NewWriter over the file os.Create returned for the raw path
		wv, wenv := ctxValue(eng.Unwrap(cp.Call.Args[0]), nil)
		if w, ok := eng.Unwrap(wv).(*ssa.Call); ok && eng.CalleeName(w.Common()) == "bufio.NewWriter" {
			fv, fenv := ctxValue(eng.Unwrap(w.Call.Args[0]), wenv)
			if e, ok := eng.Unwrap(fv).(*ssa.Extract); ok {
				if cr, ok := e.Tuple.(*ssa.Call); ok && eng.CalleeName(cr.Common()) == "os.Create" {
					if rc, ok := eng.Unwrap(cr.Call.Args[0]).(*ssa.Call); ok && eng.StaticCallee(rc.Common()) == rawPath {
						wOK = true
					}
					if fm := c.fsModel(); fm != nil && fm.classIn(cr.Call.Args[0], fenv, 0) == "raw" {
						wOK = true // through a local variable, a parameter or a carrier field
					}
				}
			}
		}
		switch {
		case !okR || len(tr.gated) > 0:
			r.Bad("C02/STORE/write", "file.AddMessage:copy", p.InstrPos(cp), "the copied reader is not the unmodified message source (origins: %s %s %v)", originsStr(os), off.what, tr.gated)
		case !wOK:
			r.Bad("C02/STORE/write", "file.AddMessage:copy", p.InstrPos(cp), "the copy does not go to a bufio.Writer over os.Create(rawPath())")
		default:
			r.Ok("C02/STORE/write", "file.AddMessage:copy", p.InstrPos(cp), "io.Copy(bufio.NewWriter(os.Create(rawPath())), message.Source())")
		}
		// Fsize = copy count
		okSz := false
		isCount := func(v ssa.Value) bool {
			v = p.Actual(v) // the count may reach the store through a helper's parameter
			if e, ok := v.(*ssa.Extract); ok && e.Tuple == ssa.Value(cp) && e.Index == 0 {
				return true
			}
			for _, a := range eng.ValueAliases(extractOf(cp, 0)) {
				if v == a {
					return true
				}
			}
			return false
		}
		for _, s := range eng.StoresToField(addFns, fSize) {
			if isCount(s.Store.Val) {
				okSz = true
				continue
			}
			// the count handed back by the helper that performs the copy: every return of the
			// helper yields the count, or zero together with a non-nil error
			if call, idx := eng.CallAndIndex(s.Store.Val); call != nil {
				if g := eng.StaticCallee(call.Common()); g != nil && g == cp.Parent() {
					all, n := true, 0
					eng.EachInstr(g, func(in ssa.Instruction) {
						ret, ok := in.(*ssa.Return)
						if !ok || eng.IsRecoverBlock(ret.Block()) {
							return
						}
						res := eng.ReturnResults(ret)
						if idx >= len(res) {
							all = false
							return
						}
						if isCount(res[idx]) {
							n++
							return
						}
						e := res[len(res)-1]
						if k, isC := eng.ConstInt(res[idx]); isC && k == 0 && (definitelyNonNilErr(e) || eng.KnownNonNil(e, ret.Block())) {
							return
						}
						all = false
					})
					if all && n > 0 {
						okSz = true
					}
				}
			}
		}
		r.Check(okSz, "C02/STORE/write", "file.Message.Fsize", p.InstrPos(cp), "Fsize = number of bytes copied", "Fsize is not the io.Copy byte count: reported size differs from the stored source")
	}
	okFS := false
	for _, ret := range successReturns(fileSize) {
		if eng.SameField(eng.LoadedField(eng.ReturnResults(ret)[0]), fSize) {
			okFS = true
		}
	}
	r.Check(okFS, "C02/STORE/write", "file.Message.Size", p.Pos(fileSize.Pos()), "Size() = Fsize", "file Size() does not return Fsize")
	okSrc := false
	for _, ret := range successReturns(fileSrc) {
		res := eng.ReturnResults(ret)
		v := unwrapIface(res[0])
		for _, cand := range append(eng.ValueAliases(v), v) {
			_ = cand
		}
		if e, ok := v.(*ssa.Extract); ok {
			if call, ok := e.Tuple.(*ssa.Call); ok && eng.CalleeName(call.Common()) == "os.Open" {
				if rc, ok := call.Call.Args[0].(*ssa.Call); ok && eng.StaticCallee(rc.Common()) == rawPath {
					okSrc = true
				}
			}
		}
	}
	r.Check(okSrc, "C02/STORE/write", "file.Message.Source", p.Pos(fileSrc.Pos()), "Source() = os.Open(rawPath())", "file Source() is not a plain os.Open of the raw file")
}

func extractOf(call *ssa.Call, idx int) ssa.Value {
	if call.Referrers() == nil {
		return call
	}
	for _, ref := range *call.Referrers() {
		if e, ok := ref.(*ssa.Extract); ok && e.Index == idx {
			return e
		}
	}
	return call
}

func (c *Ctx) c02Read() {
	r, p := c.R, c.P
	srcRd := p.MethodObj("pkg/message", "Manager", "SourceReader")
	smSrc := p.Method("pkg/message", "StoreManager", "SourceReader")
	if srcRd == nil || smSrc == nil {
		return
	}
	// StoreManager.SourceReader returns sm.Source(): every non-nil reader it returns is the
	// result of a Source() call on a store message, directly or handed back by a helper of
	// the package (openSource)
	var isSourceResult func(v ssa.Value, depth int) bool
	isSourceResult = func(v ssa.Value, depth int) bool {
		if depth > 3 {
			return false
		}
		call, idx := eng.CallAndIndex(v)
		if call == nil {
			return false
		}
		if call.Call.IsInvoke() && call.Call.Method.Name() == "Source" {
			return idx == 0
		}
		rets, g := eng.ReturnedValues(call, idx)
		if g == nil || eng.FuncPkgPath(g) != eng.FuncPkgPath(smSrc) {
			return false
		}
		n := 0
		for _, rv := range rets {
			if eng.IsNilConst(rv) {
				continue
			}
			n++
			if !isSourceResult(rv, depth+1) {
				return false
			}
		}
		return n > 0
	}
	okPT, nPT := true, 0
	eng.EachInstr(smSrc, func(in ssa.Instruction) {
		ret, ok := in.(*ssa.Return)
		if !ok {
			return
		}
		res := eng.ReturnResults(ret)
		if eng.IsNilConst(res[0]) {
			return
		}
		nPT++
		if !isSourceResult(res[0], 0) {
			okPT = false
		}
	})
	okPT = okPT && nPT > 0
	r.Check(okPT, "C02/READ/source", "StoreManager.SourceReader", p.Pos(smSrc.Pos()), "returns the store message's Source() unchanged", "StoreManager.SourceReader does not pass Source() through")
	n := 0
	// every function of the handler packages that asks the Manager for a source reader (the
	// registered handler itself, or an action function it runs through a function value)
	srcUsers := append(pkgFuncs(p, "pkg/rest"), pkgFuncs(p, "pkg/webui")...)
	sortFuncs(srcUsers)
	for _, H := range srcUsers {
		H := H
		eng.EachInstr(H, func(in ssa.Instruction) {
			call, ok := in.(*ssa.Call)
			if !ok || !eng.IsCallTo(call.Common(), srcRd) {
				return
			}
			n++
			rv := extractOf(call, 0)
			cons := shortFn(H)
			// all uses of rv: comparisons, and exactly one io.Copy(w, r)
			var copies, other []string
			vals := append([]ssa.Value{rv}, eng.ValueAliases(rv)...)
			seen := map[ssa.Instruction]bool{}
			var visit func(v ssa.Value)
			visit = func(v ssa.Value) {
				if v.Referrers() == nil {
					return
				}
				for _, ref := range *v.Referrers() {
					if seen[ref] {
						continue
					}
					seen[ref] = true
					switch x := ref.(type) {
					case *ssa.ChangeInterface:
						visit(x)
					case *ssa.MakeInterface:
						visit(x)
					case *ssa.BinOp, *ssa.DebugRef, *ssa.Store, *ssa.Phi:
					case *ssa.Call:
						if eng.CalleeName(x.Common()) == "io.Copy" && len(x.Call.Args) == 2 {
							copies = append(copies, p.InstrPos(x))
						} else if eng.CalleeName(x.Common()) == "io.ReadAll" {
							// buffered instead of streamed: the bytes read must reach the response
							// writer's Write unchanged
							data := extractOf(x, 0)
							nW := 0
							if data != nil && data.Referrers() != nil {
								for _, dr := range *data.Referrers() {
									switch y := dr.(type) {
									case *ssa.Call:
										if y.Call.IsInvoke() && y.Call.Method.Name() == "Write" && len(y.Call.Args) == 1 && y.Call.Args[0] == data {
											nW++
											copies = append(copies, p.InstrPos(y))
										} else if eng.CalleeName(y.Common()) == "builtin.len" {
										} else {
											other = append(other, "the bytes read from the source pass "+eng.CalleeName(y.Common())+" at "+p.InstrPos(y)+" before they are written")
										}
									case *ssa.DebugRef:
									default:
										other = append(other, fmt.Sprintf("the bytes read from the source are used by %T at %s", dr, p.InstrPos(dr)))
									}
								}
							}
							if nW == 0 {
								other = append(other, "the bytes read from the source at "+p.InstrPos(x)+" are not written to the response as they are")
							}
						} else if x.Call.IsInvoke() && x.Call.Method.Name() == "Close" {
						} else if g := eng.StaticCallee(x.Common()); g != nil && eng.InModule(g) && len(g.Blocks) > 0 && g.Parent() == nil && len(seen) < 200 {
							// a helper of the handler package that streams the reader: its
							// parameter is followed like the reader itself
							passed := false
							for i, a := range x.Call.Args {
								if a == v && i < len(g.Params) {
									passed = true
									visit(g.Params[i])
								}
							}
							if !passed {
								other = append(other, eng.CalleeName(x.Common())+" at "+p.InstrPos(x))
							}
						} else {
							other = append(other, eng.CalleeName(x.Common())+" at "+p.InstrPos(x))
						}
					case *ssa.Defer:
					default:
						other = append(other, fmt.Sprintf("%T at %s", ref, p.InstrPos(ref)))
					}
				}
			}
			for _, v := range vals {
				visit(v)
			}
			switch {
			case len(other) > 0:
				r.Bad("C02/READ/source", cons, p.InstrPos(call), "the source reader is consumed by something other than io.Copy to the response: %s", strings.Join(other, "; "))
			case len(copies) != 1:
				r.Bad("C02/READ/source", cons, p.InstrPos(call), "expected exactly one io.Copy(w, r) of the source reader, found %d", len(copies))
			default:
				r.Ok("C02/READ/source", cons, copies[0], "SourceReader result is copied to the response untouched")
			}
		})
	}
	r.Floor("C02/READ/source", "handlers calling SourceReader", n, 1)
}

func (c *Ctx) c02Pop3() {
	r, p := c.R, c.P
	send := p.Method("pkg/server/pop3", "Session", "send")
	if send == nil {
		return
	}
	n := 0
	for _, fn := range pkgFuncs(p, "pkg/server/pop3") {
		fn := fn
		var scanners []*ssa.Call
		ctorBuf := map[*ssa.Call]*ssa.Call{} // scanner built by a helper: the Buffer call inside it
		ctorOf := map[*ssa.Call]bool{}
		isMsgSource := func(v ssa.Value) bool {
			tr := newByteTracer(c)
			ok, _ := onlyKinds(tr.trace(v, 0, map[ssa.Value]bool{}), "msgsource")
			return ok
		}
		eng.EachInstr(fn, func(in ssa.Instruction) {
			call, ok := in.(*ssa.Call)
			if !ok {
				return
			}
			if eng.CalleeName(call.Common()) == "bufio.NewScanner" {
				if isMsgSource(call.Call.Args[0]) {
					scanners = append(scanners, call)
				}
				return
			}
			// a helper of the package that builds the scanner over its parameter
			// (newLineScanner(r)): the scanner is the helper's result
			if !isNamedPtr(call.Type(), "bufio", "Scanner") {
				return
			}
			rets, g := eng.ReturnedValues(call, 0)
			if g == nil || len(rets) == 0 || !strings.HasSuffix(eng.FuncPkgPath(g), "/pkg/server/pop3") {
				return
			}
			var nc *ssa.Call
			for _, rv := range rets {
				x, ok := rv.(*ssa.Call)
				if !ok || eng.CalleeName(x.Common()) != "bufio.NewScanner" || nc != nil && nc != x {
					return
				}
				nc = x
			}
			prm, ok := nc.Call.Args[0].(*ssa.Parameter)
			if !ok {
				return
			}
			pi := eng.ParamIndex(prm)
			if pi < 0 || pi >= len(call.Call.Args) || !isMsgSource(call.Call.Args[pi]) {
				return
			}
			scanners = append(scanners, call)
			ctorOf[call] = true
			for _, ref := range *nc.Referrers() {
				if bc, ok := ref.(*ssa.Call); ok && eng.CalleeName(bc.Common()) == "(*bufio.Scanner).Buffer" {
					allRets := true
					eng.EachInstr(g, func(gi ssa.Instruction) {
						if ret, ok := gi.(*ssa.Return); ok && !eng.Dominates(bc, ret) {
							allRets = false
						}
					})
					if allRets {
						ctorBuf[call] = bc
					}
				}
			}
		})
		for _, sc := range scanners {
			n++
			cons := shortFn(fn)
			// the scanner may be handed on: to a helper of the package (and on from there), or
			// to a callback the callers of fn supply (relay(scanner)); the scan loop then lives there
			type scanUse struct {
				fn  *ssa.Function
				v   ssa.Value
				via ssa.Instruction // the call in fn that hands the scanner on (nil: fn itself)
			}
			uses := []scanUse{{fn, sc, nil}}
			seenUse := map[ssa.Value]bool{sc: true}
			for ui := 0; ui < len(uses) && ui < 24; ui++ {
				cur := uses[ui]
				if cur.v.Referrers() == nil {
					continue
				}
				for _, ref := range *cur.v.Referrers() {
					call, ok := ref.(*ssa.Call)
					if !ok || call.Call.IsInvoke() {
						continue
					}
					via := cur.via
					if via == nil {
						via = call
					}
					for ai, a := range call.Call.Args {
						if a != cur.v {
							continue
						}
						if g := eng.StaticCallee(call.Common()); g != nil {
							if eng.InModule(g) && len(g.Blocks) > 0 && ai < len(g.Params) && !seenUse[g.Params[ai]] {
								seenUse[g.Params[ai]] = true
								uses = append(uses, scanUse{g, g.Params[ai], via})
							}
							continue
						}
						if prm, ok := call.Call.Value.(*ssa.Parameter); ok && prm.Parent() == cur.fn {
							pi := eng.ParamIndex(prm)
							for _, cs := range p.StaticCallSites(cur.fn) {
								if pi < 0 || pi >= len(cs.Args) {
									continue
								}
								if h, _, ok := eng.FuncValueOf(cs.Args[pi]); ok && h != nil && ai < len(h.Params) && !seenUse[h.Params[ai]] {
									seenUse[h.Params[ai]] = true
									uses = append(uses, scanUse{h, h.Params[ai], via})
								}
							}
						}
					}
				}
			}
			// (a) Buffer call with a large limit dominating the first Scan
			var scan, buf *ssa.Call
			var scanAt ssa.Instruction
			for _, ref := range *sc.Referrers() {
				if call, ok := ref.(*ssa.Call); ok {
					switch eng.CalleeName(call.Common()) {
					case "(*bufio.Scanner).Buffer":
						buf = call
					}
				}
			}
			for _, u := range uses {
				for _, ref := range *u.v.Referrers() {
					if call, ok := ref.(*ssa.Call); ok && eng.CalleeName(call.Common()) == "(*bufio.Scanner).Scan" {
						if scan == nil || u.via == nil {
							scan = call
							scanAt = call
							if u.via != nil {
								scanAt = u.via
							}
						}
					}
				}
			}
			if cb := ctorBuf[sc]; cb != nil {
				buf = cb // raised inside the constructing helper, before the scanner exists here
			}
			if scan != nil && buf != nil && !ctorOf[sc] {
				// every hand-over must come after the limit was raised as well
				for _, u := range uses {
					if u.via != nil && !eng.Dominates(buf, u.via) {
						scanAt = u.via
					}
				}
			}
			switch {
			case scan == nil:
				r.Undecided("C02/POP3/lines", cons+":limit", p.InstrPos(sc), "scanner is never scanned")
			case buf == nil || !ctorOf[sc] && !eng.Dominates(buf, scanAt):
				r.Bad("C02/POP3/lines", cons+":limit", p.InstrPos(sc), "bufio.Scanner over the message source keeps the default token limit (64 KiB): a longer line makes Scan fail, the response ends with '.' followed by -ERR and the client receives a truncated message")
			default:
				if k, ok := eng.ConstInt(buf.Call.Args[2]); ok && k >= 1<<30 {
					r.Ok("C02/POP3/lines", cons+":limit", p.InstrPos(buf), "token limit raised to %d", k)
				} else if ok {
					r.Bad("C02/POP3/lines", cons+":limit", p.InstrPos(buf), "token limit %d still truncates long lines", k)
				} else {
					r.Undecided("C02/POP3/lines", cons+":limit", p.InstrPos(buf), "token limit is not a constant")
				}
			}
			// (b) each send inside the scan loop sends φ(text, "."+text) under HasPrefix
			checkStuffing := func(fn *ssa.Function, scv ssa.Value, cons string, required bool) {
				var text *ssa.Call
				for _, ref := range *scv.Referrers() {
					if call, ok := ref.(*ssa.Call); ok && eng.CalleeName(call.Common()) == "(*bufio.Scanner).Text" {
						text = call
					}
				}
				if text == nil {
					if required {
						r.Bad("C02/POP3/lines", cons+":stuffing", p.InstrPos(sc), "scanned text is not used")
					}
					return
				}
				nSend, okStuff := 0, true
				why := ""
				eng.EachInstr(fn, func(in ssa.Instruction) {
					call, ok := in.(*ssa.Call)
					if !ok || eng.StaticCallee(call.Common()) != send {
						return
					}
					arg := sendTextArg(call)
					if arg == nil {
						return
					}
					if _, isC := arg.(*ssa.Const); isC {
						return
					}
					// dot-stuffing extracted into a helper: s.send(dotStuff(line))
					if hc, ok := arg.(*ssa.Call); ok {
						if rets, g := eng.ReturnedValues(hc, 0); g != nil && len(hc.Call.Args) >= 1 {
							for ai, a := range hc.Call.Args {
								if a != ssa.Value(text) || ai >= len(g.Params) {
									continue
								}
								nSend++
								if why2 := stuffingShape(rets, g.Params[ai], g); why2 != "" {
									okStuff, why = false, why2+" (in "+shortFn(g)+")"
								}
								return
							}
						}
					}
					// does the argument derive from text?
					if arg == ssa.Value(text) {
						nSend++
						okStuff, why = false, "line sent without dot-stuffing at "+p.InstrPos(call)
						return
					}
					if !derivesFromValue(arg, text, 0) {
						return
					}
					nSend++
					// edge (pred → blk) is taken only when HasPrefix(text, ".") has the value pol
					underPrefix := func(pred, blk *ssa.BasicBlock, pol bool) bool {
						for _, bb := range fn.Blocks {
							for k := 0; k < len(bb.Succs) && len(bb.Succs) == 2; k++ {
								cv, cpol, ok := eng.CondTruth(bb, k)
								if !ok || cpol != pol {
									continue
								}
								hc, ok := cv.(*ssa.Call)
								if !ok || eng.CalleeName(hc.Common()) != "strings.HasPrefix" || hc.Call.Args[0] != ssa.Value(text) {
									continue
								}
								if s, isC := eng.ConstString(hc.Call.Args[1]); !isC || s != "." {
									continue
								}
								if eng.EdgeDominates(bb, k, pred) || pred == bb && bb.Succs[k] == blk {
									return true
								}
							}
						}
						return false
					}
					stuffed := false
					switch x := arg.(type) {
					case *ssa.Phi:
						// φ(line, "."+line)
						for i, e := range x.Edges {
							pred := x.Block().Preds[i]
							if e == ssa.Value(text) {
								if !underPrefix(pred, x.Block(), false) {
									okStuff, why = false, "the unstuffed line can be selected although strings.HasPrefix(line, \".\") holds"
								}
								continue
							}
							b, ok := e.(*ssa.BinOp)
							if !ok || b.Op != token.ADD || b.Y != ssa.Value(text) {
								okStuff, why = false, "unexpected line transformation at "+p.InstrPos(call)
								continue
							}
							if s, isC := eng.ConstString(b.X); !isC || s != "." {
								okStuff, why = false, "stuffing prefix is not \".\""
								continue
							}
							if !underPrefix(pred, x.Block(), true) {
								okStuff, why = false, "'.'+line is not selected by strings.HasPrefix(line, \".\")"
							} else {
								stuffed = true
							}
						}
					case *ssa.BinOp:
						// φ("", ".") + line
						pp, isPhi := x.X.(*ssa.Phi)
						if x.Op != token.ADD || x.Y != ssa.Value(text) || !isPhi {
							okStuff, why = false, "unexpected line transformation at "+p.InstrPos(call)
							break
						}
						for i, e := range pp.Edges {
							pred := pp.Block().Preds[i]
							sv, isC := eng.ConstString(e)
							switch {
							case isC && sv == "":
								if !underPrefix(pred, pp.Block(), false) {
									okStuff, why = false, "the empty prefix can be selected although strings.HasPrefix(line, \".\") holds"
								}
							case isC && sv == ".":
								if !underPrefix(pred, pp.Block(), true) {
									okStuff, why = false, "the '.' prefix is not selected by strings.HasPrefix(line, \".\")"
								} else {
									stuffed = true
								}
							default:
								okStuff, why = false, "stuffing prefix is not \"\" or \".\""
							}
						}
					default:
						okStuff, why = false, "unexpected line transformation at "+p.InstrPos(call)
					}
					if !stuffed && okStuff {
						okStuff, why = false, "no dot-stuffed alternative for the sent line"
					}
				})
				if nSend == 0 {
					r.Bad("C02/POP3/lines", cons+":stuffing", p.InstrPos(text), "scanned lines are never sent")
				} else if okStuff {
					r.Ok("C02/POP3/lines", cons+":stuffing", p.InstrPos(text), "each line is sent as line or '.'+line under HasPrefix(line, \".\")")
				} else {
					r.Bad("C02/POP3/lines", cons+":stuffing", p.InstrPos(text), "%s: a body line beginning with '.' is altered or ends the response early", why)
				}
			}
			nText := 0
			for _, u := range uses {
				for _, ref := range *u.v.Referrers() {
					if call, ok := ref.(*ssa.Call); ok && eng.CalleeName(call.Common()) == "(*bufio.Scanner).Text" {
						nText++
						break
					}
				}
			}
			for _, u := range uses {
				ucons := cons
				if u.via != nil {
					ucons = shortFn(u.fn)
				}
				checkStuffing(u.fn, u.v, ucons, u.via == nil && nText == 0)
			}
			// (c) terminator on every exit after the scanner was created
			isTerm := func(in ssa.Instruction) bool {
				call, ok := in.(*ssa.Call)
				if !ok || eng.StaticCallee(call.Common()) != send {
					return false
				}
				a := sendTextArg(call)
				if a == nil {
					return false
				}
				s, isC := eng.ConstString(a)
				return isC && s == "."
			}
			// the streaming loop may live in a helper that leaves the terminator to its callers
			// (relayLines): then every call of the helper is followed by it on every path
			var termAfter func(g *ssa.Function, from ssa.Instruction, depth int) ssa.Instruction
			termAfter = func(g *ssa.Function, from ssa.Instruction, depth int) ssa.Instruction {
				ret := (&eng.Search{Target: eng.IsReturnOf(g), Avoid: isTerm, Deep: true}).After(from)
				if ret == nil || eng.IsRecoverBlock(ret.Block()) {
					return nil
				}
				sites := p.StaticCallSites(g)
				if depth >= 2 || g.Parent() != nil || len(sites) == 0 || len(p.CallersOf(g)) != len(sites) {
					return ret
				}
				for _, cs := range sites {
					if bad := termAfter(cs.Instr.Parent(), cs.Instr.(ssa.Instruction), depth+1); bad != nil {
						return bad
					}
				}
				return nil
			}
			if ret := termAfter(fn, sc, 0); ret != nil {
				r.Bad("C02/POP3/lines", cons+":terminator", p.InstrPos(ret), "a return after streaming began does not send the \".\" terminator: the client waits forever")
			} else {
				r.Ok("C02/POP3/lines", cons+":terminator", p.InstrPos(sc), "\".\" is sent on every exit after streaming began")
			}
		}
	}
	r.Floor("C02/POP3/lines", "scanners over message sources in pop3", n, 1)
	c.c02SendVerbatim(send)
	c.c02Pop3Consumers()
	// nothing is lost after it was written: between writing a message's raw file and the index
	// update nothing can remove the mailbox directory (decided by C11; an eviction placed there
	// deletes the content just written when it empties the mailbox, e.g. cap 1)
	nK := c.borrow(func(c2 *Ctx) {
		if m2 := c2.fsModel(); m2 != nil {
			c2.c11Add(m2)
		}
	}, "C11/ORDER/add/(*file.Store).AddMessage:no-removal-in-between", "C02/STORE/kept", "file store: the raw file just written cannot be removed again before the index names it")
	c.R.Floor("C02/STORE/kept", "borrowed obligations", nK, 1)
}

// c02Pop3Consumers: every consumer of a message source in the POP3 package is one the streaming
// rule understands. The rule above examines bufio.Scanner loops; a source that is split into
// lines by other means would otherwise go unexamined. A bufio.Reader's ReadLine in particular
// hands out long lines in pieces, and a dot-stuffing decision per piece inserts a byte in the
// middle of a line.
func (c *Ctx) c02Pop3Consumers() {
	r, p := c.R, c.P
	srcObj := p.MethodObj("pkg/storage", "Message", "Source")
	if srcObj == nil {
		return
	}
	type finding struct {
		bad         bool
		where, what string
	}
	nSrc := 0
	for _, fn := range pkgFuncs(p, "pkg/server/pop3") {
		fn := fn
		eng.EachInstr(fn, func(in ssa.Instruction) {
			call, ok := in.(*ssa.Call)
			if !ok || !eng.IsCallTo(call.Common(), srcObj) {
				return
			}
			nSrc++
			var finds []finding
			seen := map[ssa.Value]bool{}
			var fwd func(v ssa.Value, depth int)
			consumer := func(ci ssa.CallInstruction, v ssa.Value, depth int) {
				cc := ci.Common()
				name := eng.CalleeName(cc)
				if cc.IsInvoke() {
					if cc.Value == v && cc.Method.Name() == "Close" {
						return
					}
					if cc.Value == v {
						finds = append(finds, finding{false, p.InstrPos(ci), "method " + cc.Method.Name() + " of the source"})
					}
					return
				}
				if g := eng.StaticCallee(cc); g != nil && eng.InModule(g) && len(g.Blocks) > 0 {
					for ai, a := range cc.Args {
						if a == v && ai < len(g.Params) {
							fwd(g.Params[ai], depth+1)
						}
					}
					return
				}
				switch name {
				case "bufio.NewScanner":
					return // examined by the scanner rule
				case "bufio.NewReader", "bufio.NewReaderSize":
					cv, isV := ci.(*ssa.Call)
					if !isV || cv.Referrers() == nil {
						return
					}
					for _, ref := range *cv.Referrers() {
						rc, ok := ref.(*ssa.Call)
						if !ok {
							continue
						}
						switch eng.CalleeName(rc.Common()) {
						case "(*bufio.Reader).ReadLine":
							finds = append(finds, finding{true, p.InstrPos(rc), "(*bufio.Reader).ReadLine returns a line longer than the buffer in pieces: a dot-stuffing decision taken per piece inserts a '.' in the middle of a line whenever a piece starts with one, and the client cannot tell it from content"})
						default:
							finds = append(finds, finding{false, p.InstrPos(rc), eng.CalleeName(rc.Common()) + " on a buffered reader over the source"})
						}
					}
					return
				}
				// a function value parameter (relay callback): resolved by the scanner rule's uses
				if _, isP := cc.Value.(*ssa.Parameter); isP {
					return
				}
				finds = append(finds, finding{false, p.InstrPos(ci), name})
			}
			fwd = func(v ssa.Value, depth int) {
				if seen[v] || depth > 6 || v.Referrers() == nil {
					return
				}
				seen[v] = true
				for _, ref := range *v.Referrers() {
					switch x := ref.(type) {
					case *ssa.Extract:
						if x.Index == 0 {
							fwd(x, depth)
						}
					case *ssa.MakeInterface, *ssa.ChangeInterface, *ssa.Phi, *ssa.ChangeType:
						fwd(x.(ssa.Value), depth)
					case *ssa.Call:
						consumer(x, v, depth)
					case *ssa.Defer:
						consumer(x, v, depth)
					case *ssa.Store:
						if x.Val != v {
							continue
						}
						if cell := eng.CellOf(x.Addr); cell != nil {
							for _, ld := range eng.CellLoads(cell) {
								fwd(ld, depth)
							}
						}
					case *ssa.MakeClosure:
						if g, ok := x.Fn.(*ssa.Function); ok {
							for i, b := range x.Bindings {
								if b == v && i < len(g.FreeVars) {
									fwd(g.FreeVars[i], depth+1)
								}
							}
						}
					case *ssa.Return:
						for _, cs := range p.StaticCallSites(x.Parent()) {
							if cv, ok := cs.Instr.(*ssa.Call); ok {
								fwd(cv, depth+1)
							}
						}
					}
				}
			}
			fwd(call, 0)
			cons := "consumers@" + shortFn(fn)
			var bad, unknown []string
			for _, f := range finds {
				if f.bad {
					bad = append(bad, f.where+": "+f.what)
				} else {
					unknown = append(unknown, f.what+" at "+f.where)
				}
			}
			sort.Strings(bad)
			sort.Strings(unknown)
			switch {
			case len(bad) > 0:
				r.Bad("C02/POP3/lines", cons, p.InstrPos(call), "%s", strings.Join(dedupStrings(bad), "; "))
			case len(unknown) > 0:
				r.Undecided("C02/POP3/lines", cons, p.InstrPos(call), "the message source is consumed by an operation the streaming rule does not model: %s", strings.Join(dedupStrings(unknown), "; "))
			default:
				r.Ok("C02/POP3/lines", cons, p.InstrPos(call), "the source is only scanned by a bufio.Scanner (examined above) and closed")
			}
		})
	}
	r.Floor("C02/POP3/lines", "message sources opened in pop3", nSrc, 1)
}

// sendTextArg: the text argument of a call of the session's send function: its first
// string-typed argument.
func sendTextArg(call *ssa.Call) ssa.Value {
	for i, a := range call.Call.Args {
		if !isString(a.Type()) {
			continue
		}
		// printf-style send("%s", line): the text is the single formatted operand
		if f, isC := eng.ConstString(a); isC && (f == "%s" || f == "%v") && i+1 < len(call.Call.Args) {
			if sl, ok := call.Call.Args[i+1].(*ssa.Slice); ok {
				if al, ok := sl.X.(*ssa.Alloc); ok {
					var elems []ssa.Value
					for _, ref := range *al.Referrers() {
						if ia, ok := ref.(*ssa.IndexAddr); ok {
							for _, r2 := range *ia.Referrers() {
								if st, ok := r2.(*ssa.Store); ok {
									elems = append(elems, st.Val)
								}
							}
						}
					}
					if len(elems) == 1 {
						if mi, ok := elems[0].(*ssa.MakeInterface); ok {
							return mi.X
						}
						return elems[0]
					}
				}
			}
		}
		return a
	}
	return nil
}

// c02SendVerbatim: the function through which message lines leave on the POP3 connection
// writes its text parameter unchanged (plus a constant line ending). Interpreting the text
// (as a format string, through a template, a replacer …) rewrites message bytes.
func (c *Ctx) c02SendVerbatim(send *ssa.Function) {
	r, p := c.R, c.P
	var text *ssa.Parameter
	for _, prm := range send.Params {
		if isString(prm.Type()) {
			text = prm
			break
		}
	}
	cons := shortFn(send) + ":verbatim"
	if text == nil {
		r.Undecided("C02/POP3/lines", cons, p.Pos(send.Pos()), "send has no string parameter")
		return
	}
	// derived: values that are the text, the text plus/after a constant, or a byte/interface view
	derived := map[ssa.Value]bool{text: true}
	var bad []string
	for changed := true; changed; {
		changed = false
		eng.EachInstr(send, func(in ssa.Instruction) {
			v, isV := in.(ssa.Value)
			if !isV || derived[v] {
				return
			}
			switch x := in.(type) {
			case *ssa.BinOp:
				if x.Op == token.ADD && (derived[x.X] || derived[x.Y]) {
					_, cx := x.X.(*ssa.Const)
					_, cy := x.Y.(*ssa.Const)
					if cx || cy {
						derived[v], changed = true, true
					}
				}
			case *ssa.Convert:
				if derived[x.X] {
					derived[v], changed = true, true
				}
			case *ssa.MakeInterface:
				if derived[x.X] {
					derived[v], changed = true, true
				}
			case *ssa.Phi:
				for _, e := range x.Edges {
					if derived[e] {
						derived[v], changed = true, true
					}
				}
			case *ssa.Slice:
				// variadic pack holding a derived value
				if al, ok := x.X.(*ssa.Alloc); ok {
					for _, ref := range *al.Referrers() {
						if ia, ok := ref.(*ssa.IndexAddr); ok {
							for _, r2 := range *ia.Referrers() {
								if st, ok := r2.(*ssa.Store); ok && derived[st.Val] {
									derived[v], changed = true, true
								}
							}
						}
					}
				}
			}
		})
	}
	written := false
	eng.EachInstr(send, func(in ssa.Instruction) {
		call, ok := in.(*ssa.Call)
		if !ok {
			return
		}
		name := eng.CalleeName(call.Common())
		fmtIdx := -1
		switch name {
		case "fmt.Sprintf", "fmt.Errorf", "fmt.Printf":
			fmtIdx = 0
		case "fmt.Fprintf":
			fmtIdx = 1
		}
		if fmtIdx >= 0 && fmtIdx < len(call.Call.Args) && derived[call.Call.Args[fmtIdx]] {
			// printf-style send: fine as long as every caller passes a constant format
			var offenders []string
			for _, cs := range p.StaticCallSites(send) {
				i := eng.ParamIndex(text)
				if i < 0 || i >= len(cs.Args) {
					continue
				}
				if _, isC := cs.Args[i].(*ssa.Const); !isC && derivesFromScannerText(cs.Args[i], 0) {
					offenders = append(offenders, p.InstrPos(cs.Instr.(ssa.Instruction)))
				}
			}
			sort.Strings(offenders)
			if len(offenders) > 0 {
				bad = append(bad, "the text parameter is the format string of "+name+" at "+p.InstrPos(call)+" and is given message lines at "+strings.Join(offenders, ", ")+": every '%' in a message line is rewritten")
			} else {
				written = true
			}
			return
		}
		switch name {
		case "fmt.Fprint", "fmt.Fprintf", "io.WriteString", "(*bufio.Writer).WriteString", "(*bufio.Writer).Write", "(*net/textproto.Writer).PrintfLine":
			for i, a := range call.Call.Args {
				if i > 0 && derived[a] {
					written = true
				}
			}
		default:
			if call.Call.IsInvoke() && call.Call.Method.Name() == "Write" {
				for _, a := range call.Call.Args {
					if derived[a] {
						written = true
					}
				}
			}
		}
	})
	sort.Strings(bad)
	switch {
	case len(bad) > 0:
		r.Bad("C02/POP3/lines", cons, p.Pos(send.Pos()), "%s", strings.Join(bad, "; "))
	case !written:
		r.Undecided("C02/POP3/lines", cons, p.Pos(send.Pos()), "cannot see the text parameter (or text+constant) being written to the connection: it may be transformed on the way")
	default:
		r.Ok("C02/POP3/lines", cons, p.Pos(send.Pos()), "the text parameter is written to the connection unchanged apart from a constant line ending")
	}
}

// stuffingShape: the values returned by helper g for a line parameter are the line itself
// or "."+line, the latter exactly under strings.HasPrefix(line, "."). Returns a complaint or "".
func stuffingShape(rets []ssa.Value, line *ssa.Parameter, g *ssa.Function) string {
	stuffed := false
	var check func(v ssa.Value, at *ssa.BasicBlock) string
	check = func(v ssa.Value, at *ssa.BasicBlock) string {
		if v == ssa.Value(line) {
			return ""
		}
		if ph, ok := v.(*ssa.Phi); ok {
			for i, e := range ph.Edges {
				if w := check(e, ph.Block().Preds[i]); w != "" {
					return w
				}
			}
			return ""
		}
		b, ok := v.(*ssa.BinOp)
		if !ok || b.Op != token.ADD || b.Y != ssa.Value(line) {
			return "unexpected line transformation"
		}
		if s, isC := eng.ConstString(b.X); !isC || s != "." {
			return "stuffing prefix is not \".\""
		}
		under := false
		for _, bb := range g.Blocks {
			for k := 0; k < len(bb.Succs) && len(bb.Succs) == 2; k++ {
				cv, pol, ok := eng.CondTruth(bb, k)
				if !ok || !pol || !(eng.EdgeDominates(bb, k, at) || bb.Succs[k] == at) {
					continue
				}
				if hc, ok := cv.(*ssa.Call); ok && eng.CalleeName(hc.Common()) == "strings.HasPrefix" && hc.Call.Args[0] == ssa.Value(line) {
					if s, isC := eng.ConstString(hc.Call.Args[1]); isC && s == "." {
						under = true
					}
				}
			}
		}
		if !under {
			return "'.'+line is not selected by strings.HasPrefix(line, \".\")"
		}
		stuffed = true
		return ""
	}
	for _, rv := range rets {
		var at *ssa.BasicBlock
		if in, ok := rv.(ssa.Instruction); ok {
			at = in.Block()
		}
		if w := check(rv, at); w != "" {
			return w
		}
	}
	if !stuffed {
		return "no dot-stuffed alternative for the sent line"
	}
	return ""
}

// derivesFromScannerText: v is (*bufio.Scanner).Text(), possibly prefixed/suffixed by
// constants or merged by a phi.
func derivesFromScannerText(v ssa.Value, depth int) bool {
	if depth > 5 {
		return false
	}
	switch x := v.(type) {
	case *ssa.Call:
		return eng.CalleeName(x.Common()) == "(*bufio.Scanner).Text"
	case *ssa.BinOp:
		return x.Op == token.ADD && (derivesFromScannerText(x.X, depth+1) || derivesFromScannerText(x.Y, depth+1))
	case *ssa.Phi:
		for _, e := range x.Edges {
			if derivesFromScannerText(e, depth+1) {
				return true
			}
		}
	}
	return false
}

// isFreshEmptySlice: make([]byte, 0, …) or []byte{}.
func isFreshEmptySlice(v ssa.Value) bool {
	switch x := v.(type) {
	case *ssa.MakeSlice:
		k, ok := eng.ConstInt(x.Len)
		return ok && k == 0
	case *ssa.Slice:
		if al, ok := x.X.(*ssa.Alloc); ok {
			return strings.HasPrefix(eng.ShortType(al.Type()), "*[0]")
		}
	}
	return false
}

// derivesFromValue: v is built from w (through string concatenation, phis, conversions or calls
// that take it as an argument).
func derivesFromValue(v, w ssa.Value, depth int) bool {
	if v == w {
		return true
	}
	if depth > 6 {
		return false
	}
	switch x := v.(type) {
	case *ssa.BinOp:
		return derivesFromValue(x.X, w, depth+1) || derivesFromValue(x.Y, w, depth+1)
	case *ssa.Phi:
		for _, e := range x.Edges {
			if derivesFromValue(e, w, depth+1) {
				return true
			}
		}
	case *ssa.Convert:
		return derivesFromValue(x.X, w, depth+1)
	case *ssa.ChangeType:
		return derivesFromValue(x.X, w, depth+1)
	case *ssa.MakeInterface:
		return derivesFromValue(x.X, w, depth+1)
	case *ssa.Slice:
		return derivesFromValue(x.X, w, depth+1)
	case *ssa.Call:
		for _, a := range x.Call.Args {
			if derivesFromValue(a, w, depth+1) {
				return true
			}
		}
	}
	return false
}
