// Package rules holds the per-property obligations. Each rule file registers one function
// per property; rules are built only from eng primitives over the resolved program.
package rules

import (
	"runtime"
	"sort"
	"strings"
	"time"

	"ibcheck/eng"
	"ibcheck/rep"
)

// Ctx is what a property check receives.
type Ctx struct {
	P    *eng.Prog
	R    *rep.Report
	Tier string
	// errLenient: see errFate (set while the HTTP handlers' error handling is examined)
	errLenient bool
	// idxOnlyLenMinus: parserIndex decides only the len(x)-k clause (packages whose fixed-position
	// slices are of values with a length the type system does not show, such as a hex digest)
	idxOnlyLenMinus bool
}

// Registry maps property ids to their checks.
var Registry = map[string]func(*Ctx){}

// Props lists registered property ids in order.
func Props() []string {
	var out []string
	for k := range Registry {
		out = append(out, k)
	}
	sort.Strings(out)
	return out
}

// finishAnchors turns unresolved anchors into a failed (undecided) obligation.
func (c *Ctx) finishAnchors() {
	seen := map[string]bool{}
	for _, u := range c.P.Unresolved {
		if !seen[u] {
			seen[u] = true
			c.R.Fatal("UNRESOLVED anchor=%s", u)
		}
	}
	c.P.Unresolved = nil
}

// Run executes the check for prop.
func Run(prop string, c *Ctx) bool {
	f, ok := Registry[prop]
	if !ok {
		return false
	}
	paramActual = c.P.Actual
	eng.SliceActuals = c.P.ActualsOf
	// a rule that panics on code it does not expect must fail its property, not the process:
	// the evidence is still written and the other properties still run
	func() {
		defer func() {
			if x := recover(); x != nil {
				buf := make([]byte, 4096)
				buf = buf[:runtime.Stack(buf, false)]
				c.R.Fatal("CHECKER-PANIC %v — the rule set met code it cannot analyse; stack: %s", x, firstFrames(string(buf)))
			}
		}()
		f(c)
	}()
	c.finishAnchors()
	return true
}

// firstFrames keeps the rule-file frames of a stack trace.
func firstFrames(st string) string {
	var out []string
	for _, ln := range strings.Split(st, "\n") {
		ln = strings.TrimSpace(ln)
		if strings.Contains(ln, "/ibcheck/rules/") && strings.Contains(ln, ".go:") {
			out = append(out, ln)
		}
		if len(out) >= 3 {
			break
		}
	}
	return strings.Join(out, " <- ")
}

// borrow runs part of another property's rule set on a scratch report and imports the
// obligations whose key has the given prefix under a rule id of the current property: a
// necessary condition shared by two properties is decided once and claimed by both, so that
// each property's own check reports a change that breaks it.
func (c *Ctx) borrow(run func(*Ctx), fromPrefix, toRule, ruleText string) int {
	scratch := rep.New(c.R.Prop, c.R.Tier, c.R.VerifDir, time.Now())
	scratch.Quiet = true
	c2 := &Ctx{P: c.P, R: scratch, Tier: c.Tier}
	func() {
		defer func() {
			if x := recover(); x != nil {
				c.R.Fatal("CHECKER-PANIC in borrowed clause %s: %v", fromPrefix, x)
			}
		}()
		run(c2)
	}()
	c.R.Rule(toRule, ruleText)
	n := 0
	for _, o := range scratch.Obs {
		if !strings.HasPrefix(o.Key, fromPrefix) {
			continue
		}
		n++
		construct := strings.TrimPrefix(strings.TrimPrefix(o.Key, fromPrefix), "/")
		switch o.Outcome {
		case rep.Discharged:
			c.R.Ok(toRule, construct, o.Site, "%s", o.Detail)
		case rep.Violated:
			c.R.Bad(toRule, construct, o.Site, "%s", o.Detail)
		default:
			c.R.Undecided(toRule, construct, o.Site, "%s", o.Detail)
		}
	}
	return n
}
