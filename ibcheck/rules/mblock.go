package rules

import (
	"go/token"
	"go/types"

	"golang.org/x/tools/go/ssa"

	"ibcheck/eng"
)

// mbLockModel describes how mem.Store.withMailbox takes the per-mailbox lock, independent of
// whether the Lock/RLock calls sit in withMailbox itself or in a helper it calls
// (`defer mb.acquire(mode)()`), and of how the requested mode is encoded (a bool, or a named
// constant).
type mbLockModel struct {
	withMailbox *ssa.Function
	fMbMu       *types.Var
	ops         lockOps
	// acquirers: helpers every path of which takes the mailbox lock (and does not release it)
	acquirers map[*ssa.Function]bool
	// releasers: acquirers whose every returned value is a method value releasing that lock
	releasers map[*ssa.Function]bool
	// mode parameter of withMailbox and the argument value that requests the write lock
	modeIdx    int
	writeBool  *bool
	writeConst *int64
	problem    string
}

func (c *Ctx) mbLocks(withMailbox *ssa.Function, fMbMu *types.Var) *mbLockModel {
	p := c.P
	m := &mbLockModel{withMailbox: withMailbox, fMbMu: fMbMu, ops: opsFor(fMbMu), acquirers: map[*ssa.Function]bool{}, releasers: map[*ssa.Function]bool{}, modeIdx: -1}
	var fns []*ssa.Function
	for g := range p.SyncReach(withMailbox) {
		if eng.FuncPkgPath(g) == eng.FuncPkgPath(withMailbox) && g != withMailbox && g.Parent() == nil {
			fns = append(fns, g)
		}
	}
	sortFuncs(fns)
	for _, g := range fns {
		has := false
		eng.EachInstr(g, func(in ssa.Instruction) {
			if m.ops.isAcq(in) {
				has = true
			}
		})
		if !has {
			continue
		}
		rel := false
		eng.EachInstr(g, func(in ssa.Instruction) {
			if m.ops.isRel(in) {
				rel = true
			}
		})
		if rel {
			continue
		}
		if (&eng.Search{Target: eng.IsReturnOf(g), Avoid: m.ops.isAcq}).FromEntry(g) == nil {
			m.acquirers[g] = true
			// returned values: bound Unlock/RUnlock of the same mutex
			all, n := true, 0
			eng.EachInstr(g, func(in ssa.Instruction) {
				ret, ok := in.(*ssa.Return)
				if !ok {
					return
				}
				for _, rv := range eng.ReturnResults(ret) {
					n++
					if !m.isReleaseValue(rv) {
						all = false
					}
				}
			})
			if all && n > 0 {
				m.releasers[g] = true
			}
		}
	}
	// mode encoding: the write acquisition is dominated by an edge on a value that derives
	// from withMailbox's mode parameter
	for _, g := range append([]*ssa.Function{withMailbox}, fns...) {
		g := g
		eng.EachInstr(g, func(in ssa.Instruction) {
			if !m.ops.isWriteAcq(in) {
				return
			}
			for _, b := range g.Blocks {
				for k := 0; k < len(b.Succs) && len(b.Succs) == 2; k++ {
					if !eng.EdgeDominates(b, k, in.Block()) {
						continue
					}
					if v, pol, ok := eng.CondTruth(b, k); ok {
						if idx := m.modeParamOf(p, v); idx >= 0 {
							if bt, isB := v.Type().Underlying().(*types.Basic); isB && bt.Kind() == types.Bool {
								pp := pol
								m.modeIdx, m.writeBool = idx, &pp
							}
						}
					}
					if rel, ok := eng.EdgeRel(b, k); ok && rel.Op == token.EQL {
						if kk, isC := eng.ConstInt(rel.Y); isC {
							if idx := m.modeParamOf(p, rel.X); idx >= 0 {
								k2 := kk
								m.modeIdx, m.writeConst = idx, &k2
							}
						}
					}
				}
			}
		})
	}
	if m.modeIdx < 0 {
		// the side of the lock chosen as a sync.Locker value: l := Locker(mb); if !write { l = mb.RLocker() }
		for _, g := range append([]*ssa.Function{withMailbox}, fns...) {
			g := g
			eng.EachInstr(g, func(in ssa.Instruction) {
				if !m.ops.isAcq(in) {
					return
				}
				m.lockerEdges(p, in, func(kind string, v ssa.Value, pol bool) {
					idx := m.modeParamOf(p, v)
					if idx < 0 || kind != "lock" {
						return
					}
					if bt, isB := v.Type().Underlying().(*types.Basic); isB && bt.Kind() == types.Bool {
						pp := pol
						m.modeIdx, m.writeBool = idx, &pp
					}
				})
			})
		}
	}
	if m.modeIdx < 0 {
		m.problem = "the write acquisition of the mailbox lock is not selected by a parameter of withMailbox"
	}
	return m
}

// lockerEdges: for an acquisition through a sync.Locker phi, reports for each operand of the
// phi its kind ("lock" for the struct itself, "rlock" for RLocker()) and the boolean condition
// (value, polarity) under which that operand is the one selected.
func (m *mbLockModel) lockerEdges(p *eng.Prog, in ssa.Instruction, report func(kind string, cond ssa.Value, pol bool)) bool {
	call, ok := in.(*ssa.Call)
	if !ok || !call.Call.IsInvoke() {
		return false
	}
	if f, _ := lockerKinds(call.Common()); f == nil {
		return false
	}
	ph, ok := call.Call.Value.(*ssa.Phi)
	if !ok {
		return false
	}
	for i, e := range ph.Edges {
		kind := ""
		switch x := e.(type) {
		case *ssa.MakeInterface:
			kind = "lock"
		case *ssa.Call:
			if eng.CalleeName(x.Common()) == "(*sync.RWMutex).RLocker" {
				kind = "rlock"
			}
		}
		if kind == "" || i >= len(ph.Block().Preds) {
			continue
		}
		pred := ph.Block().Preds[i]
		fn := ph.Parent()
		for _, b := range fn.Blocks {
			for k := 0; k < len(b.Succs) && len(b.Succs) == 2; k++ {
				direct := b == pred && b.Succs[k] == ph.Block()
				if !direct && !(eng.EdgeDominates(b, k, pred) && b != pred) {
					continue
				}
				if direct && b.Succs[0] == b.Succs[1] {
					continue
				}
				if v, pol, ok := eng.CondTruth(b, k); ok {
					report(kind, v, pol)
				}
			}
		}
	}
	return true
}

// modeParamOf: v derives from a parameter of withMailbox (directly, through its cell, or as
// the parameter of a helper that receives it); returns the index in withMailbox's Params.
func (m *mbLockModel) modeParamOf(p *eng.Prog, v ssa.Value) int {
	v = eng.StripConv(v)
	for hop := 0; hop < 4; hop++ {
		if ad := eng.LoadAddr(v); ad != nil {
			if cell := eng.CellOf(ad); cell != nil {
				sts := eng.CellStores(cell)
				if len(sts) == 1 {
					v = eng.StripConv(sts[0].Val)
					continue
				}
			}
		}
		break
	}
	prm, ok := v.(*ssa.Parameter)
	if !ok {
		return -1
	}
	if prm.Parent() != m.withMailbox {
		a := p.Actual(prm)
		ap, ok := eng.StripConv(a).(*ssa.Parameter)
		if !ok || ap.Parent() != m.withMailbox {
			return -1
		}
		prm = ap
	}
	return eng.ParamIndex(prm)
}

// isReleaseValue: v is the method value mb.Unlock / mb.RUnlock of the mailbox mutex.
func (m *mbLockModel) isReleaseValue(v ssa.Value) bool {
	mc, ok := v.(*ssa.MakeClosure)
	if !ok {
		return false
	}
	g, _ := mc.Fn.(*ssa.Function)
	if g == nil || len(mc.Bindings) != 1 {
		return false
	}
	rel := false
	eng.EachInstr(g, func(in ssa.Instruction) {
		if call, ok := in.(*ssa.Call); ok {
			switch eng.CalleeName(call.Common()) {
			case "(*sync.RWMutex).Unlock", "(*sync.RWMutex).RUnlock", "(*sync.Mutex).Unlock":
				rel = true
			}
		}
	})
	if !rel {
		return false
	}
	return eng.SameField(mutexField(mc.Bindings[0]), m.fMbMu) || mutexOfBinding(mc.Bindings[0], m.fMbMu)
}

// mutexOfBinding: the bound receiver is the embedded mutex of the mailbox (loaded pointer
// field or address of the embedded field).
func mutexOfBinding(v ssa.Value, f *types.Var) bool {
	if eng.SameField(eng.LoadedField(v), f) {
		return true
	}
	if fa, ok := v.(*ssa.FieldAddr); ok {
		return eng.SameField(eng.FieldOfAddr(fa), f)
	}
	return false
}

// isAcq: a direct acquisition or a call of an acquiring helper.
func (m *mbLockModel) isAcq(in ssa.Instruction) bool {
	if m.ops.isAcq(in) {
		return true
	}
	if call, ok := in.(*ssa.Call); ok {
		if g := eng.StaticCallee(call.Common()); g != nil && m.acquirers[g] {
			return true
		}
	}
	return false
}

// deferredRelease: withMailbox defers a release of the mailbox lock: a deferred Unlock/RUnlock
// (direct or inside a deferred closure), or a deferred call of the value an acquirer returned.
func (m *mbLockModel) deferredRelease() bool {
	for _, d := range eng.Defers(m.withMailbox) {
		if g := eng.StaticCallee(d.Common()); g != nil {
			rel := false
			eng.EachInstr(g, func(in ssa.Instruction) {
				if k, recv := lockCallKind(in); (k == "unlock" || k == "runlock") && eng.SameField(mutexField(recv), m.fMbMu) {
					rel = true
				}
			})
			if rel {
				return true
			}
		}
		if k, recv := lockCallKind(d); (k == "unlock" || k == "runlock") && eng.SameField(mutexField(recv), m.fMbMu) {
			return true
		}
		if call, ok := d.Call.Value.(*ssa.Call); ok {
			if g := eng.StaticCallee(call.Common()); g != nil && m.releasers[g] {
				return true
			}
		}
		// `defer l.Unlock()` on the sync.Locker the lock was taken through: the same value,
		// hence the same side of the mailbox lock
		if f, kinds := lockerKinds(d.Common()); f != nil && eng.SameField(f, m.fMbMu) && (kinds["unlock"] || kinds["runlock"]) {
			same := false
			eng.EachInstr(m.withMailbox, func(in ssa.Instruction) {
				if call, ok := in.(*ssa.Call); ok && call.Common().IsInvoke() && call.Common().Method.Name() == "Lock" && call.Common().Value == d.Call.Value {
					same = true
				}
			})
			if same {
				return true
			}
		}
	}
	return false
}

// argMode classifies the mode argument of one withMailbox call: "w", "r" or "?".
func (m *mbLockModel) argMode(args []ssa.Value) string {
	if m.modeIdx < 0 || m.modeIdx >= len(args) {
		return "?"
	}
	a := args[m.modeIdx]
	if m.writeBool != nil {
		if b, isC := eng.ConstBool(a); isC {
			if b == *m.writeBool {
				return "w"
			}
			return "r"
		}
		return "?"
	}
	if m.writeConst != nil {
		if k, isC := eng.ConstInt(a); isC {
			if k == *m.writeConst {
				return "w"
			}
			return "r"
		}
	}
	return "?"
}
