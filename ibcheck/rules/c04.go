package rules

import (
	"fmt"
	"go/token"
	"go/types"
	"sort"
	"strings"

	"golang.org/x/tools/go/ssa"

	"ibcheck/eng"
)

func init() { Registry["C04"] = checkC04 }

type strAn struct {
	substStack []map[*ssa.Parameter]ssa.Value
	c          *Ctx
	normFn     map[string]bool
	memoN      map[ssa.Value]int // 1 true 2 false 3 in progress
	// parameters known non-empty in the current interprocedural context (actual argument
	// proved non-empty at the call site)
	prmNE map[*ssa.Parameter]bool
}

func isString(t types.Type) bool {
	b, ok := t.Underlying().(*types.Basic)
	return ok && b.Info()&types.IsString != 0
}

// successReturns lists the returns of fn that may report success: the error result (last) is not
// certainly set (or fn has no error result), excluding the recover block.
func successReturns(fn *ssa.Function) []*ssa.Return {
	var out []*ssa.Return
	eng.EachInstr(fn, func(in ssa.Instruction) {
		ret, ok := in.(*ssa.Return)
		if !ok || eng.IsRecoverBlock(ret.Block()) {
			return
		}
		res := eng.ReturnResults(ret)
		if n := len(res); n > 0 {
			last := res[n-1]
			// a return whose error is certainly set is a failure; one whose error is not known
			// (return split(address): whatever the callee said) may be a success
			if types.Identical(last.Type(), types.Universe.Lookup("error").Type()) && !eng.IsNilConst(last) && !eng.KnownNil(last, ret.Block()) &&
				(definitelyNonNilErr(last) || eng.KnownNonNil(last, ret.Block())) {
				return
			}
		}
		out = append(out, ret)
	})
	return out
}

// caseNormalised: every flow into v from raw input passes a case normaliser. why names the
// first raw source found.
func (a *strAn) caseNormalised(v ssa.Value, depth int) (bool, string) {
	if depth > 14 {
		return false, "flow too deep"
	}
	switch x := v.(type) {
	case *ssa.Const:
		return true, ""
	case *ssa.Parameter:
		// inside a callee that is being judged for one particular call: the parameter stands for
		// the argument of that call (every parameter that reaches the result is followed, not
		// only the first one met)
		if n := len(a.substStack); n > 0 {
			if arg, has := a.substStack[n-1][x]; has {
				top := a.substStack[n-1]
				a.substStack = a.substStack[:n-1]
				ok, why := a.caseNormalised(arg, depth+1)
				a.substStack = append(a.substStack, top)
				return ok, why
			}
		}
		return false, "parameter " + x.Name() + " of " + shortFn(x.Parent()) + " reaches the result without a case normaliser"
	case *ssa.Call:
		name := eng.CalleeName(x.Common())
		switch name {
		case "strings.ToLower", "strings.ToUpper", "strings.Map", "strings.ToLowerSpecial":
			return true, ""
		case "strings.TrimSpace", "strings.Trim", "strings.TrimRight", "strings.TrimLeft", "strings.TrimPrefix", "strings.TrimSuffix":
			return a.caseNormalised(x.Call.Args[0], depth+1)
		case "(*bytes.Buffer).String", "(*strings.Builder).String":
			return false, name + " of raw bytes"
		}
		g := eng.StaticCallee(x.Common())
		if g != nil && eng.InModule(g) && g.Blocks != nil {
			return a.resultNormalised(g, 0, x, depth+1)
		}
		return false, "result of " + name + " is not known to be case-normalised"
	case *ssa.Extract:
		if call, ok := x.Tuple.(*ssa.Call); ok {
			if g := eng.StaticCallee(call.Common()); g != nil && eng.InModule(g) && g.Blocks != nil {
				return a.resultNormalised(g, x.Index, call, depth+1)
			}
			switch eng.CalleeName(call.Common()) {
			case "strings.Cut", "strings.CutPrefix", "strings.CutSuffix":
				if x.Index <= 1 && isString(x.Type()) {
					return a.caseNormalised(call.Call.Args[0], depth+1) // a substring of the argument
				}
			}
			return false, "result of " + eng.CalleeName(call.Common())
		}
		return false, "extract"
	case *ssa.BinOp:
		if x.Op == token.ADD {
			if ok, why := a.caseNormalised(x.X, depth+1); !ok {
				return false, why
			}
			return a.caseNormalised(x.Y, depth+1)
		}
	case *ssa.Slice:
		return a.caseNormalised(x.X, depth+1)
	case *ssa.Phi:
		dead := eng.PhiDeadEdges(x)
		for i, e := range x.Edges {
			if e == v || dead[i] {
				continue
			}
			if ok, why := a.caseNormalised(e, depth+1); !ok {
				return false, why
			}
		}
		return true, ""
	case *ssa.UnOp:
		if ad := eng.LoadAddr(v); ad != nil {
			if cell := eng.CellOf(ad); cell != nil && !eng.CellEscapes(cell) {
				for _, st := range eng.CellStores(cell) {
					if ok, why := a.caseNormalised(st.Val, depth+1); !ok {
						return false, why
					}
				}
				return true, ""
			}
		}
	}
	return false, "unclassified string source " + v.String()
}

// resultNormalised: result #idx of g is case-normalised at every success return, treating
// g's parameters as raw unless the actual argument at the call is itself normalised.
func (a *strAn) resultNormalised(g *ssa.Function, idx int, call *ssa.Call, depth int) (bool, string) {
	if call != nil {
		sub := map[*ssa.Parameter]ssa.Value{}
		for i, prm := range g.Params {
			if i < len(call.Call.Args) {
				sub[prm] = call.Call.Args[i]
			}
		}
		a.substStack = append(a.substStack, sub)
		defer func() { a.substStack = a.substStack[:len(a.substStack)-1] }()
	}
	for _, ret := range successReturns(g) {
		res := eng.ReturnResults(ret)
		if idx >= len(res) {
			continue
		}
		ok, why := a.caseNormalised(res[idx], depth+1)
		if ok {
			continue
		}
		// a parameter of g reached the result: is the actual argument normalised?
		if strings.HasPrefix(why, "parameter ") && call != nil {
			allArgs := true
			for i, prm := range g.Params {
				if strings.HasPrefix(why, "parameter "+prm.Name()+" of "+shortFn(g)) && i < len(call.Call.Args) {
					if ok2, _ := a.caseNormalised(call.Call.Args[i], depth+1); !ok2 {
						allArgs = false
					}
				}
			}
			if allArgs && strings.Contains(why, "of "+shortFn(g)+" ") {
				continue
			}
		}
		return false, why + " (return at " + a.c.P.InstrPos(ret) + ")"
	}
	return true, ""
}

// nonEmpty: string v is provably non-empty when evaluated in block at.
func (a *strAn) nonEmpty(v ssa.Value, at *ssa.BasicBlock, depth int) bool {
	if depth > 12 {
		return false
	}
	if guardedNonEmpty(v, at) {
		return true
	}
	switch x := v.(type) {
	case *ssa.Const:
		s, ok := eng.ConstString(x)
		return ok && s != ""
	case *ssa.Parameter:
		return a.prmNE[x]
	case *ssa.BinOp:
		if x.Op == token.ADD {
			return a.nonEmpty(x.X, at, depth+1) || a.nonEmpty(x.Y, at, depth+1)
		}
	case *ssa.Call:
		switch eng.CalleeName(x.Common()) {
		case "strings.ToLower", "strings.ToUpper":
			return a.nonEmpty(x.Call.Args[0], x.Block(), depth+1) || a.nonEmpty(x.Call.Args[0], at, depth+1)
		}
		if g := eng.StaticCallee(x.Common()); g != nil && eng.InModule(g) && g.Blocks != nil {
			return a.resultNonEmpty(g, 0, x, depth+1)
		}
	case *ssa.Extract:
		if call, ok := x.Tuple.(*ssa.Call); ok {
			if g := eng.StaticCallee(call.Common()); g != nil && eng.InModule(g) && g.Blocks != nil {
				return a.resultNonEmpty(g, x.Index, call, depth+1)
			}
		}
	case *ssa.Phi:
		dead := eng.PhiDeadEdges(x)
		for i, e := range x.Edges {
			if e == v || dead[i] {
				continue
			}
			if !a.nonEmpty(e, x.Block().Preds[i], depth+1) {
				return false
			}
		}
		return true
	case *ssa.UnOp:
		if ad := eng.LoadAddr(v); ad != nil {
			if cell := eng.CellOf(ad); cell != nil && !eng.CellEscapes(cell) {
				sts := eng.CellStores(cell)
				for _, st := range sts {
					if !a.nonEmpty(st.Val, st.Block(), depth+1) {
						return false
					}
				}
				return len(sts) > 0
			}
		}
	}
	return false
}

// resultNonEmpty: result #idx of g is non-empty at every success return; a result that is
// g's own parameter is non-empty if the actual argument is (at the call).
func (a *strAn) resultNonEmpty(g *ssa.Function, idx int, call *ssa.Call, depth int) bool {
	rets := successReturns(g)
	if len(rets) == 0 {
		return false
	}
	if call != nil {
		if a.prmNE == nil {
			a.prmNE = map[*ssa.Parameter]bool{}
		}
		for i, q := range g.Params {
			if i < len(call.Call.Args) && isString(q.Type()) && a.nonEmpty(call.Call.Args[i], call.Block(), depth+1) {
				a.prmNE[q] = true
				defer delete(a.prmNE, q)
			}
		}
	}
	for _, ret := range rets {
		res := eng.ReturnResults(ret)
		if idx >= len(res) {
			return false
		}
		v := res[idx]
		if a.nonEmpty(v, ret.Block(), depth+1) {
			continue
		}
		if prm, ok := v.(*ssa.Parameter); ok && call != nil {
			for i, q := range g.Params {
				if q == prm && i < len(call.Call.Args) && a.nonEmpty(call.Call.Args[i], call.Block(), depth+1) {
					goto next
				}
			}
		}
		return false
	next:
	}
	return true
}

// guardedNonEmpty: a dominating edge proves v != "" / len(v) > 0, or a validator call on v
// returned true where the validator's true returns imply a non-empty argument.
func guardedNonEmpty(v ssa.Value, at *ssa.BasicBlock) bool {
	if at == nil {
		return false
	}
	for _, b := range at.Parent().Blocks {
		if len(b.Succs) != 2 {
			continue
		}
		for k := 0; k < 2; k++ {
			if !eng.EdgeDominates(b, k, at) {
				continue
			}
			if r, ok := eng.EdgeRel(b, k); ok {
				x, y := r.X, r.Y
				if s, isC := eng.ConstString(x); isC && s == "" {
					x, y = y, x
				}
				if s, isC := eng.ConstString(y); isC && s == "" && x == v && r.Op == token.NEQ {
					return true
				}
				// len(v) != 0, len(v) > 0, len(v) >= 1
				lx := eng.LenOf(r.X)
				if lx == v {
					if kk, isC := eng.ConstInt(r.Y); isC {
						if (r.Op == token.NEQ && kk == 0) || (r.Op == token.GTR && kk >= 0) || (r.Op == token.GEQ && kk >= 1) {
							return true
						}
					}
				}
			}
			// validator(v) true
			cv, pol, ok := eng.CondTruth(b, k)
			if !ok || !pol {
				continue
			}
			call, ok := cv.(*ssa.Call)
			if !ok {
				continue
			}
			g := eng.StaticCallee(call.Common())
			if g == nil || !eng.InModule(g) || g.Blocks == nil {
				continue
			}
			for i, arg := range call.Call.Args {
				if arg == v && i < len(g.Params) && trueImpliesNonEmpty(g, g.Params[i]) {
					return true
				}
			}
		}
	}
	return false
}

// trueImpliesNonEmpty: every return of g that may be true is dominated by a proof that
// param is non-empty.
func trueImpliesNonEmpty(g *ssa.Function, prm *ssa.Parameter) bool {
	okAll, n := true, 0
	eng.EachInstr(g, func(in ssa.Instruction) {
		ret, ok := in.(*ssa.Return)
		if !ok || len(eng.ReturnResults(ret)) != 1 {
			return
		}
		if b, isC := eng.ConstBool(eng.ReturnResults(ret)[0]); isC && !b {
			return
		}
		n++
		if !guardedNonEmpty(prm, ret.Block()) && !lenGuarded(g, prm, ret.Block()) {
			okAll = false
		}
	})
	return okAll && n > 0
}

// lenGuarded: `ln := len(prm); if ln == 0 { return false }` — the length is held in a
// separate value.
func lenGuarded(g *ssa.Function, prm *ssa.Parameter, at *ssa.BasicBlock) bool {
	for _, b := range g.Blocks {
		if len(b.Succs) != 2 {
			continue
		}
		for k := 0; k < 2; k++ {
			r, ok := eng.EdgeRel(b, k)
			if !ok || !eng.EdgeDominates(b, k, at) {
				continue
			}
			if eng.LenOf(r.X) == ssa.Value(prm) {
				if kk, isC := eng.ConstInt(r.Y); isC && ((r.Op == token.NEQ && kk == 0) || (r.Op == token.GTR && kk >= 0) || (r.Op == token.GEQ && kk >= 1)) {
					return true
				}
			}
		}
	}
	return false
}

func checkC04(c *Ctx) {
	r, p := c.R, c.P
	r.Explanation = "Decides the naming plumbing: (D1) one authority — StoreManager.MailboxForAddress returns Addressing.ExtractMailbox unchanged, Recipient.Mailbox is written only in NewRecipient from ExtractMailbox of the same address, and every mailbox argument of a Manager method (and of the socket listeners) in pkg/rest and pkg/webui flows from MailboxForAddress, so receive path and read interfaces compute the name with the same function; (D2) must-sanitise: every value-flow path from the address parameter to a successfully returned name passes a case normaliser (strings.ToLower/ToUpper/Map), interprocedurally through the module's helpers; (D3) an emptiness domain over SSA strings proves every successful result of the naming functions (and of the local-part canonicaliser they all use) non-empty: constant non-empty concatenand, ToLower of non-empty, dominating != \"\" / len>0 guard, or a validator whose every true return implies a non-empty argument; a slice expression resets to maybe-empty."
	r.NotDecided = []string{"idempotence for every string (fixed point of the naming function)", "quoting/escaping corner cases and '+' placement", "validator correctness", "POP3 (its USER argument is the mailbox name verbatim; not an anchored interface of C04)"}
	r.Assumptions = []string{"strings.ToLower is a case normaliser for the ASCII names the validators admit"}
	r.Rule("C04/ONE-AUTHORITY", "MailboxForAddress = ExtractMailbox unchanged; Recipient.Mailbox has a single writer (NewRecipient) fed by ExtractMailbox(address); handler mailbox arguments flow from MailboxForAddress")
	r.Rule("C04/CASE", "every flow from the address parameter to a successfully returned mailbox name passes a case normaliser")
	r.Rule("C04/NONEMPTY", "every success return of the naming functions yields a provably non-empty name (and a non-empty local-part base name)")
	extract := p.Method("pkg/policy", "Addressing", "ExtractMailbox")
	mbfa := p.Method("pkg/message", "StoreManager", "MailboxForAddress")
	newRecip := p.Method("pkg/policy", "Addressing", "NewRecipient")
	c.c04ReceiveVerbatim(newRecip)
	fMailbox := p.Field("pkg/policy", "Recipient", "Mailbox")
	mbfaObj := p.MethodObj("pkg/message", "Manager", "MailboxForAddress")
	mgr := p.Named("pkg/message", "Manager")
	if extract == nil || mbfa == nil || newRecip == nil || fMailbox == nil || mbfaObj == nil || mgr == nil {
		return
	}
	// D1(b)
	okB := true
	for _, ret := range successReturns(mbfa) {
		res := eng.ReturnResults(ret)
		e, ok := res[0].(*ssa.Extract)
		if !ok {
			okB = false
			continue
		}
		call, ok := e.Tuple.(*ssa.Call)
		if !ok || eng.StaticCallee(call.Common()) != extract {
			okB = false
			continue
		}
		if _, isParam := call.Call.Args[len(call.Call.Args)-1].(*ssa.Parameter); !isParam {
			okB = false
		}
	}
	// any return at all
	anyRet := false
	eng.EachInstr(mbfa, func(in ssa.Instruction) {
		if ret, ok := in.(*ssa.Return); ok {
			anyRet = true
			res := eng.ReturnResults(ret)
			if e, ok := res[0].(*ssa.Extract); ok {
				if call, ok := e.Tuple.(*ssa.Call); ok && eng.StaticCallee(call.Common()) == extract {
					return
				}
			}
			if s, isC := eng.ConstString(res[0]); isC && s == "" {
				return
			}
			okB = false
		}
	})
	r.Check(okB && anyRet, "C04/ONE-AUTHORITY", "MailboxForAddress", p.Pos(mbfa.Pos()), "returns Addressing.ExtractMailbox(address) unchanged", "StoreManager.MailboxForAddress no longer returns ExtractMailbox of its argument unchanged: read interfaces would compute a different name than delivery")
	// D1(c)
	sts := eng.StoresToField(p.Funcs, fMailbox)
	var prod []eng.FieldStore
	for _, s := range sts {
		if !p.IsTestSupport(s.Fn) {
			prod = append(prod, s)
		}
	}
	okC := len(prod) == 1 && prod[0].Fn == newRecip
	detail := ""
	if okC {
		e, ok := prod[0].Store.Val.(*ssa.Extract)
		okC = false
		if ok {
			if call, ok := e.Tuple.(*ssa.Call); ok && eng.StaticCallee(call.Common()) == extract && e.Index == 0 {
				if prm, isParam := call.Call.Args[len(call.Call.Args)-1].(*ssa.Parameter); isParam && prm.Parent() == newRecip {
					okC = true
				}
			}
		}
		if !okC {
			detail = "Recipient.Mailbox is not the result of ExtractMailbox(address) of NewRecipient's own address parameter"
		}
	} else {
		detail = "Recipient.Mailbox must have exactly one writer, in NewRecipient"
	}
	site := ""
	if len(prod) > 0 {
		site = p.InstrPos(prod[0].Store)
	}
	r.Check(okC, "C04/ONE-AUTHORITY", "Recipient.Mailbox", site, "single writer in NewRecipient, value = ExtractMailbox(address)", detail)
	// D1(a)
	handlers := c.webHandlers()
	c.R.Rule("C14/NAME", "mailbox-name arguments of Manager methods in pkg/rest and pkg/webui flow from the result of Manager.MailboxForAddress")
	c.c04Handlers(handlers, mgr, mbfaObj)
	c.c04URLVars(handlers, mbfaObj)

	// D2 / D3 over the naming functions
	an := &strAn{c: c}
	naming := []*ssa.Function{extract}
	if f := p.Func("pkg/policy", "extractDomainMailbox"); f != nil {
		naming = append(naming, f)
	}
	local := p.Func("pkg/policy", "parseMailboxName")
	// a naming function may end in `return helper(...)`: the helper's success returns are then
	// naming results too
	passThrough := map[*ssa.Return]bool{}
	for i := 0; i < len(naming); i++ {
		fn := naming[i]
		eng.EachInstr(fn, func(in ssa.Instruction) {
			ret, ok := in.(*ssa.Return)
			if !ok {
				return
			}
			res := eng.ReturnResults(ret)
			if len(res) != 2 {
				return
			}
			e0, ok0 := res[0].(*ssa.Extract)
			e1, ok1 := res[1].(*ssa.Extract)
			if !ok0 || !ok1 || e0.Tuple != e1.Tuple {
				return
			}
			call, ok := e0.Tuple.(*ssa.Call)
			if !ok {
				return
			}
			g := eng.StaticCallee(call.Common())
			if g == nil || eng.FuncPkgPath(g) != eng.FuncPkgPath(fn) || len(g.Blocks) == 0 {
				return
			}
			passThrough[ret] = true
		})
	}
	for _, fn := range naming {
		nRet := 0
		var badCase, badEmpty []string
		rets := successReturns(fn)
		eng.EachInstr(fn, func(in ssa.Instruction) {
			if ret, ok := in.(*ssa.Return); ok && passThrough[ret] {
				rets = append(rets, ret) // evaluated through the helper with this call's arguments
			}
		})
		for _, ret := range rets {
			res := eng.ReturnResults(ret)
			if !isString(res[0].Type()) {
				continue
			}
			nRet++
			// pass-through of another naming function is checked at that function
			if e, ok := res[0].(*ssa.Extract); ok {
				if call, ok := e.Tuple.(*ssa.Call); ok {
					skip := false
					for _, g := range naming {
						if eng.StaticCallee(call.Common()) == g {
							skip = true
						}
					}
					if skip {
						continue
					}
				}
			}
			if ok, why := an.caseNormalised(res[0], 0); !ok {
				badCase = append(badCase, p.InstrPos(ret)+": "+why)
			}
			if !an.nonEmpty(res[0], ret.Block(), 0) {
				badEmpty = append(badEmpty, p.InstrPos(ret))
			}
		}
		cons := shortFn(fn)
		if len(badCase) > 0 {
			r.Bad("C04/CASE", cons, strings.SplitN(badCase[0], ":", 3)[0]+":"+strings.SplitN(badCase[0], ":", 3)[1], "a returned mailbox name depends on the letter case of the input: %s — e.g. User@Example.COM and user@example.com name different mailboxes, and in domain mode the name is not a fixed point", strings.Join(badCase, "; "))
		} else {
			r.Ok("C04/CASE", cons, p.Pos(fn.Pos()), "%d success returns, every flow from the address passes a case normaliser", nRet)
		}
		if len(badEmpty) > 0 {
			r.Bad("C04/NONEMPTY", cons, badEmpty[0], "success return(s) at %s can yield an empty name", strings.Join(badEmpty, ", "))
		} else {
			r.Ok("C04/NONEMPTY", cons, p.Pos(fn.Pos()), "%d success returns, all provably non-empty", nRet)
		}
		r.Floor("C04/CASE", "success returns of "+cons, nRet, 1)
	}
	if local != nil {
		var bad []string
		n := 0
		for _, ret := range successReturns(local) {
			n++
			res := eng.ReturnResults(ret)
			if !an.nonEmpty(res[0], ret.Block(), 0) {
				bad = append(bad, p.InstrPos(ret))
			}
		}
		if len(bad) > 0 {
			r.Bad("C04/NONEMPTY", shortFn(local), bad[0], "the local-part canonicaliser can succeed with an empty base name (slice up to the first '+'): \"+ext@example.com\" names the mailbox \"\" in local mode and \"@example.com\" in full mode")
		} else {
			r.Ok("C04/NONEMPTY", shortFn(local), p.Pos(local.Pos()), "%d success returns, base name provably non-empty", n)
		}
		c.c04FirstPlus(local)
	}
	c.c04VerbatimTags()
	c.c04Pure(naming)
}

// c04Pure: the name of a mailbox is a function of the address and the configured naming mode
// and of nothing else — not of the addresses parsed before. The functions the naming functions
// run keep no state between calls: they write no package-level variable, read none that
// anything but an initialiser writes, and an object drawn from a sync.Pool is reset before it is
// used for anything (a scratch buffer that keeps a rejected address's bytes on the error paths
// prefixes them to the next name).
func (c *Ctx) c04Pure(naming []*ssa.Function) {
	r, p := c.R, c.P
	rule := "C04/PURE/no-carried-state"
	r.Rule(rule, "the functions the naming functions run write no package-level variable, read none that is written outside an initialiser, and reset an object drawn from a sync.Pool before any other use of it")
	roots := append([]*ssa.Function{}, naming...)
	for _, nm := range [][2]string{{"pkg/policy", "ParseEmailAddress"}, {"pkg/policy", "ValidateDomainPart"}} {
		if f := p.Func(nm[0], nm[1]); f != nil {
			roots = append(roots, f)
		}
	}
	if nr := p.Method("pkg/policy", "Addressing", "NewRecipient"); nr != nil {
		roots = append(roots, nr)
	}
	var fns []*ssa.Function
	for g := range p.SyncReach(roots...) {
		if pk := eng.FuncPkgPath(g); pk == eng.Mod+"/pkg/policy" || pk == eng.Mod+"/pkg/stringutil" {
			fns = append(fns, g)
		}
	}
	for _, g := range roots {
		fns = append(fns, g)
	}
	sortFuncs(fns)
	// globals written outside initialisers
	mutable := map[*ssa.Global]string{}
	for _, rel := range []string{"pkg/policy", "pkg/stringutil"} {
		for _, g := range pkgFuncs(p, rel) {
			if g.Name() == "init" || strings.HasPrefix(g.Name(), "init#") {
				continue
			}
			g := g
			eng.EachInstr(g, func(in ssa.Instruction) {
				if st, ok := in.(*ssa.Store); ok {
					if gl, ok := st.Addr.(*ssa.Global); ok {
						mutable[gl] = p.InstrPos(in)
					}
				}
			})
		}
	}
	var probs []string
	seen := map[*ssa.Function]bool{}
	for _, g := range fns {
		if seen[g] {
			continue
		}
		seen[g] = true
		g := g
		eng.EachInstr(g, func(in ssa.Instruction) {
			switch x := in.(type) {
			case *ssa.Store:
				if gl, ok := x.Addr.(*ssa.Global); ok {
					probs = append(probs, shortFn(g)+" writes the package variable "+gl.Name()+" at "+p.InstrPos(in))
				}
			case *ssa.UnOp:
				if gl, ok := x.X.(*ssa.Global); ok && x.Op == token.MUL {
					if at, isMut := mutable[gl]; isMut {
						probs = append(probs, shortFn(g)+" reads the package variable "+gl.Name()+" ("+p.InstrPos(in)+"), which is written at "+at)
					}
				}
			case *ssa.Call:
				if eng.CalleeName(x.Common()) != "(*sync.Pool).Get" {
					return
				}
				// the drawn object: the call's value through a type assertion
				objs := []ssa.Value{x}
				if x.Referrers() != nil {
					for _, ref := range *x.Referrers() {
						if ta, ok := ref.(*ssa.TypeAssert); ok {
							objs = append(objs, ta)
						}
					}
				}
				var reset ssa.Instruction
				for _, o := range objs {
					if o.Referrers() == nil {
						continue
					}
					for _, ref := range *o.Referrers() {
						if rc, ok := ref.(*ssa.Call); ok && !rc.Call.IsInvoke() && len(rc.Call.Args) > 0 && rc.Call.Args[0] == o {
							if cal := eng.StaticCallee(rc.Common()); cal != nil && (cal.Name() == "Reset" || cal.Name() == "Truncate") {
								if reset == nil || eng.Dominates(rc, reset) {
									reset = rc
								}
							}
						}
					}
				}
				bad := ""
				for _, o := range objs {
					if o.Referrers() == nil {
						continue
					}
					for _, ref := range *o.Referrers() {
						switch ref.(type) {
						case *ssa.DebugRef, *ssa.TypeAssert:
							continue
						case *ssa.Defer:
							continue // the deferred hand-back
						}
						if ref == reset {
							continue
						}
						if reset == nil || !eng.Dominates(reset, ref) {
							bad = p.InstrPos(ref)
						}
					}
				}
				if bad != "" {
					probs = append(probs, shortFn(g)+" uses an object drawn from a sync.Pool at "+bad+" without having reset it first: what an earlier call left in it (a rejected address's bytes on an error path) becomes part of this call's result")
				}
			}
		})
	}
	sort.Strings(probs)
	probs = dedupStrings(probs)
	if len(probs) > 0 {
		r.Bad(rule, "naming-functions", "", "the mailbox name can depend on earlier calls: %s", strings.Join(probs, "; "))
	} else {
		r.Ok(rule, "naming-functions", "", "%d functions behind the naming functions keep no state between calls", len(seen))
	}
}

// c04VerbatimTags: a canonicaliser that copies a constant verbatim into the name — the
// address-literal tag in `"[IPv6:" + ToLower(rest)`, selected by a case-sensitive HasPrefix —
// is case-insensitive only as long as every other spelling of that constant is refused. The
// necessary condition decided here: wherever the package recognises such a constant in input
// text, it does so case-sensitively (no strings.EqualFold with it, no comparison of a
// lower/upper-cased copy of the input with it). Otherwise an address is accepted in two
// spellings that the canonicaliser maps to two different names.
func (c *Ctx) c04VerbatimTags() {
	r, p := c.R, c.P
	rule := "C04/CASE/verbatim-tag"
	r.Rule(rule, "a constant with letters that a naming function copies verbatim into the name under a case-sensitive prefix test is matched case-sensitively everywhere in pkg/policy (no EqualFold against it, no comparison of a case-folded copy of the input with it)")
	fns := pkgFuncs(p, "pkg/policy")
	letters := func(s string) string {
		var b strings.Builder
		for _, ch := range strings.ToLower(s) {
			if (ch >= 'a' && ch <= 'z') || (ch >= '0' && ch <= '9') {
				b.WriteRune(ch)
			}
		}
		return b.String()
	}
	hasLetter := func(s string) bool {
		for _, ch := range s {
			if (ch >= 'a' && ch <= 'z') || (ch >= 'A' && ch <= 'Z') {
				return true
			}
		}
		return false
	}
	type tag struct {
		k    string
		site string
	}
	var tags []tag
	for _, fn := range fns {
		fn := fn
		eng.EachInstr(fn, func(in ssa.Instruction) {
			b, ok := in.(*ssa.BinOp)
			if !ok || b.Op != token.ADD {
				return
			}
			k, isC := eng.ConstString(b.X)
			if !isC || !hasLetter(k) {
				return
			}
			// selected by a case-sensitive prefix / equality test on the same constant
			sel := false
			eng.EachInstr(fn, func(x ssa.Instruction) {
				call, ok := x.(*ssa.Call)
				if !ok || eng.CalleeName(call.Common()) != "strings.HasPrefix" || len(call.Call.Args) != 2 {
					return
				}
				if k2, ok := eng.ConstString(call.Call.Args[1]); ok && k2 == k {
					sel = true
				}
			})
			if sel {
				tags = append(tags, tag{k, p.InstrPos(in)})
			}
		})
	}
	if len(tags) == 0 {
		r.Ok(rule, "pkg/policy", "", "no naming function copies a lettered constant verbatim into a name")
		return
	}
	overlaps := func(a, b string) bool {
		la, lb := letters(a), letters(b)
		return la != "" && lb != "" && (strings.Contains(la, lb) || strings.Contains(lb, la))
	}
	folded := func(v ssa.Value) bool {
		v = eng.StripConv(v)
		if sl, ok := v.(*ssa.Slice); ok {
			v = eng.StripConv(sl.X)
		}
		call, ok := v.(*ssa.Call)
		if !ok {
			return false
		}
		switch eng.CalleeName(call.Common()) {
		case "strings.ToLower", "strings.ToUpper", "strings.ToTitle", "bytes.ToLower", "bytes.ToUpper":
			return true
		}
		return false
	}
	for _, tg := range tags {
		cons := fmt.Sprintf("tag:%q", tg.k)
		bad := ""
		for _, fn := range fns {
			fn := fn
			eng.EachInstr(fn, func(in ssa.Instruction) {
				if bad != "" {
					return
				}
				switch x := in.(type) {
				case *ssa.Call:
					name := eng.CalleeName(x.Common())
					args := x.Call.Args
					switch name {
					case "strings.EqualFold", "bytes.EqualFold":
						for _, a := range args {
							if k, ok := eng.ConstString(a); ok && overlaps(k, tg.k) {
								bad = fmt.Sprintf("%s at %s matches %q without regard to case", name, p.InstrPos(in), k)
							}
						}
					case "strings.HasPrefix", "strings.HasSuffix", "strings.Contains", "strings.Index":
						if len(args) == 2 {
							if k, ok := eng.ConstString(args[1]); ok && overlaps(k, tg.k) && folded(args[0]) {
								bad = fmt.Sprintf("%s at %s matches %q against a case-folded copy of the input", name, p.InstrPos(in), k)
							}
						}
					}
				case *ssa.BinOp:
					if x.Op == token.EQL || x.Op == token.NEQ {
						for i, a := range []ssa.Value{x.X, x.Y} {
							other := []ssa.Value{x.Y, x.X}[i]
							if k, ok := eng.ConstString(a); ok && overlaps(k, tg.k) && folded(other) {
								bad = fmt.Sprintf("the comparison at %s matches %q against a case-folded copy of the input", p.InstrPos(in), k)
							}
						}
					}
				}
			})
		}
		if bad != "" {
			r.Bad(rule, cons, tg.site, "the name keeps the constant %q verbatim (selected by a case-sensitive prefix test, %s), but %s: an address is then accepted with the constant in another letter case, for which the canonicaliser takes its other branch — two spellings of one address name two mailboxes", tg.k, tg.site, bad)
		} else {
			r.Ok(rule, cons, tg.site, "%q is copied verbatim and recognised case-sensitively everywhere in pkg/policy", tg.k)
		}
	}
}

// c04Handlers: D1(a) incl. the socket listeners' mailbox.
func (c *Ctx) c04Handlers(handlers []*ssa.Function, mgr *types.Named, mbfa *types.Func) {
	p, r := c.P, c.R
	n := 0
	// every top-level function of the two packages (a registered handler may only wrap an
	// action function it runs through a function value)
	_ = handlers
	var all []*ssa.Function
	for _, fn := range append(pkgFuncs(p, "pkg/rest"), pkgFuncs(p, "pkg/webui")...) {
		if fn.Parent() == nil {
			all = append(all, fn)
		}
	}
	sortFuncs(all)
	for _, H := range all {
		pk := eng.FuncPkgPath(H)
		if pk != eng.Mod+"/pkg/rest" && pk != eng.Mod+"/pkg/webui" {
			continue
		}
		eng.EachCallDeep(H, func(fn *ssa.Function, ci ssa.CallInstruction) {
			cc := ci.Common()
			// a Manager operation called through a method value (op(mailbox, id))
			if call, isCall := ci.(*ssa.Call); isCall && !cc.IsInvoke() && len(cc.Args) > 0 {
				if mi, isI := mgr.Underlying().(*types.Interface); isI {
					if o := c.mgrOpThroughValue(call, mgrOps(mi)...); o != nil && o.Name() != "MailboxForAddress" && o.Name() != "Deliver" {
						n++
						if c.flowsFromCallP(cc.Args[0], mbfa) {
							r.Ok("C04/ONE-AUTHORITY", shortFn(H)+":"+o.Name(), p.InstrPos(ci), "mailbox argument is the result of MailboxForAddress")
						} else {
							r.Bad("C04/ONE-AUTHORITY", shortFn(H)+":"+o.Name(), p.InstrPos(ci), "mailbox argument of Manager.%s (called through a method value) does not come from Manager.MailboxForAddress", o.Name())
						}
						return
					}
				}
			}
			if cc.IsInvoke() && types.Identical(cc.Value.Type(), mgr) {
				if cc.Method.Name() == "MailboxForAddress" || cc.Method.Name() == "Deliver" || len(cc.Args) == 0 {
					return
				}
				n++
				if c.flowsFromCallP(cc.Args[0], mbfa) {
					r.Ok("C04/ONE-AUTHORITY", shortFn(H)+":"+cc.Method.Name(), p.InstrPos(ci), "mailbox argument is the result of MailboxForAddress")
				} else {
					r.Bad("C04/ONE-AUTHORITY", shortFn(H)+":"+cc.Method.Name(), p.InstrPos(ci), "mailbox argument of Manager.%s does not come from Manager.MailboxForAddress", cc.Method.Name())
				}
				return
			}
			// listener constructors taking (hub, mailbox string)
			g := eng.StaticCallee(cc)
			if g == nil || eng.FuncPkgPath(g) != pk || !strings.HasPrefix(g.Name(), "newMsgListener") || len(cc.Args) != 2 {
				return
			}
			if s, isC := eng.ConstString(cc.Args[1]); isC && s == "" {
				return // all mailboxes
			}
			n++
			if flowsFromCall(cc.Args[1], mbfa, 0) {
				r.Ok("C04/ONE-AUTHORITY", shortFn(H)+":"+g.Name(), p.InstrPos(ci), "monitor mailbox filter is the result of MailboxForAddress")
			} else {
				r.Bad("C04/ONE-AUTHORITY", shortFn(H)+":"+g.Name(), p.InstrPos(ci), "monitor mailbox filter does not come from Manager.MailboxForAddress")
			}
		})
	}
	r.Floor("C04/ONE-AUTHORITY", "mailbox arguments in handlers", n, 1)
}

// c04URLVars: the string handed to MailboxForAddress is the router's path variable,
// untouched: it is a lookup in web.Context.Vars; Context.Vars is written only in NewContext
// with the result of mux.Vars(req); nothing in the module updates that map.
func (c *Ctx) c04URLVars(handlers []*ssa.Function, mbfa *types.Func) {
	r, p := c.R, c.P
	fVars := p.Field("pkg/server/web", "Context", "Vars")
	newCtx := p.Func("pkg/server/web", "NewContext")
	if fVars == nil || newCtx == nil {
		return
	}
	n := 0
	var hfns []*ssa.Function
	for _, rel := range []string{"pkg/rest", "pkg/webui"} {
		hfns = append(hfns, pkgFuncs(p, rel)...)
	}
	_ = handlers
	for _, H := range hfns {
		H := H
		eng.EachInstr(H, func(in ssa.Instruction) {
			ci, ok := in.(ssa.CallInstruction)
			if !ok {
				return
			}
			cc := ci.Common()
			if !eng.IsCallTo(cc, mbfa) || len(cc.Args) == 0 {
				return
			}
			n++
			arg := cc.Args[0]
			okArg := false
			if lk, ok := arg.(*ssa.Lookup); ok && eng.SameField(eng.LoadedField(lk.X), fVars) {
				if _, isC := eng.ConstString(lk.Index); isC {
					okArg = true
				}
			}
			cons := "url-var@" + shortFn(H)
			if okArg {
				r.Ok("C04/ONE-AUTHORITY", cons, p.InstrPos(ci), "MailboxForAddress receives ctx.Vars[const] unchanged")
			} else {
				r.Bad("C04/ONE-AUTHORITY", cons, p.InstrPos(ci), "the value handed to MailboxForAddress is not the router's path variable (ctx.Vars[...]) unchanged: a read interface transforms the address before naming, so it can name a different mailbox than delivery did")
			}
		})
	}
	r.Floor("C04/ONE-AUTHORITY", "MailboxForAddress calls in handlers", n, 1)
	// writers of Context.Vars
	var probs []string
	nW := 0
	for _, fn := range p.Funcs {
		if p.IsTestSupport(fn) {
			continue
		}
		fn := fn
		eng.EachInstr(fn, func(in ssa.Instruction) {
			switch x := in.(type) {
			case *ssa.Store:
				fa, ok := x.Addr.(*ssa.FieldAddr)
				if !ok || !eng.SameField(eng.FieldOfAddr(fa), fVars) {
					return
				}
				nW++
				call, isCall := x.Val.(*ssa.Call)
				if fn != newCtx || !isCall || eng.CalleeName(call.Common()) != "github.com/gorilla/mux.Vars" {
					probs = append(probs, "Context.Vars is assigned at "+p.InstrPos(in)+" with something other than mux.Vars(req)")
					return
				}
				// the map returned by mux.Vars must not be updated
				for _, ref := range *call.Referrers() {
					if mu, ok := ref.(*ssa.MapUpdate); ok && mu.Map == ssa.Value(call) {
						probs = append(probs, "the router's variable map is modified at "+p.InstrPos(mu)+" before handlers see it (e.g. decoded a second time): a mailbox name containing %XX, '+' or upper-case escapes is looked up under a different name than it was delivered to")
					}
				}
			case *ssa.MapUpdate:
				if eng.SameField(eng.LoadedField(x.Map), fVars) {
					probs = append(probs, "Context.Vars is modified at "+p.InstrPos(in))
				}
			}
		})
	}
	if nW == 0 {
		probs = append(probs, "no writer of Context.Vars found")
	}
	if len(probs) > 0 {
		r.Bad("C04/ONE-AUTHORITY", "web.Context.Vars", p.Pos(newCtx.Pos()), "%s", strings.Join(probs, "; "))
	} else {
		r.Ok("C04/ONE-AUTHORITY", "web.Context.Vars", p.Pos(newCtx.Pos()), "Context.Vars = mux.Vars(req), never modified")
	}
}

// c04FirstPlus: the +extension is everything from the FIRST '+' on; a base name cut at any
// other '+' still depends on part of the extension and is not a fixed point of the naming
// function ("a+b+c" → "a+b" → "a").
func (c *Ctx) c04FirstPlus(local *ssa.Function) {
	r, p := c.R, c.P
	r.Rule("C04/PLUS/first", "the position at which the local-part canonicaliser cuts the +extension is the first occurrence of '+': a first-occurrence search (strings.Index*/Cut/SplitN(…,2)), or a scan variable that is assigned only while unset or whose assignment leaves the scan")
	isPlus := func(v ssa.Value) bool {
		if s, ok := eng.ConstString(v); ok {
			return s == "+"
		}
		if k, ok := eng.ConstInt(v); ok {
			return k == '+'
		}
		return false
	}
	n := 0
	ord := map[string]int{}
	var classify func(v ssa.Value, depth int) (string, string) // verdict ok|bad|unknown, why
	busy := map[*ssa.Phi]bool{}
	classify = func(v ssa.Value, depth int) (string, string) {
		if depth > 8 {
			return "unknown", "origin too deep"
		}
		v = eng.StripConv(v)
		if ph, ok := v.(*ssa.Phi); ok {
			if busy[ph] {
				return "none", "" // a merge with the variable's own earlier value
			}
			busy[ph] = true
			defer delete(busy, ph)
		}
		switch x := v.(type) {
		case *ssa.Call:
			name := eng.CalleeName(x.Common())
			switch name {
			case "strings.Index", "strings.IndexByte", "strings.IndexRune", "strings.IndexAny", "bytes.IndexByte", "bytes.Index":
				if len(x.Call.Args) == 2 && isPlus(x.Call.Args[1]) {
					return "ok", name + " of '+'"
				}
				return "none", ""
			case "strings.LastIndex", "strings.LastIndexByte", "strings.LastIndexAny":
				if len(x.Call.Args) == 2 && isPlus(x.Call.Args[1]) {
					return "bad", name + " finds the last '+', not the first"
				}
				return "none", ""
			}
			return "none", ""
		case *ssa.Phi:
			// a scan variable: some edge carries a loop position
			sawPos := false
			for i, e := range x.Edges {
				e = eng.StripConv(e)
				if e == ssa.Value(x) {
					continue
				}
				if k, isC := eng.ConstInt(e); isC && k < 0 {
					continue // "unset"
				}
				if q, ok := e.(*ssa.Phi); ok && q != x && !isInductionLike(q) {
					verdict, why := classify(q, depth+1)
					if verdict == "bad" || verdict == "unknown" {
						return verdict, why
					}
					if verdict == "ok" {
						sawPos = true
					}
					continue
				}
				if _, isInd := e.(*ssa.Phi); isInd || isInductionLike(e) {
					sawPos = true
					// the assignment must happen only while unset, or leave the loop
					pred := x.Block().Preds[i]
					guarded := false
					for _, b := range pred.Parent().Blocks {
						for k := 0; k < len(b.Succs) && len(b.Succs) == 2; k++ {
							rel, ok := eng.EdgeRel(b, k)
							if !ok || !eng.EdgeDominates(b, k, pred) && !(b == pred) {
								continue
							}
							if rx, isPhi := eng.StripConv(rel.X).(*ssa.Phi); eng.StripConv(rel.X) == ssa.Value(x) || isPhiAlias(rel.X, x) || isPhi && busy[rx] {
								if kk, isC := eng.ConstInt(rel.Y); isC && ((rel.Op == token.LSS && kk <= 0) || (rel.Op == token.EQL && kk < 0) || (rel.Op == token.LEQ && kk < 0)) {
									guarded = true
								}
							}
						}
					}
					leaves := len(loopHeaders(pred)) > len(loopHeaders(x.Block()))
					if !guarded && !leaves {
						return "bad", "the scan overwrites the position at every '+', so the cut happens at the last one"
					}
					continue
				}
				verdict, why := classify(e, depth+1)
				if verdict == "bad" || verdict == "unknown" {
					return verdict, why
				}
				if verdict == "ok" {
					sawPos = true
				}
			}
			if sawPos {
				return "ok", "scan position assigned only once"
			}
			return "none", ""
		}
		return "none", ""
	}
	eng.EachInstr(local, func(in ssa.Instruction) {
		sl, ok := in.(*ssa.Slice)
		if !ok || sl.High == nil || !isString(sl.X.Type()) {
			return
		}
		if _, isC := eng.ConstInt(sl.High); isC {
			return
		}
		verdict, why := classify(sl.High, 0)
		if verdict == "none" {
			return // not a '+' cut
		}
		n++
		cons := siteCons(p, in, ord, "cut")
		switch verdict {
		case "ok":
			r.Ok("C04/PLUS/first", cons, p.InstrPos(in), "base name ends at the first '+' (%s)", why)
		case "bad":
			r.Bad("C04/PLUS/first", cons, p.InstrPos(in), "%s: \"a+b+c\" is named \"a+b\", which depends on the extension and is not a fixed point (asking for \"a+b\" reads \"a\")", why)
		default:
			r.Undecided("C04/PLUS/first", cons, p.InstrPos(in), "cannot tell which '+' the cut position refers to (%s)", why)
		}
	})
	if n == 0 {
		// Cut/SplitN forms have no slice: accept when the function calls one of them with "+"
		eng.EachInstr(local, func(in ssa.Instruction) {
			if call, ok := in.(*ssa.Call); ok {
				switch eng.CalleeName(call.Common()) {
				case "strings.Cut", "strings.SplitN", "strings.Split":
					if len(call.Call.Args) >= 2 && isPlus(call.Call.Args[1]) {
						n++
						r.Ok("C04/PLUS/first", siteCons(p, in, ord, "cut"), p.InstrPos(in), "base name is the part before the first '+' (%s)", eng.CalleeName(call.Common()))
					}
				}
			}
		})
	}
	r.Floor("C04/PLUS/first", "+extension cuts in the local-part canonicaliser", n, 1)
}

// isInductionLike: v is a loop position: a phi advanced by +1, or such a phi plus a constant.
func isInductionLike(v ssa.Value) bool {
	if bo, ok := v.(*ssa.BinOp); ok && bo.Op == token.ADD {
		if _, isC := eng.ConstInt(bo.Y); isC {
			v = bo.X
		}
	}
	ph, ok := v.(*ssa.Phi)
	if !ok {
		return false
	}
	for _, e := range ph.Edges {
		if bo, ok := e.(*ssa.BinOp); ok && bo.Op == token.ADD && bo.X == ssa.Value(ph) {
			if k, isC := eng.ConstInt(bo.Y); isC && k == 1 {
				return true
			}
		}
	}
	return false
}

// isPhiAlias: v is x or a phi that merges x with itself.
func isPhiAlias(v ssa.Value, x *ssa.Phi) bool {
	v = eng.StripConv(v)
	if v == ssa.Value(x) {
		return true
	}
	if q, ok := v.(*ssa.Phi); ok {
		for _, e := range q.Edges {
			if e == ssa.Value(x) {
				return true
			}
		}
	}
	return false
}

// c04ReceiveVerbatim: "the name computed when mail is received is the same name every read
// interface computes when a user asks for that address". The read interfaces hand the address
// the user typed straight to the naming function; the receiving side must therefore hand
// NewRecipient the address the client wrote, taken out of the command line only by framing
// operations (slicing off "TO:", trimming "<", ">" and blanks, a regexp submatch). Any other
// string operation applied on the receiving side alone (a trimmed dot, a lowered case, a
// replacement) makes the two sides name different mailboxes for some address.
func (c *Ctx) c04ReceiveVerbatim(newRecip *ssa.Function) {
	p, r := c.P, c.R
	rule := "C04/RECEIVE/verbatim"
	r.Rule(rule, "the address argument of NewRecipient at each call site outside pkg/policy is cut out of its input by framing operations only (slices, Trim* with a cutset of '<', '>' and white space, regexp submatch); no other string transformation is applied on the receiving side alone")
	if newRecip == nil {
		return
	}
	framing := func(s string) bool {
		for _, ch := range s {
			if !strings.ContainsRune("<> \t\r\n", ch) {
				return false
			}
		}
		return true
	}
	n := 0
	ord := map[string]int{}
	for _, cs := range p.StaticCallSites(newRecip) {
		in := cs.Instr.(ssa.Instruction)
		if eng.FuncPkgPath(in.Parent()) == eng.Mod+"/pkg/policy" || len(cs.Args) == 0 {
			continue
		}
		n++
		cons := siteCons(p, in, ord, "address")
		var bad []string
		eng.BackSlice(cs.Args[len(cs.Args)-1], func(v ssa.Value) bool {
			call, ok := v.(*ssa.Call)
			if !ok {
				return false
			}
			if g := eng.StaticCallee(call.Common()); g != nil && eng.InModule(g) && len(g.Blocks) > 0 {
				return false // looked through
			}
			if _, isStr := call.Type().Underlying().(*types.Basic); !isStr {
				if _, isSl := call.Type().Underlying().(*types.Slice); !isSl {
					return false
				}
			}
			nm := eng.CalleeName(call.Common())
			okOp := false
			switch nm {
			case "strings.TrimSpace", "(*regexp.Regexp).FindStringSubmatch", "(*regexp.Regexp).FindString", "builtin.len", "strings.Clone":
				okOp = true
			case "strings.Trim", "strings.TrimLeft", "strings.TrimRight", "strings.TrimPrefix", "strings.TrimSuffix":
				if len(call.Call.Args) == 2 {
					if k, isK := eng.ConstString(call.Call.Args[1]); isK && framing(k) {
						okOp = true
					}
				}
			}
			if !strings.HasPrefix(nm, "strings.") && !strings.HasPrefix(nm, "bytes.") && !strings.HasPrefix(nm, "(*regexp.") && !strings.HasPrefix(nm, "unicode") && !strings.HasPrefix(nm, "(*strings.") {
				return false // not a string transformation (readers, loggers, …)
			}
			if !okOp {
				bad = append(bad, nm+" at "+p.InstrPos(call))
			}
			return false
		})
		if len(bad) > 0 {
			sort.Strings(bad)
			r.Bad(rule, cons, p.InstrPos(in), "the recipient address is transformed before it is named (%s): the mailbox the message is filed under is computed from the changed address, while REST, web UI and the monitor compute it from the address as the user writes it — for the addresses the transformation touches, mail is received into a mailbox nobody who asks for that address is shown", strings.Join(bad, "; "))
		} else {
			r.Ok(rule, cons, p.InstrPos(in), "only framing operations between the command line and NewRecipient")
		}
	}
	r.Floor(rule, "NewRecipient call sites outside pkg/policy", n, 1)
}
