package rules

import (
	"fmt"
	"go/constant"
	"go/token"
	"go/types"
	"sort"
	"strings"

	"golang.org/x/tools/go/ssa"

	"ibcheck/eng"
)

// pop3Visit describes one use of a snapshot iterator: a function of the package that ranges
// over Session.messages and calls a function parameter per element under a retain[i] test
// (eachMessage(want, visit)), together with one call of it that supplies the callback.
type pop3Visit struct {
	iter      *ssa.Function       // the iterating helper
	loop      snapLoop            // its loop over the snapshot
	call      *ssa.Call           // visit(…) inside the loop
	site      ssa.CallInstruction // the call of iter that passes the callback
	closure   *ssa.Function       // the callback
	want      bool                // value of retain[i] under which the callback runs
	idxParam  *ssa.Parameter      // callback parameter bound to i (nil: not passed)
	elemParam *ssa.Parameter      // callback parameter bound to messages[i] (nil: not passed)
}

// retainGuardOf: the block is dominated by an edge on which retain[idx] equals a constant or a
// bool parameter of the function.
func (m *pop3Model) retainGuardOf(at *ssa.BasicBlock, idx ssa.Value) (want bool, prm *ssa.Parameter, ok bool) {
	isRetainLoad := func(v ssa.Value) bool {
		u, isU := v.(*ssa.UnOp)
		if !isU {
			return false
		}
		ia, isIA := u.X.(*ssa.IndexAddr)
		return isIA && eng.SameField(m.loadedField(ia.X), m.fRetain) && sameIndex(ia.Index, idx)
	}
	for _, b := range at.Parent().Blocks {
		for k := 0; k < len(b.Succs) && len(b.Succs) == 2; k++ {
			if !eng.EdgeDominates(b, k, at) {
				continue
			}
			if v, pol, okT := eng.CondTruth(b, k); okT && isRetainLoad(v) {
				return pol, nil, true
			}
			rel, okR := eng.EdgeRel(b, k)
			if !okR || (rel.Op != token.EQL && rel.Op != token.NEQ) {
				continue
			}
			x, y := rel.X, rel.Y
			if isRetainLoad(y) {
				x, y = y, x
			}
			if !isRetainLoad(x) {
				continue
			}
			if bv, isC := eng.ConstBool(y); isC {
				return bv == (rel.Op == token.EQL), nil, true
			}
			if pp, isP := y.(*ssa.Parameter); isP && rel.Op == token.EQL {
				return false, pp, true
			}
		}
	}
	return false, nil, false
}

// visits enumerates the iterator uses of the package.
func (m *pop3Model) visits() []pop3Visit {
	if m.visitsDone {
		return m.visitList
	}
	m.visitsDone = true
	p := m.c.P
	for _, lp := range m.snapshotLoops() {
		g := lp.fn
		if g.Parent() != nil {
			continue
		}
		for _, b := range g.Blocks {
			if !lp.header.Succs[0].Dominates(b) {
				continue
			}
			for _, in := range b.Instrs {
				call, ok := in.(*ssa.Call)
				if !ok || call.Call.IsInvoke() {
					continue
				}
				fp, ok := call.Call.Value.(*ssa.Parameter)
				if !ok || fp.Parent() != g {
					continue
				}
				if _, isSig := fp.Type().Underlying().(*types.Signature); !isSig {
					continue
				}
				cw, wp, gok := m.retainGuardOf(b, lp.idx)
				for _, cs := range p.StaticCallSites(g) {
					fi := eng.ParamIndex(fp)
					if fi < 0 || fi >= len(cs.Args) {
						continue
					}
					h, _, okF := eng.FuncValueOf(cs.Args[fi])
					if !okF || h == nil {
						continue
					}
					v := pop3Visit{iter: g, loop: lp, call: call, site: cs.Instr, closure: h}
					if !gok {
						continue // unguarded iteration: not a retain-selected visit
					}
					v.want = cw
					if wp != nil {
						wi := eng.ParamIndex(wp)
						if wi < 0 || wi >= len(cs.Args) {
							continue
						}
						bv, isC := eng.ConstBool(cs.Args[wi])
						if !isC {
							continue
						}
						v.want = bv
					}
					for k, a := range call.Call.Args {
						if k >= len(h.Params) {
							break
						}
						if sameIndex(a, lp.idx) {
							v.idxParam = h.Params[k]
						}
						if u, isU := a.(*ssa.UnOp); isU {
							if ia, isIA := u.X.(*ssa.IndexAddr); isIA && eng.SameField(m.loadedField(ia.X), m.fMessages) && sameIndex(ia.Index, lp.idx) {
								v.elemParam = h.Params[k]
							}
						}
					}
					m.visitList = append(m.visitList, v)
				}
			}
		}
	}
	return m.visitList
}

// visitOf returns the iterator use whose callback is fn.
func (m *pop3Model) visitOf(fn *ssa.Function) (pop3Visit, bool) {
	var out pop3Visit
	n := 0
	for _, v := range m.visits() {
		if v.closure == fn {
			out = v
			n++
		}
	}
	return out, n == 1
}

// visitorCallsOf lists the calls of the visitor parameter of a store's VisitMailboxes, in the
// method itself or in a helper of the package that is handed the visitor.
func (c *Ctx) visitorCallsOf(vm *ssa.Function) []*ssa.Call {
	p := c.P
	var out []*ssa.Call
	var vfns []*ssa.Function
	for g := range p.SyncReach(vm) {
		if eng.FuncPkgPath(g) == eng.FuncPkgPath(vm) {
			vfns = append(vfns, g)
		}
	}
	sortFuncs(vfns)
	for _, g := range vfns {
		eng.EachInstr(g, func(in ssa.Instruction) {
			call, ok := in.(*ssa.Call)
			if !ok {
				return
			}
			prm, isParam := call.Call.Value.(*ssa.Parameter)
			if !isParam {
				if u, isU := call.Call.Value.(*ssa.UnOp); isU {
					if cell := eng.CellOf(u.X); cell != nil {
						if sts := eng.CellStores(cell); len(sts) == 1 {
							prm, isParam = sts[0].Val.(*ssa.Parameter)
						}
					}
				}
			}
			if !isParam || !visitorSigOfType(prm.Type()) {
				return
			}
			if av, isP := p.Actual(prm).(*ssa.Parameter); !isP || av.Parent() != vm {
				return
			}
			out = append(out, call)
		})
	}
	return out
}

// visitStops: the Store contract says the visitor is called "while it continues to return
// true". Once a call of the visitor has answered false, no further call of it is reachable in
// that VisitMailboxes: followed from the false edge of the call's result, through the returns of
// the helper the call sits in (a result that is the same constant on every such return decides
// the caller's branch on it) up to VisitMailboxes itself.
func (c *Ctx) visitStops(rule string) int {
	p, r := c.P, c.R
	r.Rule(rule, "after the visitor has returned false no further visitor call is reachable within the same VisitMailboxes (followed through helper returns with the constant results of that path)")
	n := 0
	for _, rel := range []string{"pkg/storage/mem", "pkg/storage/file"} {
		vm := p.Method(rel, "Store", "VisitMailboxes")
		if vm == nil {
			continue
		}
		calls := c.visitorCallsOf(vm)
		isVis := map[ssa.Instruction]bool{}
		holder := map[*ssa.Function]bool{}
		for _, cl := range calls {
			isVis[cl] = true
			holder[cl.Parent()] = true
		}
		// functions through which a visitor call is reached
		reaches := func(g *ssa.Function) bool {
			if g == nil || !eng.InModule(g) {
				return false
			}
			for h := range p.SyncReach(g) {
				if holder[h] {
					return true
				}
			}
			return false
		}
		// callers of fn: static call sites, and — for a function literal handed to a helper of the
		// package as a callback — the calls of a function value of its signature inside that helper
		callersOf := func(fn *ssa.Function) []*ssa.Call {
			var out []*ssa.Call
			for _, cs := range p.StaticCallSites(fn) {
				if cl, ok := cs.Instr.(*ssa.Call); ok {
					out = append(out, cl)
				}
			}
			if fn.Parent() == nil {
				return out
			}
			seenG := map[*ssa.Function]bool{}
			eng.EachInstr(fn.Parent(), func(x ssa.Instruction) {
				cl, isCall := x.(*ssa.Call)
				if !isCall {
					return
				}
				g := eng.StaticCallee(cl.Common())
				if g == nil || !eng.InModule(g) || seenG[g] {
					return
				}
				for _, a := range cl.Call.Args {
					mc, isMC := a.(*ssa.MakeClosure)
					if !isMC || mc.Fn != ssa.Value(fn) {
						continue
					}
					seenG[g] = true
					scope := append([]*ssa.Function{g}, g.AnonFuncs...)
					for _, h := range scope {
						eng.EachInstr(h, func(y ssa.Instruction) {
							c2, isC2 := y.(*ssa.Call)
							if !isC2 || c2.Call.IsInvoke() || eng.StaticCallee(c2.Common()) != nil {
								return
							}
							if types.Identical(c2.Call.Value.Type().Underlying(), fn.Signature) {
								out = append(out, c2)
							}
						})
					}
				}
			})
			return out
		}
		// explore walks forward from (start, from) with what is known about boolean values and
		// about the boolean held in local cells; it reports a visitor call that is still reachable
		type kstate struct {
			vals  map[ssa.Value]bool
			cells map[ssa.Value]bool
		}
		cloneK := func(k kstate) kstate {
			n := kstate{map[ssa.Value]bool{}, map[ssa.Value]bool{}}
			for a, b := range k.vals {
				n.vals[a] = b
			}
			for a, b := range k.cells {
				n.cells[a] = b
			}
			return n
		}
		keyK := func(b *ssa.BasicBlock, k kstate) string {
			var parts []string
			for a, v := range k.cells {
				parts = append(parts, fmt.Sprintf("%s=%v", a.Name(), v))
			}
			for a, v := range k.vals {
				parts = append(parts, fmt.Sprintf("%s=%v", a.Name(), v))
			}
			sort.Strings(parts)
			return fmt.Sprintf("%d|%s", b.Index, strings.Join(parts, ","))
		}
		boolOf := func(v ssa.Value, k kstate) (bool, bool) {
			if c0, ok := v.(*ssa.Const); ok && c0.Value != nil && c0.Value.Kind() == constant.Bool {
				return constant.BoolVal(c0.Value), true
			}
			if b, ok := k.vals[v]; ok {
				return b, true
			}
			return false, false
		}
		var explore func(fn *ssa.Function, start *ssa.BasicBlock, from int, k0 kstate, depth int) ssa.Instruction
		explore = func(fn *ssa.Function, start *ssa.BasicBlock, from int, k0 kstate, depth int) ssa.Instruction {
			if depth > 4 {
				return nil
			}
			seen := map[string]bool{}
			type retK struct {
				rt *ssa.Return
				k  kstate
			}
			var rets []retK
			var bad ssa.Instruction
			var walk func(b *ssa.BasicBlock, i0 int, k kstate, pred *ssa.BasicBlock)
			walk = func(b *ssa.BasicBlock, i0 int, k kstate, pred *ssa.BasicBlock) {
				if bad != nil {
					return
				}
				if i0 == 0 {
					key := keyK(b, k)
					if pred != nil {
						key += fmt.Sprintf("<%d", pred.Index)
					}
					if seen[key] || len(seen) > 4000 {
						return
					}
					seen[key] = true
				}
				k = cloneK(k)
				for i := i0; i < len(b.Instrs); i++ {
					in := b.Instrs[i]
					if isVis[in] {
						bad = in
						return
					}
					switch x := in.(type) {
					case *ssa.Call:
						if g := eng.StaticCallee(x.Common()); g != nil && eng.FuncPkgPath(g) == eng.FuncPkgPath(vm) && reaches(g) {
							bad = in
							return
						}
						// a callback of the visitor-holding kind invoked again
						if eng.StaticCallee(x.Common()) == nil && !x.Call.IsInvoke() {
							for h := range holder {
								if h.Parent() != nil && types.Identical(x.Call.Value.Type().Underlying(), h.Signature) {
									bad = in
									return
								}
							}
						}
					case *ssa.Store:
						if _, isAl := x.Addr.(*ssa.Alloc); isAl {
							if bv, ok := boolOf(x.Val, k); ok {
								k.cells[x.Addr] = bv
							} else {
								delete(k.cells, x.Addr)
							}
						}
					case *ssa.UnOp:
						if x.Op == token.MUL {
							if bv, ok := k.cells[x.X]; ok {
								k.vals[x] = bv
							}
						}
						if x.Op == token.NOT {
							if bv, ok := boolOf(x.X, k); ok {
								k.vals[x] = !bv
							}
						}
					case *ssa.Phi:
						// the edge this path came in by
						if pred != nil {
							for pi, pb := range b.Preds {
								if pb == pred && pi < len(x.Edges) {
									if bv, ok := boolOf(x.Edges[pi], k); ok {
										k.vals[x] = bv
									} else {
										delete(k.vals, x)
									}
								}
							}
						}
					case *ssa.Return:
						rets = append(rets, retK{x, k})
					}
				}
				for e, sb := range b.Succs {
					if len(b.Succs) == 2 {
						if v, pol, ok := eng.CondTruth(b, e); ok {
							if kv, has := boolOf(v, k); has && kv != pol {
								continue
							}
						}
					}
					walk(sb, 0, k, b)
				}
			}
			walk(start, from, k0, nil)
			if bad != nil || fn == vm {
				return bad
			}
			// what the callers see: a result that has one known boolean value on every return reached
			nres := fn.Signature.Results().Len()
			constAt := make([]*bool, nres)
			for i := 0; i < nres; i++ {
				var val *bool
				same := len(rets) > 0
				for _, rk := range rets {
					rv := rk.rt.Results[i]
					bv, ok := boolOf(rv, rk.k)
					if !ok {
						bv, ok = boolOf(eng.ResolveLocalLoad(rv), rk.k)
					}
					if !ok || (val != nil && *val != bv) {
						same = false
						break
					}
					val = &bv
				}
				if same {
					constAt[i] = val
				}
			}
			for _, cl := range callersOf(fn) {
				kn := kstate{map[ssa.Value]bool{}, map[ssa.Value]bool{}}
				if nres == 1 && constAt[0] != nil {
					kn.vals[cl] = *constAt[0]
				}
				if cl.Referrers() != nil {
					for _, ref := range *cl.Referrers() {
						if ex, ok := ref.(*ssa.Extract); ok && ex.Index < nres && constAt[ex.Index] != nil {
							kn.vals[ex] = *constAt[ex.Index]
						}
					}
				}
				idx := 0
				for i, x := range cl.Block().Instrs {
					if x == ssa.Instruction(cl) {
						idx = i
					}
				}
				if hit := explore(cl.Parent(), cl.Block(), idx+1, kn, depth+1); hit != nil {
					return hit
				}
			}
			return nil
		}
		for _, cl := range calls {
			n++
			cons := "visitor@" + shortFn(cl.Parent())
			var hit ssa.Instruction
			found := false
			k0 := kstate{map[ssa.Value]bool{cl: false}, map[ssa.Value]bool{}}
			for _, b := range cl.Parent().Blocks {
				if len(b.Succs) != 2 {
					continue
				}
				for k := 0; k < 2; k++ {
					v, pol, ok := eng.CondTruth(b, k)
					if !ok || pol || v != ssa.Value(cl) {
						continue
					}
					found = true
					if h := explore(cl.Parent(), b.Succs[k], 0, k0, 0); h != nil {
						hit = h
					}
				}
			}
			if !found {
				// the answer is handed on (returned, or kept in a variable): follow it from the call
				idx := 0
				for i, x := range cl.Block().Instrs {
					if x == ssa.Instruction(cl) {
						idx = i
					}
				}
				if cl.Referrers() != nil && len(*cl.Referrers()) > 0 {
					found = true
					hit = explore(cl.Parent(), cl.Block(), idx+1, k0, 0)
				}
			}
			switch {
			case !found:
				r.Bad(rule, cons, p.InstrPos(cl), "the visitor's answer is not used: the walk cannot be stopped")
			case hit != nil:
				r.Bad(rule, cons, p.InstrPos(cl), "after the visitor has answered false here the walk can still reach %s and call it again: a scan that asked to stop (shutdown, a limit reached) is handed further mailboxes, and the two stores no longer behave alike", p.InstrPos(hit))
			default:
				r.Ok(rule, cons, p.InstrPos(cl), "a false answer ends the walk: no further visitor call is reachable")
			}
		}
	}
	return n
}
