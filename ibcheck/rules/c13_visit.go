package rules

import (
	"go/token"
	"go/types"

	"golang.org/x/tools/go/ssa"

	"ibcheck/eng"
)

// pop3Visit describes one use of a snapshot iterator: a function of the package that ranges
// over Session.messages and calls a function parameter per element under a retain[i] test
// (eachMessage(want, visit)), together with one call of it that supplies the callback.
type pop3Visit struct {
	iter      *ssa.Function       // the iterating helper
	loop      snapLoop            // its loop over the snapshot
	call      *ssa.Call           // visit(…) inside the loop
	site      ssa.CallInstruction // the call of iter that passes the callback
	closure   *ssa.Function       // the callback
	want      bool                // value of retain[i] under which the callback runs
	idxParam  *ssa.Parameter      // callback parameter bound to i (nil: not passed)
	elemParam *ssa.Parameter      // callback parameter bound to messages[i] (nil: not passed)
}

// retainGuardOf: the block is dominated by an edge on which retain[idx] equals a constant or a
// bool parameter of the function.
func (m *pop3Model) retainGuardOf(at *ssa.BasicBlock, idx ssa.Value) (want bool, prm *ssa.Parameter, ok bool) {
	isRetainLoad := func(v ssa.Value) bool {
		u, isU := v.(*ssa.UnOp)
		if !isU {
			return false
		}
		ia, isIA := u.X.(*ssa.IndexAddr)
		return isIA && eng.SameField(m.loadedField(ia.X), m.fRetain) && sameIndex(ia.Index, idx)
	}
	for _, b := range at.Parent().Blocks {
		for k := 0; k < len(b.Succs) && len(b.Succs) == 2; k++ {
			if !eng.EdgeDominates(b, k, at) {
				continue
			}
			if v, pol, okT := eng.CondTruth(b, k); okT && isRetainLoad(v) {
				return pol, nil, true
			}
			rel, okR := eng.EdgeRel(b, k)
			if !okR || (rel.Op != token.EQL && rel.Op != token.NEQ) {
				continue
			}
			x, y := rel.X, rel.Y
			if isRetainLoad(y) {
				x, y = y, x
			}
			if !isRetainLoad(x) {
				continue
			}
			if bv, isC := eng.ConstBool(y); isC {
				return bv == (rel.Op == token.EQL), nil, true
			}
			if pp, isP := y.(*ssa.Parameter); isP && rel.Op == token.EQL {
				return false, pp, true
			}
		}
	}
	return false, nil, false
}

// visits enumerates the iterator uses of the package.
func (m *pop3Model) visits() []pop3Visit {
	if m.visitsDone {
		return m.visitList
	}
	m.visitsDone = true
	p := m.c.P
	for _, lp := range m.snapshotLoops() {
		g := lp.fn
		if g.Parent() != nil {
			continue
		}
		for _, b := range g.Blocks {
			if !lp.header.Succs[0].Dominates(b) {
				continue
			}
			for _, in := range b.Instrs {
				call, ok := in.(*ssa.Call)
				if !ok || call.Call.IsInvoke() {
					continue
				}
				fp, ok := call.Call.Value.(*ssa.Parameter)
				if !ok || fp.Parent() != g {
					continue
				}
				if _, isSig := fp.Type().Underlying().(*types.Signature); !isSig {
					continue
				}
				cw, wp, gok := m.retainGuardOf(b, lp.idx)
				for _, cs := range p.StaticCallSites(g) {
					fi := eng.ParamIndex(fp)
					if fi < 0 || fi >= len(cs.Args) {
						continue
					}
					h, _, okF := eng.FuncValueOf(cs.Args[fi])
					if !okF || h == nil {
						continue
					}
					v := pop3Visit{iter: g, loop: lp, call: call, site: cs.Instr, closure: h}
					if !gok {
						continue // unguarded iteration: not a retain-selected visit
					}
					v.want = cw
					if wp != nil {
						wi := eng.ParamIndex(wp)
						if wi < 0 || wi >= len(cs.Args) {
							continue
						}
						bv, isC := eng.ConstBool(cs.Args[wi])
						if !isC {
							continue
						}
						v.want = bv
					}
					for k, a := range call.Call.Args {
						if k >= len(h.Params) {
							break
						}
						if sameIndex(a, lp.idx) {
							v.idxParam = h.Params[k]
						}
						if u, isU := a.(*ssa.UnOp); isU {
							if ia, isIA := u.X.(*ssa.IndexAddr); isIA && eng.SameField(m.loadedField(ia.X), m.fMessages) && sameIndex(ia.Index, lp.idx) {
								v.elemParam = h.Params[k]
							}
						}
					}
					m.visitList = append(m.visitList, v)
				}
			}
		}
	}
	return m.visitList
}

// visitOf returns the iterator use whose callback is fn.
func (m *pop3Model) visitOf(fn *ssa.Function) (pop3Visit, bool) {
	var out pop3Visit
	n := 0
	for _, v := range m.visits() {
		if v.closure == fn {
			out = v
			n++
		}
	}
	return out, n == 1
}
