package rules

import (
	"fmt"
	"go/token"
	"go/types"
	"strings"

	"golang.org/x/tools/go/ssa"

	"ibcheck/eng"
)

// pairing implements the site-classification + pairing rules shared by C08/D1 (every
// removal is reported to the size enforcer) and C16/D1 (every removal emits exactly the
// deleted event of the removed message).

type removeSite struct {
	store string // "mem" | "file"
	fn    *ssa.Function
	in    ssa.Instruction
	kind  string
}

type pairModel struct {
	loopPred    eng.Pred // the effect currently searched for (see loopCovers)
	fieldBusy   map[*types.Var]bool
	c           *Ctx
	memMsgs     *types.Var // mem.mbox.messages
	fileMsgs    *types.Var // file.mbox.messages
	fRemove     *types.Var // mem.Store.remove
	fIncoming   *types.Var
	fDeleted    *types.Var // extension.Events.AfterMessageDeleted
	fStored     *types.Var
	emitObj     *types.Func // AsyncEventBroker.Emit (generic origin)
	makeMeta    *ssa.Function
	enforcerRm  *ssa.Function
	enforcerDlv *ssa.Function
	// the rendezvous as one shared helper that is handed the channel (enforcerSend(s.remove, m),
	// s.remove.submit(m)): a call of it is a removal notice or a delivery notice according to
	// the channel field passed at chanIdx
	enforcerVia     *ssa.Function
	enforcerChanIdx int
	enforcerLoop    *ssa.Function
	phiBusy         map[*ssa.Phi]bool
	// assumed: parameters of a helper under analysis that stand for removed messages (or a
	// slice of them) because every call passes such a value
	assumed    map[ssa.Value]bool
	helperBusy map[*ssa.Function]bool
	// fnBind: function-valued parameters of a helper under analysis, bound to the function the
	// call being examined passes (forEachMessage(removed, s.enforcer.removed))
	fnBind  map[ssa.Value]*ssa.Function
	adds    []removeSite
	removes []removeSite
	loads   []removeSite
	inits   []removeSite
	unknown []removeSite
	ok      bool
}

func (c *Ctx) pairing() *pairModel {
	p := c.P
	m := &pairModel{c: c}
	m.memMsgs = p.Field("pkg/storage/mem", "mbox", "messages")
	m.fileMsgs = p.Field("pkg/storage/file", "mbox", "messages")
	m.fIncoming, m.fRemove = memEnforcerChans(p)
	if m.fIncoming == nil || m.fRemove == nil {
		// the loop's shape was not recognised: the fields by their names, if they are there
		m.fIncoming, m.fRemove = p.OptField("pkg/storage/mem", "Store", "incoming"), p.OptField("pkg/storage/mem", "Store", "remove")
	}
	if m.fIncoming == nil || m.fRemove == nil {
		p.Unresolved = append(p.Unresolved, "pkg/storage/mem: the size enforcer's two request channels (struct fields of type chan *T, T holding a *Message, received in one select loop; the arm that pushes onto the list is the incoming one)")
	}
	m.fDeleted = p.Field("pkg/extension", "Events", "AfterMessageDeleted")
	m.fStored = p.Field("pkg/extension", "Events", "AfterMessageStored")
	m.makeMeta = p.Func("pkg/message", "MakeMetadata")
	if m.memMsgs == nil || m.fileMsgs == nil || m.fRemove == nil || m.fIncoming == nil || m.fDeleted == nil || m.fStored == nil || m.makeMeta == nil {
		return m
	}
	// generic Emit: method named Emit on the named type of the AfterMessageDeleted field
	if n, ok := m.fDeleted.Type().(*types.Named); ok {
		obj, _, _ := types.LookupFieldOrMethod(types.NewPointer(n), true, n.Obj().Pkg(), "Emit")
		if f, ok := obj.(*types.Func); ok {
			m.emitObj = f.Origin()
		}
	}
	if m.emitObj == nil {
		c.R.Fatal("UNRESOLVED anchor=AsyncEventBroker.Emit")
		return m
	}
	// roles in mem
	for _, fn := range pkgFuncs(p, "pkg/storage/mem") {
		fn := fn
		eng.EachInstr(fn, func(in ssa.Instruction) {
			switch x := in.(type) {
			case *ssa.Send:
				if eng.SameField(eng.LoadedField(x.Chan), m.fRemove) {
					m.enforcerRm = fn
				}
				if eng.SameField(eng.LoadedField(x.Chan), m.fIncoming) {
					m.enforcerDlv = fn
				}
			case *ssa.Select:
				for _, st := range x.States {
					// the channel is the field itself, or a parameter bound to it where the
					// loop is started (go s.maxSizeEnforcer(s.incoming, s.remove, max))
					ch := eng.StripConv(st.Chan)
					if prm, isP := ch.(*ssa.Parameter); isP {
						ch = eng.StripConv(p.Actual(prm))
					}
					if st.Dir == types.RecvOnly && eng.SameField(eng.LoadedField(ch), m.fRemove) {
						m.enforcerLoop = fn
					}
				}
			}
		})
	}
	// the rendezvous may be a shared helper taking the channel as a parameter
	// (enforcerSend(s.remove, m)): the role then belongs to the function that passes the field
	via := map[*ssa.Function]int{}
	viaCallers := map[*ssa.Function][]*ssa.Function{}
	defer func() {
		// when the functions that pass the field are not dedicated wrappers (one function passes
		// both channels, or store operations pass them directly), the notices are the calls of
		// the shared helper themselves
		for g, idx := range via {
			dedicated := m.enforcerRm != nil && m.enforcerDlv != nil && m.enforcerRm != m.enforcerDlv && len(viaCallers[g]) == 2
			if !dedicated {
				m.enforcerVia, m.enforcerChanIdx = g, idx
			}
		}
	}()
	for _, fn := range pkgFuncs(p, "pkg/storage/mem") {
		fn := fn
		eng.EachInstr(fn, func(in ssa.Instruction) {
			call, ok := in.(*ssa.Call)
			if !ok {
				return
			}
			g := eng.StaticCallee(call.Common())
			if g == nil || eng.FuncPkgPath(g) != eng.Mod+"/pkg/storage/mem" {
				return
			}
			for i, a := range call.Call.Args {
				f := eng.LoadedField(eng.StripConv(a))
				if f == nil || i >= len(g.Params) {
					continue
				}
				sends := false
				for _, ref := range *g.Params[i].Referrers() {
					if sd, ok := ref.(*ssa.Send); ok && sd.Chan == ssa.Value(g.Params[i]) {
						sends = true
					}
				}
				if !sends {
					continue
				}
				if eng.SameField(f, m.fRemove) || eng.SameField(f, m.fIncoming) {
					via[g] = i
					viaCallers[g] = append(viaCallers[g], fn)
				}
				if eng.SameField(f, m.fRemove) && m.enforcerRm == nil {
					m.enforcerRm = fn
				}
				if eng.SameField(f, m.fIncoming) && m.enforcerDlv == nil {
					m.enforcerDlv = fn
				}
			}
		})
	}
	if m.enforcerRm == nil || m.enforcerDlv == nil || m.enforcerLoop == nil {
		c.R.Fatal("UNRESOLVED anchor=mem enforcer roles (send on Store.remove / Store.incoming, select loop)")
		return m
	}
	m.classify()
	m.ok = true
	return m
}

// classify every writer of the two message containers.
func (m *pairModel) classify() {
	p := m.c.P
	for _, fn := range pkgFuncs(p, "pkg/storage/mem") {
		fn := fn
		eng.EachInstr(fn, func(in ssa.Instruction) {
			switch x := in.(type) {
			case *ssa.MapUpdate:
				if eng.SameField(eng.LoadedField(x.Map), m.memMsgs) {
					m.adds = append(m.adds, removeSite{"mem", fn, in, "map-insert"})
				}
			case *ssa.Call:
				if eng.CalleeName(x.Common()) == "builtin.delete" && eng.SameField(eng.LoadedField(x.Call.Args[0]), m.memMsgs) {
					m.removes = append(m.removes, removeSite{"mem", fn, in, "delete"})
				}
			case *ssa.Store:
				fa, ok := x.Addr.(*ssa.FieldAddr)
				if !ok || !eng.SameField(eng.FieldOfAddr(fa), m.memMsgs) {
					return
				}
				if _, fresh := fa.X.(*ssa.Alloc); fresh {
					m.inits = append(m.inits, removeSite{"mem", fn, in, "init"})
					return
				}
				if _, isNew := x.Val.(*ssa.MakeMap); isNew {
					m.removes = append(m.removes, removeSite{"mem", fn, in, "map-swap"})
					return
				}
				m.unknown = append(m.unknown, removeSite{"mem", fn, in, "store"})
			}
		})
	}
	readIndex := p.OptMethod("pkg/storage/file", "mbox", "readIndex")
	for _, fn := range pkgFuncs(p, "pkg/storage/file") {
		fn := fn
		eng.EachInstr(fn, func(in ssa.Instruction) {
			x, ok := in.(*ssa.Store)
			if !ok {
				return
			}
			fa, ok := x.Addr.(*ssa.FieldAddr)
			if !ok || !eng.SameField(eng.FieldOfAddr(fa), m.fileMsgs) {
				return
			}
			if _, fresh := fa.X.(*ssa.Alloc); fresh {
				m.inits = append(m.inits, removeSite{"file", fn, in, "init"})
				return
			}
			if fn == readIndex || readIndex != nil && m.onLoadPath(fn, readIndex) {
				m.loads = append(m.loads, removeSite{"file", fn, in, "load"})
				return
			}
			switch v := x.Val.(type) {
			case *ssa.Call:
				if eng.CalleeName(v.Common()) == "builtin.append" {
					base := v.Call.Args[0]
					if eng.SameField(eng.LoadedField(base), m.fileMsgs) {
						m.adds = append(m.adds, removeSite{"file", fn, in, "append"})
						return
					}
					if sl, ok := base.(*ssa.Slice); ok && eng.SameField(eng.LoadedField(sl.X), m.fileMsgs) {
						m.removes = append(m.removes, removeSite{"file", fn, in, "slice-out"})
						return
					}
				}
			case *ssa.Slice:
				if eng.SameField(eng.LoadedField(v.X), m.fileMsgs) {
					if k, ok := eng.ConstInt(v.High); ok && k == 0 {
						m.removes = append(m.removes, removeSite{"file", fn, in, "clear"})
						return
					}
				}
			}
			m.unknown = append(m.unknown, removeSite{"file", fn, in, "store"})
		})
	}
}

// onLoadPath: fn is a helper that only ever runs as part of readIndex.
func (m *pairModel) onLoadPath(fn, readIndex *ssa.Function) bool {
	if fn == readIndex {
		return true
	}
	ok, _ := m.c.P.OnlyReachedFrom(fn, func(g *ssa.Function) bool { return g == readIndex })
	return ok
}

// isMsgContainer: v is (a snapshot of) one of the message containers.
func (m *pairModel) isMsgContainer(v ssa.Value, depth int) bool {
	if depth > 14 {
		return false
	}
	if m.assumed[v] {
		return true
	}
	if f := eng.LoadedField(v); eng.SameField(f, m.memMsgs) || eng.SameField(f, m.fileMsgs) {
		return true
	}
	if ad := eng.LoadAddr(v); ad != nil {
		if cell := eng.CellOf(ad); cell != nil && !eng.CellEscapes(cell) {
			sts := eng.CellStores(cell)
			for _, st := range sts {
				if !m.isMsgContainer(st.Val, depth+1) && !m.isRemovedSlice(st.Val, depth+1) {
					return false
				}
			}
			return len(sts) > 0
		}
	}
	if ph, ok := v.(*ssa.Phi); ok {
		for _, e := range ph.Edges {
			if !m.isMsgContainer(e, depth+1) && !m.isRemovedSlice(e, depth+1) {
				return false
			}
		}
		return true
	}
	// a module helper handing out (a snapshot of) the container
	if call, ok := v.(*ssa.Call); ok && eng.CalleeName(call.Common()) != "builtin.append" {
		if rets, g := eng.ReturnedValues(call, 0); g != nil && len(rets) > 0 {
			all := true
			for _, rv := range rets {
				if !m.isMsgContainer(rv, depth+1) {
					all = false
				}
			}
			if all {
				return true
			}
		}
	}
	return m.isRemovedSlice(v, depth)
}

// isRemovedSlice: v is a slice built only by appending removed messages.
func (m *pairModel) isRemovedSlice(v ssa.Value, depth int) bool {
	if depth > 14 {
		return false
	}
	if m.assumed[v] {
		return true
	}
	switch x := v.(type) {
	case *ssa.Const:
		return x.IsNil()
	case *ssa.Phi:
		// a lifted accumulator: nil | append(itself, removed...)
		if m.phiBusy == nil {
			m.phiBusy = map[*ssa.Phi]bool{}
		}
		if m.phiBusy[x] {
			return true
		}
		m.phiBusy[x] = true
		defer delete(m.phiBusy, x)
		for _, e := range x.Edges {
			if !m.isRemovedSlice(e, depth+1) {
				return false
			}
		}
		return true
	case *ssa.Call:
		if eng.CalleeName(x.Common()) != "builtin.append" {
			// a module helper returning the removed messages
			if rets, g := eng.ReturnedValues(x, 0); g != nil && len(rets) > 0 {
				for _, rv := range rets {
					if !m.isRemovedSlice(rv, depth+1) {
						return false
					}
				}
				return true
			}
		}
		if eng.CalleeName(x.Common()) == "builtin.append" {
			base, arg := x.Call.Args[0], x.Call.Args[1]
			if !(m.isRemovedSliceOrSelf(base, depth+1)) {
				return false
			}
			// variadic slice holding the appended elements
			if sl, ok := arg.(*ssa.Slice); ok {
				if al, ok := sl.X.(*ssa.Alloc); ok {
					okAll, n := true, 0
					for _, ref := range *al.Referrers() {
						if ia, ok := ref.(*ssa.IndexAddr); ok {
							for _, r2 := range *ia.Referrers() {
								if st, ok := r2.(*ssa.Store); ok {
									n++
									if !m.removedOrigin(st.Val, depth+1) {
										okAll = false
									}
								}
							}
						}
					}
					return okAll && n > 0
				}
			}
			return false
		}
	case *ssa.UnOp:
		// a field of a per-call record (delivery.evicted) that is only ever assigned
		// append(itself, removed...)
		if f := eng.LoadedField(v); f != nil && m.isRemovedField(f, depth) {
			return true
		}
		if ad := eng.LoadAddr(v); ad != nil {
			if cell := eng.CellOf(ad); cell != nil && !eng.CellEscapes(cell) {
				if _, isSlice := cell.Type().(*types.Pointer).Elem().Underlying().(*types.Slice); !isSlice {
					return false
				}
				sts := eng.CellStores(cell)
				for _, st := range sts {
					if !m.isRemovedSliceOrSelfCell(st.Val, cell, depth+1) {
						return false
					}
				}
				return true
			}
		}
	}
	return false
}

func (m *pairModel) isRemovedSliceOrSelf(v ssa.Value, depth int) bool {
	return m.isRemovedSlice(v, depth)
}

// isRemovedField: f is a slice field of a struct of the storage packages, not one of the
// message containers, and every store to it in its package is append(f itself, removed...).
func (m *pairModel) isRemovedField(f *types.Var, depth int) bool {
	if f.Pkg() == nil || !strings.HasPrefix(f.Pkg().Path(), eng.Mod+"/pkg/storage/") || eng.SameField(f, m.memMsgs) || eng.SameField(f, m.fileMsgs) {
		return false
	}
	if _, isSlice := f.Type().Underlying().(*types.Slice); !isSlice {
		return false
	}
	if m.fieldBusy[f] {
		return true
	}
	if m.fieldBusy == nil {
		m.fieldBusy = map[*types.Var]bool{}
	}
	m.fieldBusy[f] = true
	defer delete(m.fieldBusy, f)
	sts := eng.StoresToField(pkgFuncs(m.c.P, strings.TrimPrefix(f.Pkg().Path(), eng.Mod+"/")), f)
	for _, st := range sts {
		if !m.isRemovedSliceOrSelf2(st.Store.Val, func(base ssa.Value) bool { return eng.SameField(eng.LoadedField(base), f) }, depth+1) {
			return false
		}
	}
	return len(sts) > 0
}

// isRemovedSliceOrSelfCell: append(load(cell), removed...) stored back to the same cell.
func (m *pairModel) isRemovedSliceOrSelfCell(v ssa.Value, cell *ssa.Alloc, depth int) bool {
	return m.isRemovedSliceOrSelf2(v, func(base ssa.Value) bool {
		ad := eng.LoadAddr(base)
		return ad != nil && eng.CellOf(ad) == cell
	}, depth)
}

func (m *pairModel) isRemovedSliceOrSelf2(v ssa.Value, isSelf func(ssa.Value) bool, depth int) bool {
	if depth > 14 {
		return false
	}
	if call, ok := v.(*ssa.Call); ok && eng.CalleeName(call.Common()) == "builtin.append" {
		base := call.Call.Args[0]
		if isSelf(base) {
			// elements
			if sl, ok := call.Call.Args[1].(*ssa.Slice); ok {
				if al, ok := sl.X.(*ssa.Alloc); ok {
					okAll, n := true, 0
					for _, ref := range *al.Referrers() {
						if ia, ok := ref.(*ssa.IndexAddr); ok {
							for _, r2 := range *ia.Referrers() {
								if st, ok := r2.(*ssa.Store); ok {
									n++
									if !m.removedOrigin(st.Val, depth+1) {
										okAll = false
									}
								}
							}
						}
					}
					return okAll && n > 0
				}
			}
			return false
		}
	}
	return m.isRemovedSlice(v, depth)
}

// removedOrigin: every non-nil source of v is an element of a message container (looked
// up, ranged over, indexed) or the result of a removal helper.
func (m *pairModel) removedOrigin(v ssa.Value, depth int) bool {
	if depth > 14 {
		return false
	}
	if m.assumed[v] {
		return true
	}
	switch x := v.(type) {
	case *ssa.Const:
		return x.IsNil()
	case *ssa.MakeInterface:
		return m.removedOrigin(x.X, depth+1)
	case *ssa.ChangeInterface:
		return m.removedOrigin(x.X, depth+1)
	case *ssa.Lookup:
		return m.isMsgContainer(x.X, depth+1)
	case *ssa.Extract:
		switch t := x.Tuple.(type) {
		case *ssa.Lookup:
			return x.Index == 0 && m.isMsgContainer(t.X, depth+1)
		case *ssa.Next:
			if rg, ok := t.Iter.(*ssa.Range); ok {
				return m.isMsgContainer(rg.X, depth+1)
			}
		}
		return false
	case *ssa.Phi:
		for _, e := range x.Edges {
			if !m.removedOrigin(e, depth+1) {
				return false
			}
		}
		return true
	case *ssa.Call:
		gs := []*ssa.Function{eng.StaticCallee(x.Common())}
		if gs[0] == nil && !x.Call.IsInvoke() {
			// a call through a function-valued field (e.evict = s.removeMessage): every function
			// the call graph resolves it to
			gs = nil
			for _, g := range m.c.P.Callees(x) {
				gs = append(gs, eng.UnwrapBound(g))
			}
		}
		if len(gs) == 0 {
			return false
		}
		for _, g := range gs {
			if g == nil || !eng.InModule(g) || g.Blocks == nil {
				return false
			}
			okAll, n := true, 0
			eng.EachInstr(g, func(in ssa.Instruction) {
				if ret, ok := in.(*ssa.Return); ok && len(eng.ReturnResults(ret)) == 1 {
					n++
					if !m.removedOrigin(eng.ReturnResults(ret)[0], depth+1) {
						okAll = false
					}
				}
			})
			if !okAll || n == 0 {
				return false
			}
		}
		return true
	case *ssa.UnOp:
		if x.Op != token.MUL {
			return false
		}
		if ia, ok := x.X.(*ssa.IndexAddr); ok {
			return m.isMsgContainer(ia.X, depth+1)
		}
		if cell := eng.CellOf(x.X); cell != nil && !eng.CellEscapes(cell) {
			sts := eng.CellStores(cell)
			for _, st := range sts {
				if !m.removedOrigin(st.Val, depth+1) {
					return false
				}
			}
			return true
		}
	}
	return false
}

// isDeletedEmit: call to AfterMessageDeleted.Emit(MakeMetadata(x)) with removedOrigin(x),
// or a call of a module helper whose body is such an Emit of its parameter.
func (m *pairModel) isEmit(in ssa.Instruction, field *types.Var, argOK func(ssa.Value) bool) bool {
	call, ok := in.(*ssa.Call)
	if !ok {
		return false
	}
	cc := call.Common()
	if eng.IsCallTo(cc, m.emitObj) {
		if len(cc.Args) < 2 || !eng.SameField(eng.AddrField(cc.Args[0]), field) {
			return false
		}
		return argOK(cc.Args[1])
	}
	// helper: static module callee (not a closure) that emits its own parameter
	g := eng.StaticCallee(cc)
	if g == nil || !eng.InModule(g) || g.Blocks == nil || g.Parent() != nil {
		return false
	}
	found := false
	eng.EachInstr(g, func(gi ssa.Instruction) {
		gc, ok := gi.(*ssa.Call)
		if !ok || !eng.IsCallTo(gc.Common(), m.emitObj) || len(gc.Call.Args) < 2 || !eng.SameField(eng.AddrField(gc.Call.Args[0]), field) {
			return
		}
		// which parameter of g feeds the event?
		ev := gc.Call.Args[1]
		for i, prm := range g.Params {
			if metaOf(ev, m.makeMeta) == ssa.Value(prm) || unwrapIface(metaOf(ev, m.makeMeta)) == ssa.Value(prm) {
				if i < len(cc.Args) {
					// the helper emits MakeMetadata(param): check the actual argument
					fake := cc.Args[i]
					if argOK(&metaWrap{fake}) {
						found = true
					}
				}
			}
		}
	})
	return found
}

// metaWrap lets argOK see "MakeMetadata(x)" for a helper's actual argument.
type metaWrap struct{ ssa.Value }

func unwrapIface(v ssa.Value) ssa.Value {
	for {
		switch x := v.(type) {
		case *ssa.MakeInterface:
			v = x.X
		case *ssa.ChangeInterface:
			v = x.X
		default:
			return v
		}
	}
}

// metaOf returns x if ev is MakeMetadata(x), else nil.
func metaOf(ev ssa.Value, makeMeta *ssa.Function) ssa.Value {
	if w, ok := ev.(*metaWrap); ok {
		return w.Value
	}
	call, ok := ev.(*ssa.Call)
	if !ok || eng.StaticCallee(call.Common()) != makeMeta {
		return nil
	}
	return call.Call.Args[0]
}

func (m *pairModel) deletedEmitPred() eng.Pred {
	return func(in ssa.Instruction) bool {
		return m.isEmit(in, m.fDeleted, func(ev ssa.Value) bool {
			x := metaOf(ev, m.makeMeta)
			return x != nil && m.removedOrigin(x, 0)
		})
	}
}

func (m *pairModel) enforcerRemovePred() eng.Pred {
	return func(in ssa.Instruction) bool {
		call, ok := in.(*ssa.Call)
		if !ok {
			return false
		}
		if m.enforcerVia != nil {
			if m.calleeOf(call.Common()) != m.enforcerVia || m.enforcerChanIdx >= len(call.Call.Args) || !eng.SameField(eng.LoadedField(eng.StripConv(call.Call.Args[m.enforcerChanIdx])), m.fRemove) {
				return false
			}
			args := call.Call.Args
			return m.removedOrigin(args[len(args)-1], 0)
		}
		if m.calleeOf(call.Common()) != m.enforcerRm {
			return false
		}
		args := call.Call.Args
		return m.removedOrigin(args[len(args)-1], 0)
	}
}

// nothingRemovedEdge: taking edge (b,k) implies that no message was removed / remains to
// be processed: a nil test of a removed-origin value, or the exit of a loop ranging over a
// removed container.
func (m *pairModel) nothingRemovedEdge(b *ssa.BasicBlock, k int, allowEnforcerOff bool) bool {
	if len(b.Succs) != 2 {
		return false
	}
	if r, ok := eng.EdgeRel(b, k); ok {
		x, y := r.X, r.Y
		if eng.IsNilConst(x) {
			x, y = y, x
		}
		if eng.IsNilConst(y) && r.Op == token.EQL {
			if m.removedOrigin(x, 0) && !eng.IsNilConst(x) {
				return true
			}
			if allowEnforcerOff && (eng.SameField(eng.LoadedField(x), m.fRemove) || m.holdsEnforcer(eng.LoadedField(x))) {
				return true
			}
		}
		// slice range exit: !(i < len(S))
		if r.Op == token.GEQ {
			if s := eng.LenOf(r.Y); s != nil && m.isMsgContainer(s, 0) {
				return m.loopCovers(b, k)
			}
		}
	}
	// map range exit: ok == false
	if v, pol, ok := eng.CondTruth(b, k); ok && !pol {
		if e, ok := v.(*ssa.Extract); ok && e.Index == 0 {
			if nx, ok := e.Tuple.(*ssa.Next); ok {
				if rg, ok := nx.Iter.(*ssa.Range); ok && m.isMsgContainer(rg.X, 0) {
					return m.loopCovers(b, k)
				}
			}
		}
	}
	return false
}

// loopCovers: the exit edge (b,k) of a loop over removed messages means "all of them were
// dealt with" only if no iteration can skip the effect being looked for: every path from the
// loop body back to the loop's test passes it. Without a current effect the edge counts.
func (m *pairModel) loopCovers(b *ssa.BasicBlock, k int) bool {
	if m.loopPred == nil || len(b.Succs) != 2 {
		return true
	}
	body := b.Succs[1-k]
	pred := m.loopPred
	has := false
	for _, blk := range b.Parent().Blocks {
		if !body.Dominates(blk) {
			continue
		}
		for _, in := range blk.Instrs {
			if pred(in) {
				has = true
			}
		}
	}
	if !has {
		// a loop that does something else with the removed messages: leaving it says nothing
		// about this effect
		return false
	}
	// the loop test may sit in b itself or in a header that b's back edge leads to
	back := func(in ssa.Instruction) bool {
		blk := in.Block()
		return in == blk.Instrs[0] && blk.Dominates(b) && blk != body && !body.Dominates(blk)
	}
	m.loopPred = nil // the inner search must not recurse into this test
	defer func() { m.loopPred = pred }()
	return (&eng.Search{Target: back, Avoid: pred}).FromBlockStart(body) == nil
}

// removalInstrIn returns the instruction in T that performs site's removal: the site itself
// if it is in T, else the call in T that receives the closure containing it.
func removalInstrIn(T *ssa.Function, site removeSite) ssa.Instruction {
	if site.fn == T {
		return site.in
	}
	// closure chain up to T
	g := site.fn
	for g.Parent() != nil && g.Parent() != T {
		g = g.Parent()
	}
	if g.Parent() != T {
		return nil
	}
	var out ssa.Instruction
	eng.EachInstr(T, func(in ssa.Instruction) {
		call, ok := in.(*ssa.Call)
		if !ok {
			return
		}
		for _, a := range call.Call.Args {
			if mc, ok := a.(*ssa.MakeClosure); ok && mc.Fn == ssa.Value(g) {
				out = in
			}
		}
	})
	return out
}

type pairVerdict struct {
	ok     bool
	where  string
	detail string
}

// checkPair decides one (remove site, effect) obligation.
func (m *pairModel) checkPair(site removeSite, effect string) pairVerdict {
	// the effect may be complete inside the closure that removes (a critical section run by
	// a lock gate: mb.update(func() error { emit …; clear; writeIndex }))
	if site.fn.Parent() != nil {
		if v := m.checkClosure(site.fn, site.in, effect); v.ok {
			return v
		}
	}
	T := eng.Outer(site.fn)
	ri := removalInstrIn(T, site)
	if ri == nil {
		return pairVerdict{false, "", "cannot locate the call that runs the removing closure"}
	}
	return m.checkIn(T, ri, effect, 0, map[*ssa.Function]bool{})
}

// checkClosure: checkIn restricted to the closure cl itself (no lifting).
func (m *pairModel) checkClosure(cl *ssa.Function, ri ssa.Instruction, effect string) pairVerdict {
	var pred eng.Pred
	allowOff := false
	switch effect {
	case "deleted-event":
		pred = m.deletedEmitPred()
	case "enforcer-account":
		pred = m.enforcerRemovePred()
		allowOff = true
	default:
		return pairVerdict{}
	}
	pred = m.orViaHelper(pred, allowOff)
	saved := m.loopPred
	m.loopPred = pred
	defer func() { m.loopPred = saved }()
	edgeOK := func(b *ssa.BasicBlock, k int) bool { return !m.nothingRemovedEdge(b, k, allowOff) }
	has := false
	for _, b := range cl.Blocks {
		for _, in := range b.Instrs {
			if pred(in) {
				has = true
			}
		}
	}
	if !has {
		return pairVerdict{}
	}
	p := m.c.P
	if (&eng.Search{Target: eng.IsReturnOf(cl), Avoid: pred, Edge: edgeOK}).After(ri) == nil {
		return pairVerdict{true, p.InstrPos(ri), fmt.Sprintf("every path from the removal (%s) to the end of the closure passes %s for the removed message(s)", p.InstrPos(ri), effect)}
	}
	if (&eng.Search{Target: func(in ssa.Instruction) bool { return in == ri }, Avoid: pred, Edge: edgeOK}).FromEntry(cl) == nil {
		return pairVerdict{true, p.InstrPos(ri), fmt.Sprintf("every path from the start of the closure to the removal (%s) passes %s for the message(s) about to be removed", p.InstrPos(ri), effect)}
	}
	return pairVerdict{}
}

func (m *pairModel) checkIn(T *ssa.Function, ri ssa.Instruction, effect string, depth int, seen map[*ssa.Function]bool) pairVerdict {
	p := m.c.P
	if seen[T] || depth > 6 {
		return pairVerdict{false, "", "caller chain too deep"}
	}
	seen[T] = true
	var pred eng.Pred
	allowOff := false
	switch effect {
	case "deleted-event":
		pred = m.deletedEmitPred()
	case "enforcer-deliver":
		pred = m.isEnforcerDeliver
	case "enforcer-account":
		pred = m.enforcerRemovePred()
		allowOff = true
		if T == m.enforcerLoop || eng.Outer(T) == m.enforcerLoop {
			return pairVerdict{true, p.Pos(T.Pos()), "performed by the enforcer goroutine itself (accounting decided by C08/ENFORCER/shape)"}
		}
	}
	edgeOK := func(b *ssa.BasicBlock, k int) bool { return !m.nothingRemovedEdge(b, k, allowOff) }
	if effect != "enforcer-deliver" {
		pred = m.orViaHelper(pred, allowOff)
		saved := m.loopPred
		m.loopPred = pred
		defer func() { m.loopPred = saved }()
	}
	var effects []ssa.Instruction
	eng.EachInstr(T, func(in ssa.Instruction) {
		if pred(in) {
			effects = append(effects, in)
		}
	})
	if len(effects) > 0 {
		// forward: removal → return must pass an effect (except via nothing-removed edges)
		fwd := (&eng.Search{Target: eng.IsReturn, Avoid: pred, Edge: edgeOK}).After(ri)
		if fwd == nil {
			return pairVerdict{true, p.InstrPos(effects[0]), fmt.Sprintf("every path from the removal (%s) to return passes %s for the removed message(s), except edges on which nothing was removed", p.InstrPos(ri), effect)}
		}
		if effect == "enforcer-deliver" {
			return pairVerdict{false, p.InstrPos(ri), fmt.Sprintf("a path from the insert at %s to return at %s does not call enforcerDeliver", p.InstrPos(ri), p.InstrPos(fwd))}
		}
		// backward: entry → removal must pass an effect (effect announced before removing)
		bwd := (&eng.Search{Target: func(in ssa.Instruction) bool { return in == ri }, Avoid: pred, Edge: edgeOK}).FromEntry(T)
		if bwd == nil {
			return pairVerdict{true, p.InstrPos(effects[0]), fmt.Sprintf("every path from entry to the removal (%s) passes %s for the message(s) about to be removed", p.InstrPos(ri), effect)}
		}
		return pairVerdict{false, p.InstrPos(ri), fmt.Sprintf("%s exists in %s but can be bypassed: path from the removal at %s reaches return at %s without it (and not via a nothing-removed edge)", effect, shortFn(T), p.InstrPos(ri), p.InstrPos(fwd))}
	}
	// not in T. A closure is lifted to the function that creates it (the removal then is the
	// call that receives the closure); otherwise every caller must do it around its call of T.
	if par := T.Parent(); par != nil {
		var site ssa.Instruction
		eng.EachInstr(par, func(in ssa.Instruction) {
			call, ok := in.(*ssa.Call)
			if !ok {
				return
			}
			for _, a := range call.Call.Args {
				if mc, ok := a.(*ssa.MakeClosure); ok && mc.Fn == ssa.Value(T) {
					site = in
				}
			}
		})
		if site != nil {
			v := m.checkIn(par, site, effect, depth+1, seen)
			if !v.ok {
				return pairVerdict{false, v.where, v.detail}
			}
			return v
		}
	}
	// a method handed over as a method value (s.withMailbox(name, true, d.file)): like a
	// closure, it is lifted to the calls that receive the value
	if sites, all := m.methodValueSites(T); all && len(sites) > 0 {
		var oks []string
		for _, site := range sites {
			v := m.checkIn(site.Parent(), site, effect, depth+1, seen)
			if !v.ok {
				return pairVerdict{false, v.where, fmt.Sprintf("%s receives the method value %s: %s", shortFn(site.Parent()), shortFn(T), v.detail)}
			}
			oks = append(oks, shortFn(site.Parent())+": "+v.detail)
		}
		return pairVerdict{true, p.InstrPos(ri), "provided where the method value is passed — " + strings.Join(oks, "; ")}
	}
	callers := p.CallersOf(T)
	if len(callers) == 0 || T.Object() != nil && T.Object().Exported() && T.Signature.Recv() != nil && isStoreAPI(T) {
		return pairVerdict{false, p.InstrPos(ri), fmt.Sprintf("no %s for the message(s) removed at %s: neither in %s nor (API method) anywhere a caller could compensate", effect, p.InstrPos(ri), shortFn(T))}
	}
	var oks []string
	for _, e := range callers {
		C := e.Caller.Func
		if eng.FuncPkgPath(C) != eng.FuncPkgPath(T) {
			continue
		}
		site := e.Site.(ssa.Instruction)
		// closures calling T: lift to the call in the outer function
		v := m.checkIn(C, site, effect, depth+1, seen)
		if !v.ok {
			return pairVerdict{false, v.where, fmt.Sprintf("caller %s of %s: %s", shortFn(C), shortFn(T), v.detail)}
		}
		oks = append(oks, shortFn(C)+": "+v.detail)
	}
	if len(oks) == 0 {
		return pairVerdict{false, p.InstrPos(ri), fmt.Sprintf("no %s for the removal at %s and no caller in the package provides it", effect, p.InstrPos(ri))}
	}
	return pairVerdict{true, p.InstrPos(ri), "provided by callers — " + strings.Join(oks, "; ")}
}

// methodValueSites returns the calls that receive T as a method value. all is false when T is
// also called directly or its method value goes anywhere else than straight into a call.
func (m *pairModel) methodValueSites(T *ssa.Function) (sites []ssa.Instruction, all bool) {
	if T.Parent() != nil || T.Signature.Recv() == nil {
		return nil, false
	}
	all = true
	for _, e := range m.c.P.CallersOf(T) {
		if eng.UnwrapBound(e.Caller.Func) != T || e.Caller.Func == T {
			all = false
		}
	}
	for _, f := range m.c.P.Funcs {
		if eng.FuncPkgPath(f) != eng.FuncPkgPath(T) {
			continue
		}
		eng.EachInstr(f, func(in ssa.Instruction) {
			mc, ok := in.(*ssa.MakeClosure)
			if !ok {
				return
			}
			g, ok := mc.Fn.(*ssa.Function)
			if !ok || g.Parent() != nil || g == T || eng.UnwrapBound(g) != T {
				return
			}
			for _, ref := range *mc.Referrers() {
				if call, ok := ref.(*ssa.Call); ok {
					isArg := false
					for _, a := range call.Call.Args {
						if a == ssa.Value(mc) {
							isArg = true
						}
					}
					if isArg {
						sites = append(sites, call)
						continue
					}
				}
				all = false
			}
		})
	}
	return sites, all
}

// isStoreAPI: method of the storage.Store interface.
func isStoreAPI(fn *ssa.Function) bool {
	switch fn.Name() {
	case "AddMessage", "GetMessage", "GetMessages", "MarkSeen", "PurgeMessages", "RemoveMessage", "VisitMailboxes":
		return true
	}
	return false
}

func siteName(s removeSite) string {
	return fmt.Sprintf("%s:%s:%s", s.store, shortFn(eng.Outer(s.fn)), s.kind)
}

// orViaHelper extends an effect predicate to calls of a helper of the same package that
// receives the removed message (or a slice of removed messages) and performs the effect for
// its parameter on every path through it (reportEvicted(evicted): for each, account + emit).
func (m *pairModel) orViaHelper(pred eng.Pred, allowOff bool) eng.Pred {
	var ext eng.Pred
	ext = func(in ssa.Instruction) bool {
		if pred(in) {
			return true
		}
		call, ok := in.(*ssa.Call)
		if !ok {
			return false
		}
		g := m.calleeOf(call.Common())
		if g == nil || !eng.InModule(g) || len(g.Blocks) == 0 || g.Parent() != nil || eng.FuncPkgPath(g) != eng.FuncPkgPath(in.Parent()) {
			return false
		}
		if g == m.enforcerRm || g == m.enforcerDlv || g == m.enforcerLoop || m.helperBusy[g] {
			return false
		}
		// a call through a bound method value carries its receiver in the closure
		off := 0
		if eng.StaticCallee(call.Common()) == nil && len(g.Params) > len(call.Call.Args) {
			off = len(g.Params) - len(call.Call.Args)
		}
		var prms []ssa.Value
		var bound []ssa.Value
		for i, a := range call.Call.Args {
			i += off
			if i >= len(g.Params) || eng.IsNilConst(a) {
				continue
			}
			if _, isFn := a.Type().Underlying().(*types.Signature); isFn {
				if fn, isNil, ok := eng.FuncValueOf(a); ok && !isNil && fn != nil {
					if m.fnBind == nil {
						m.fnBind = map[ssa.Value]*ssa.Function{}
					}
					if _, had := m.fnBind[g.Params[i]]; !had {
						m.fnBind[g.Params[i]] = fn
						bound = append(bound, g.Params[i])
					}
				}
				continue
			}
			switch a.Type().Underlying().(type) {
			case *types.Slice, *types.Map:
				if m.isRemovedSlice(a, 0) || m.isMsgContainer(a, 0) {
					prms = append(prms, g.Params[i])
				}
			case *types.Pointer, *types.Interface:
				if m.removedOrigin(a, 0) {
					prms = append(prms, g.Params[i])
				}
			}
		}
		defer func() {
			for _, v := range bound {
				delete(m.fnBind, v)
			}
		}()
		if len(prms) == 0 {
			return false
		}
		if m.assumed == nil {
			m.assumed = map[ssa.Value]bool{}
			m.helperBusy = map[*ssa.Function]bool{}
		}
		var added []ssa.Value
		for _, v := range prms {
			if !m.assumed[v] {
				m.assumed[v] = true
				added = append(added, v)
			}
		}
		m.helperBusy[g] = true
		defer func() {
			delete(m.helperBusy, g)
			for _, v := range added {
				delete(m.assumed, v)
			}
		}()
		has := false
		eng.EachInstr(g, func(gi ssa.Instruction) {
			if ext(gi) {
				has = true
			}
		})
		if !has {
			return false
		}
		edgeOK := func(b *ssa.BasicBlock, k int) bool { return !m.nothingRemovedEdge(b, k, allowOff) }
		return (&eng.Search{Target: eng.IsReturn, Avoid: ext, Edge: edgeOK}).FromEntry(g) == nil
	}
	return ext
}

// memEnforcerChans finds the two request channels of the memory store's size enforcer by role:
// struct fields of the package of type chan *T where T holds a *Message, both received in one
// select; the arm that pushes onto a container/list is the channel of new messages, the other
// the channel of removals. They may be fields of the Store or of an enforcer type of its own.
func memEnforcerChans(p *eng.Prog) (incoming, remove *types.Var) {
	msg := p.Named("pkg/storage/mem", "Message")
	if msg == nil {
		return nil, nil
	}
	isReq := func(t types.Type) bool {
		ch, ok := t.Underlying().(*types.Chan)
		if !ok {
			return false
		}
		pt, ok := ch.Elem().(*types.Pointer)
		if !ok {
			return false
		}
		st, ok := pt.Elem().Underlying().(*types.Struct)
		if !ok {
			return false
		}
		for i := 0; i < st.NumFields(); i++ {
			if fp, ok := st.Field(i).Type().(*types.Pointer); ok && types.Identical(fp.Elem(), msg) {
				return true
			}
		}
		return false
	}
	for _, fn := range pkgFuncs(p, "pkg/storage/mem") {
		for _, b := range fn.Blocks {
			for _, in := range b.Instrs {
				sel, ok := in.(*ssa.Select)
				if !ok {
					continue
				}
				var fields []*types.Var
				for _, st := range sel.States {
					ch := eng.StripConv(st.Chan)
					if prm, isP := ch.(*ssa.Parameter); isP {
						ch = eng.StripConv(p.Actual(prm))
					}
					f := eng.LoadedField(ch)
					if st.Dir != types.RecvOnly || f == nil || !isReq(f.Type()) {
						fields = nil
						break
					}
					fields = append(fields, f)
				}
				if len(fields) != 2 {
					continue
				}
				// which arm pushes? the select's index result is compared with the arm number
				var idx ssa.Value
				if sel.Referrers() != nil {
					for _, ref := range *sel.Referrers() {
						if ex, ok := ref.(*ssa.Extract); ok && ex.Index == 0 {
							idx = ex
						}
					}
				}
				if idx == nil {
					continue
				}
				pushArm := -1
				for _, bb := range fn.Blocks {
					for k := range bb.Succs {
						rel, ok := eng.EdgeRel(bb, k)
						if !ok || rel.Op != token.EQL || rel.X != idx || len(bb.Succs) != 2 {
							continue
						}
						arm, isC := eng.ConstInt(rel.Y)
						if !isC || arm < 0 || arm > 1 {
							continue
						}
						for _, cb := range fn.Blocks {
							if !eng.EdgeDominates(bb, k, cb) {
								continue
							}
							for _, ci := range cb.Instrs {
								if call, ok := ci.(*ssa.Call); ok && eng.CalleeName(call.Common()) == "(*container/list.List).PushBack" {
									pushArm = int(arm)
								}
							}
						}
					}
				}
				if pushArm < 0 {
					continue
				}
				return fields[pushArm], fields[1-pushArm]
			}
		}
	}
	return nil, nil
}

// calleeOf: the static callee, or the function a function-valued parameter of the helper under
// analysis is bound to at the call being examined.
func (m *pairModel) calleeOf(cc *ssa.CallCommon) *ssa.Function {
	if g := eng.StaticCallee(cc); g != nil {
		return g
	}
	if cc.IsInvoke() {
		return nil
	}
	if fn, ok := m.fnBind[cc.Value]; ok {
		return fn
	}
	return nil
}

// holdsEnforcer: f is a pointer field to the struct that owns the enforcer's removal channel
// (Store.enforcer *sizeEnforcer): nil means no size limit is configured.
func (m *pairModel) holdsEnforcer(f *types.Var) bool {
	if f == nil || m.fRemove == nil {
		return false
	}
	pt, ok := f.Type().(*types.Pointer)
	if !ok {
		return false
	}
	st, ok := pt.Elem().Underlying().(*types.Struct)
	if !ok {
		return false
	}
	for i := 0; i < st.NumFields(); i++ {
		if st.Field(i) == m.fRemove {
			return true
		}
	}
	return false
}

// isEnforcerDeliver: in reports a delivered message to the size enforcer.
func (m *pairModel) isEnforcerDeliver(in ssa.Instruction) bool {
	call, ok := in.(*ssa.Call)
	if !ok {
		return false
	}
	if m.enforcerVia != nil {
		return eng.StaticCallee(call.Common()) == m.enforcerVia && m.enforcerChanIdx < len(call.Call.Args) &&
			eng.SameField(eng.LoadedField(eng.StripConv(call.Call.Args[m.enforcerChanIdx])), m.fIncoming)
	}
	return eng.StaticCallee(call.Common()) == m.enforcerDlv
}

// ownConnection: every session runs on the connection that was accepted for it. In an accept
// loop the goroutine that runs a session must not reach its connection through a variable that
// is shared by all iterations (declared outside the loop, assigned inside it, captured by
// reference): by the time the goroutine reads it the loop may have accepted the next connection,
// so two state machines talk on one socket and the earlier client is never served.
func (c *Ctx) ownConnection(rule, rel string) int {
	p, r := c.P, c.R
	r.Rule(rule, "a goroutine started inside a loop captures no connection-typed variable that is declared outside that loop and assigned inside it (each session keeps the connection accepted for it)")
	n := 0
	ord := map[string]int{}
	isConnLike := func(t types.Type) bool {
		ms := types.NewMethodSet(t)
		has := func(nm string) bool {
			for i := 0; i < ms.Len(); i++ {
				if ms.At(i).Obj().Name() == nm {
					return true
				}
			}
			return false
		}
		return has("Read") && has("Write") && has("Close")
	}
	for _, fn := range pkgFuncs(p, rel) {
		fn := fn
		eng.EachInstr(fn, func(in ssa.Instruction) {
			g, ok := in.(*ssa.Go)
			if !ok {
				return
			}
			hs := loopHeaders(g.Block())
			if len(hs) == 0 {
				// one step of an accept loop in a function of its own (for s.acceptNext(…) { … }):
				// what the goroutine gets are that function's own locals, fresh per call
				inLoop := false
				for _, cs := range p.StaticCallSites(fn) {
					if ci, isI := cs.Instr.(ssa.Instruction); isI && len(loopHeaders(ci.Block())) > 0 {
						inLoop = true
					}
				}
				if inLoop {
					n++
					r.Ok(rule, siteCons(p, in, ord, "go-in-loop-step"), p.InstrPos(in), "the goroutine is started by a function that the loop calls once per connection: its variables are that call's own")
				}
				return
			}
			mc, ok := g.Call.Value.(*ssa.MakeClosure)
			var cells []ssa.Value
			if ok {
				cells = append(cells, mc.Bindings...)
			}
			// a plain `go f(&conn)` hands out the cell as well
			cells = append(cells, g.Call.Args...)
			n++
			cons := siteCons(p, in, ord, "go-in-loop")
			bad := ""
			for _, b := range cells {
				al, ok := b.(*ssa.Alloc)
				if !ok {
					continue
				}
				pt, ok := al.Type().Underlying().(*types.Pointer)
				if !ok || !isConnLike(pt.Elem()) {
					continue
				}
				for _, h := range hs {
					if h == al.Block() || h.Dominates(al.Block()) {
						continue // a fresh variable per iteration
					}
					if al.Referrers() == nil {
						continue
					}
					for _, ref := range *al.Referrers() {
						if st, ok := ref.(*ssa.Store); ok && st.Addr == ssa.Value(al) && (st.Block() == h || h.Dominates(st.Block())) {
							bad = "variable " + al.Comment + " (declared at " + p.Pos(al.Pos()) + ", outside the loop) is assigned at " + p.InstrPos(st) + " on every iteration and captured by reference"
						}
					}
				}
			}
			if bad != "" {
				r.Bad(rule, cons, p.InstrPos(in), "%s: the goroutine reads it after the loop has gone on, so sessions started close together all run on the connection accepted last — the earlier clients get no greeting and no replies, and the last one receives several interleaved dialogues", bad)
			} else {
				r.Ok(rule, cons, p.InstrPos(in), "the goroutine captures no connection variable that the loop reassigns")
			}
		})
	}
	return n
}
