package rules

import (
	"fmt"
	"go/constant"
	"go/types"
	"strings"

	"golang.org/x/tools/go/ssa"

	"ibcheck/eng"
)

const smtpRel = "pkg/server/smtp"

// smtpModel resolves the SMTP session's anchors. Types and fields are named; functions are
// found by role (what they do), so renaming a handler does not break the rules.
type smtpModel struct {
	sess                   *types.Named
	fState, fFrom, fRecips *types.Var
	fHolder                *types.Var // the by-value record field of Session that holds the envelope fields, if any
	fText                  *types.Var
	fMaxBytes, fMaxRecips  *types.Var
	stateT                 *types.Named
	states                 map[string]int64
	stateName              map[int64]string
	stateWriter            *ssa.Function
	macros                 map[*ssa.Function]*smtpMacro
	send                   *ssa.Function
	reset                  *ssa.Function
	newSession             *ssa.Function
	root                   *ssa.Function
	readLine               *ssa.Function
	dataRead               *ssa.Function
	deliverObj             *types.Func
	deliverSites           []ssa.CallInstruction
	fns                    []*ssa.Function
	sendWrap               map[*ssa.Function]bool
	ok                     bool
}

func (c *Ctx) smtp() *smtpModel {
	p := c.P
	m := &smtpModel{states: map[string]int64{}, stateName: map[int64]string{}}
	m.sess = p.Named(smtpRel, "Session")
	m.fState = p.Field(smtpRel, "Session", "state")
	// the envelope fields are found by what they hold: the *policy.Origin and the
	// []*policy.Recipient of the session, directly in Session or in a record Session embeds by
	// value (s.env.from); by name only if the types do not single them out
	m.fFrom, m.fRecips, m.fHolder = envelopeFields(p, m.sess)
	if m.fFrom == nil {
		m.fFrom = p.Field(smtpRel, "Session", "from")
	}
	if m.fRecips == nil {
		m.fRecips = p.Field(smtpRel, "Session", "recipients")
	}
	m.fText = p.Field(smtpRel, "Session", "text")
	m.fMaxBytes = p.Field("pkg/config", "SMTP", "MaxMessageBytes")
	m.fMaxRecips = p.Field("pkg/config", "SMTP", "MaxRecipients")
	m.stateT = p.Named(smtpRel, "State")
	m.deliverObj = p.MethodObj("pkg/message", "Manager", "Deliver")
	if m.sess == nil || m.fState == nil || m.fFrom == nil || m.fRecips == nil || m.stateT == nil || m.deliverObj == nil || m.fMaxBytes == nil || m.fMaxRecips == nil || m.fText == nil {
		return m
	}
	pk := p.Pkg(smtpRel)
	for _, name := range pk.Scope().Names() {
		if k, ok := pk.Scope().Lookup(name).(*types.Const); ok && types.Identical(k.Type(), m.stateT) {
			if v, ok := constant.Int64Val(k.Val()); ok {
				m.states[name] = v
				m.stateName[v] = name
			}
		}
	}
	for _, want := range []string{"GREET", "READY", "MAIL", "DATA", "QUIT"} {
		if _, ok := m.states[want]; !ok {
			c.R.Fatal("UNRESOLVED anchor=smtp.State constant %s", want)
			return m
		}
	}
	for _, fn := range p.Funcs {
		if eng.FuncPkgPath(fn) == eng.Mod+"/"+smtpRel {
			m.fns = append(m.fns, fn)
		}
	}
	one := func(role string, cands []*ssa.Function) *ssa.Function {
		if len(cands) != 1 {
			var names []string
			for _, f := range cands {
				names = append(names, eng.FuncName(f))
			}
			c.R.Fatal("UNRESOLVED anchor=smtp role %q: expected exactly one function, found %d %v", role, len(cands), names)
			return nil
		}
		return cands[0]
	}
	var writers, senders, resets, allocs, rl, dr []*ssa.Function
	for _, fn := range m.fns {
		fn := fn
		isW, isS, isR, isA, isRL, isDR := false, false, false, false, false, false
		eng.EachInstr(fn, func(in ssa.Instruction) {
			switch x := in.(type) {
			case *ssa.Store:
				fa, ok := x.Addr.(*ssa.FieldAddr)
				if !ok {
					return
				}
				f := eng.FieldOfAddr(fa)
				_, fresh := fa.X.(*ssa.Alloc)
				if eng.SameField(f, m.fState) && !fresh {
					isW = true
				}
				// the envelope reset clears the sender and/or the recipient list
				if (eng.SameField(f, m.fRecips) || eng.SameField(f, m.fFrom)) && eng.IsNilConst(x.Val) && !fresh {
					isR = true
				}
				if m.zeroesEnvelope(x) && !fresh {
					isR = true
				}
			case *ssa.Alloc:
				if pt, ok := x.Type().(*types.Pointer); ok && types.Identical(pt.Elem(), m.sess) {
					isA = true
				}
			case *ssa.Call:
				switch eng.CalleeName(x.Common()) {
				case "(*net/textproto.Writer).PrintfLine":
					isS = true
				case "(*net/textproto.Reader).ReadLine", "(*net/textproto.Reader).ReadLineBytes",
					"(*bufio.Reader).ReadLine", "(*bufio.Reader).ReadString", "(*bufio.Reader).ReadBytes", "(*bufio.Reader).ReadSlice":
					isRL = true
				case "(*net/textproto.Reader).ReadDotBytes", "(*net/textproto.Reader).DotReader":
					isDR = true
				}
			}
		})
		if isW {
			writers = append(writers, fn)
		}
		if isS {
			senders = append(senders, fn)
		}
		if isR {
			resets = append(resets, fn)
		}
		if isA {
			allocs = append(allocs, fn)
		}
		if isRL {
			rl = append(rl, fn)
		}
		if isDR {
			dr = append(dr, fn)
		}
	}
	m.stateWriter = one("state writer (stores to Session.state)", writers)
	m.send = one("reply writer (calls textproto PrintfLine)", senders)
	m.reset = one("envelope reset (stores nil to Session.from / Session.recipients)", resets)
	m.newSession = one("session allocation", allocs)
	m.readLine = one("command line read (a line-reading call of textproto.Reader or bufio.Reader)", rl)
	m.dataRead = one("DATA read (textproto ReadDotBytes/DotReader)", dr)
	if m.stateWriter == nil || m.send == nil || m.reset == nil || m.newSession == nil || m.readLine == nil || m.dataRead == nil {
		return m
	}
	// the state writer must store its own parameter
	okW := false
	eng.EachInstr(m.stateWriter, func(in ssa.Instruction) {
		if st, ok := in.(*ssa.Store); ok {
			if fa, ok := st.Addr.(*ssa.FieldAddr); ok && eng.SameField(eng.FieldOfAddr(fa), m.fState) {
				if _, isParam := st.Val.(*ssa.Parameter); isParam {
					okW = true
				}
			}
		}
	})
	if !okW {
		c.R.Fatal("UNRESOLVED anchor=smtp state writer %s does not store its parameter", eng.FuncName(m.stateWriter))
		return m
	}
	var roots []*ssa.Function
	for _, e := range p.CallersOf(m.newSession) {
		roots = append(roots, e.Caller.Func)
	}
	m.root = one("session root (calls the session allocator)", roots)
	for _, fn := range m.fns {
		eng.EachInstr(fn, func(in ssa.Instruction) {
			if ci, ok := in.(ssa.CallInstruction); ok && eng.IsCallTo(ci.Common(), m.deliverObj) {
				m.deliverSites = append(m.deliverSites, ci)
			}
		})
	}
	m.ok = m.root != nil
	return m
}

// stateArg returns the constant State passed at a call of the state writer.
func (m *smtpModel) stateArg(in ssa.Instruction) (int64, bool, bool) {
	call, ok := in.(*ssa.Call)
	if !ok {
		return 0, false, false
	}
	g := eng.StaticCallee(call.Common())
	args := call.Call.Args
	if mc := m.macro(g); mc != nil && mc.state != nil {
		if mc.stateParam >= 0 && mc.stateParam < len(args) {
			v, isConst := eng.ConstInt(args[mc.stateParam])
			return v, isConst, true
		}
		v, isConst := eng.ConstInt(mc.state.Call.Args[len(mc.state.Call.Args)-1])
		return v, isConst, true
	}
	if g != m.stateWriter {
		return 0, false, false
	}
	v, isConst := eng.ConstInt(args[len(args)-1])
	return v, isConst, true
}

// smtpMacro: a step helper of the session — a straight-line function of the package whose only
// calls are one of the reply writer and/or one of the state writer, each handed a parameter of
// the helper (or a constant): replyAndEnter(msg, state). A call of it is the reply and the
// transition themselves, with the caller's arguments.
type smtpMacro struct {
	send, state           *ssa.Call
	sendParam, stateParam int // index into the caller's arguments, -1: constant in the helper
}

func (m *smtpModel) macro(g *ssa.Function) *smtpMacro {
	if g == nil || m.send == nil || m.stateWriter == nil || g == m.send || g == m.stateWriter || g.Parent() != nil || len(g.Blocks) != 1 || eng.FuncPkgPath(g) != eng.FuncPkgPath(m.send) {
		return nil
	}
	if mc, ok := m.macros[g]; ok {
		return mc
	}
	if m.macros == nil {
		m.macros = map[*ssa.Function]*smtpMacro{}
	}
	m.macros[g] = nil
	mc := &smtpMacro{sendParam: -1, stateParam: -1}
	argOf := func(v ssa.Value) (int, bool) {
		if prm, ok := v.(*ssa.Parameter); ok && prm.Parent() == g {
			return eng.ParamIndex(prm), true
		}
		if _, ok := v.(*ssa.Const); ok {
			return -1, true
		}
		return -1, false
	}
	for _, in := range g.Blocks[0].Instrs {
		call, ok := in.(*ssa.Call)
		if !ok {
			switch in.(type) {
			case *ssa.Return, *ssa.DebugRef:
				continue
			}
			return nil
		}
		a := call.Call.Args
		switch eng.StaticCallee(call.Common()) {
		case m.send:
			i, ok := argOf(a[len(a)-1])
			if !ok || mc.send != nil {
				return nil
			}
			mc.send, mc.sendParam = call, i
		case m.stateWriter:
			i, ok := argOf(a[len(a)-1])
			if !ok || mc.state != nil {
				return nil
			}
			mc.state, mc.stateParam = call, i
		default:
			return nil
		}
	}
	if mc.state == nil || mc.send == nil {
		return nil
	}
	m.macros[g] = mc
	return mc
}

// entersState matches calls of the state writer with the given constant.
func (m *smtpModel) entersState(name string) eng.Pred {
	want := m.states[name]
	return func(in ssa.Instruction) bool {
		v, isConst, isCall := m.stateArg(in)
		return isCall && isConst && v == want
	}
}

// isSend matches calls of the reply writer; isReset of the envelope reset.
func (m *smtpModel) isSend(in ssa.Instruction) bool {
	call, ok := in.(*ssa.Call)
	if !ok {
		return false
	}
	g := eng.StaticCallee(call.Common())
	return g != nil && (g == m.send || m.isSendWrapper(g) || m.macro(g) != nil)
}

// isSendWrapper: g is a printf-style front of the reply writer: its body is
// send(fmt.Sprintf(format, args...)) with format and args its own parameters (sendf). A call of
// it is a reply whose text is that format applied to the operand pack.
func (m *smtpModel) isSendWrapper(g *ssa.Function) bool {
	if g == nil || m.send == nil || g == m.send || len(g.Blocks) != 1 || g.Parent() != nil || !g.Signature.Variadic() || eng.FuncPkgPath(g) != eng.FuncPkgPath(m.send) {
		return false
	}
	if v, ok := m.sendWrap[g]; ok {
		return v
	}
	if m.sendWrap == nil {
		m.sendWrap = map[*ssa.Function]bool{}
	}
	m.sendWrap[g] = false
	var sends, sprintfs, others int
	okShape := true
	for _, in := range g.Blocks[0].Instrs {
		call, ok := in.(*ssa.Call)
		if !ok {
			continue
		}
		switch {
		case eng.StaticCallee(call.Common()) == m.send:
			sends++
			sp, isCall := call.Call.Args[len(call.Call.Args)-1].(*ssa.Call)
			if !isCall || eng.CalleeName(sp.Common()) != "fmt.Sprintf" || len(sp.Call.Args) != 2 {
				okShape = false
				break
			}
			f, isP := sp.Call.Args[0].(*ssa.Parameter)
			a, isP2 := sp.Call.Args[1].(*ssa.Parameter)
			if !isP || !isP2 || f.Parent() != g || a.Parent() != g || eng.ParamIndex(a) != len(g.Params)-1 || eng.ParamIndex(f) != len(g.Params)-2 {
				okShape = false
			}
		case eng.CalleeName(call.Common()) == "fmt.Sprintf":
			sprintfs++
		default:
			others++
		}
	}
	m.sendWrap[g] = okShape && sends == 1 && sprintfs == 1 && others == 0
	return m.sendWrap[g]
}

func (m *smtpModel) isReset(in ssa.Instruction) bool {
	call, ok := in.(*ssa.Call)
	return ok && eng.StaticCallee(call.Common()) == m.reset
}

// sendPrefix returns the constant prefix of the reply text of a send call.
func (m *smtpModel) sendPrefix(in ssa.Instruction) (string, bool) {
	call := in.(*ssa.Call)
	args := call.Call.Args
	if mc := m.macro(eng.StaticCallee(call.Common())); mc != nil {
		if mc.sendParam >= 0 && mc.sendParam < len(args) {
			return eng.ReplyPrefix(args[mc.sendParam])
		}
		return eng.ReplyPrefix(mc.send.Call.Args[len(mc.send.Call.Args)-1])
	}
	if g := eng.StaticCallee(call.Common()); g != m.send && m.isSendWrapper(g) && len(args) >= 2 {
		// the constant part of the format before its first verb
		f, ok := eng.ConstString(args[len(args)-2])
		if !ok {
			return "", false
		}
		for i := 0; i < len(f); i++ {
			if f[i] == '%' {
				return f[:i], true
			}
		}
		return f, true
	}
	return eng.ReplyPrefix(args[len(args)-1])
}

// replyClass classifies a reply prefix: '2'..'5' for final replies, 'c' for continuation
// lines ("250-..."), '?' if the code is not constant.
func replyClass(prefix string, ok bool) byte {
	if !ok || len(prefix) < 3 {
		return '?'
	}
	for i := 0; i < 3; i++ {
		if prefix[i] < '0' || prefix[i] > '9' {
			return '?'
		}
	}
	if len(prefix) > 3 && prefix[3] == '-' {
		return 'c'
	}
	return prefix[0]
}

func (m *smtpModel) describe() string {
	return fmt.Sprintf("state-writer=%s reply=%s reset=%s root=%s line-read=%s data-read=%s",
		eng.FuncName(m.stateWriter), eng.FuncName(m.send), eng.FuncName(m.reset), eng.FuncName(m.root), eng.FuncName(m.readLine), eng.FuncName(m.dataRead))
}

func shortFn(fn *ssa.Function) string {
	s := eng.FuncName(fn)
	if i := strings.LastIndex(s, "/"); i >= 0 {
		// keep "(*pkg/x.T).m" readable: strip only the directory part inside parens
		s = strings.ReplaceAll(s, "pkg/server/", "")
		s = strings.ReplaceAll(s, "pkg/storage/", "")
		s = strings.ReplaceAll(s, "pkg/", "")
	}
	return s
}

// callsDataRead returns the call of the DATA-read role function in fn, if any.
func (m *smtpModel) callsDataRead(fn *ssa.Function) *ssa.Call {
	var gcall *ssa.Call
	eng.EachInstr(fn, func(in ssa.Instruction) {
		if call, ok := in.(*ssa.Call); ok && eng.StaticCallee(call.Common()) == m.dataRead {
			gcall = call
		}
	})
	return gcall
}

// readVia returns the call in fn that performs the DATA read: the call of the read function
// itself (inner == nil), or the call of a helper of the package whose own body calls the read
// (receiveData() ([]byte, bool)); inner is then the read call inside the helper.
func (m *smtpModel) readVia(fn *ssa.Function) (call, inner *ssa.Call) {
	if g := m.callsDataRead(fn); g != nil {
		return g, nil
	}
	eng.EachInstr(fn, func(in ssa.Instruction) {
		cc, ok := in.(*ssa.Call)
		if !ok || call != nil {
			return
		}
		w := eng.StaticCallee(cc.Common())
		if w == nil || w == fn || len(w.Blocks) == 0 || eng.FuncPkgPath(w) != eng.FuncPkgPath(m.dataRead) {
			return
		}
		if g := m.callsDataRead(w); g != nil {
			call, inner = cc, g
		}
	})
	return call, inner
}

// readSucceededAt: in block at (of the function holding call, a result of readVia) the DATA read
// is known to have succeeded. Direct read: its error is known nil. Through a helper: every
// return of the helper on which the read's error is not known nil hands back some result the
// caller has excluded at this point (false where the caller is on the true edge, nil where it
// has tested non-nil, a non-nil error where it has tested nil).
func (m *smtpModel) readSucceededAt(call, inner *ssa.Call, at *ssa.BasicBlock) bool {
	if call == nil || !call.Block().Dominates(at) {
		return false
	}
	if inner == nil {
		return eng.KnownNil(extractOf(call, 1), at)
	}
	w := inner.Parent()
	errV := extractOf(inner, 1)
	res := func(i int) ssa.Value {
		if w.Signature.Results().Len() == 1 {
			return call
		}
		return extractOf(call, i)
	}
	for _, b := range w.Blocks {
		ret, ok := b.Instrs[len(b.Instrs)-1].(*ssa.Return)
		if !ok {
			continue
		}
		if inner.Block().Dominates(b) && eng.KnownNil(errV, b) {
			continue // a success return
		}
		excluded := false
		for i, rv := range eng.ReturnResults(ret) {
			out := res(i)
			if out == ssa.Value(call) && w.Signature.Results().Len() != 1 {
				continue // the caller ignores this result
			}
			if bv, isB := eng.ConstBool(rv); isB {
				if kv, known := eng.KnownBool(out, at); known && kv != bv {
					excluded = true
				}
				continue
			}
			if eng.IsNilConst(rv) {
				if eng.KnownNonNil(out, at) {
					excluded = true
				}
				continue
			}
			if isErrorType(rv.Type()) && (definitelyNonNilErr(rv) || eng.KnownNonNil(rv, b)) && eng.KnownNil(out, at) {
				excluded = true
			}
		}
		if !excluded {
			return false
		}
	}
	return true
}

// liftToDataReader maps a Deliver call site to the site that stands for it in the function
// that reads the DATA block: the site itself when its function reads the block, otherwise the
// single static call of the enclosing helper (repeatedly, bounded), as produced by extracting
// the delivery into a method of its own. ok=false: no such chain.
func (m *smtpModel) liftToDataReader(p *eng.Prog, site ssa.CallInstruction) (ssa.CallInstruction, *ssa.Call, bool) {
	cur := site
	for depth := 0; depth < 4; depth++ {
		F := cur.Parent()
		if g, _ := m.readVia(F); g != nil {
			return cur, g, true
		}
		if F.Parent() != nil {
			return nil, nil, false
		}
		sites := p.StaticCallSites(F)
		if len(sites) != 1 {
			return nil, nil, false
		}
		ci := sites[0].Instr
		if _, isGo := ci.(*ssa.Go); isGo {
			return nil, nil, false
		}
		cur = ci
	}
	return nil, nil, false
}

// envelopeFields finds the sender and recipient-list fields of the SMTP session by type, in
// Session itself or in a struct-typed (by value) field of it declared in the same package.
func envelopeFields(p *eng.Prog, sess *types.Named) (from, recips, holder *types.Var) {
	if sess == nil {
		return nil, nil, nil
	}
	st, ok := sess.Underlying().(*types.Struct)
	if !ok {
		return nil, nil, nil
	}
	isNamedPtrTo := func(t types.Type, pkgSuffix, name string) bool {
		pt, ok := t.(*types.Pointer)
		if !ok {
			return false
		}
		n, ok := pt.Elem().(*types.Named)
		return ok && n.Obj().Name() == name && n.Obj().Pkg() != nil && strings.HasSuffix(n.Obj().Pkg().Path(), pkgSuffix)
	}
	var froms, recs []*types.Var
	holders := map[*types.Var]*types.Var{}
	scan := func(s *types.Struct, h *types.Var) {
		for i := 0; i < s.NumFields(); i++ {
			f := s.Field(i)
			if isNamedPtrTo(f.Type(), "/pkg/policy", "Origin") {
				froms = append(froms, f)
				holders[f] = h
			}
			if sl, ok := f.Type().Underlying().(*types.Slice); ok && isNamedPtrTo(sl.Elem(), "/pkg/policy", "Recipient") {
				recs = append(recs, f)
				holders[f] = h
			}
		}
	}
	scan(st, nil)
	for i := 0; i < st.NumFields(); i++ {
		f := st.Field(i)
		if n, ok := f.Type().(*types.Named); ok && n.Obj().Pkg() == sess.Obj().Pkg() {
			if inner, ok := n.Underlying().(*types.Struct); ok {
				scan(inner, f)
			}
		}
	}
	if len(froms) == 1 {
		from = froms[0]
	}
	if len(recs) == 1 {
		recips = recs[0]
	}
	if from != nil && recips != nil && holders[from] == holders[recips] {
		holder = holders[from]
	}
	return from, recips, holder
}

// zeroesEnvelope: st replaces the whole envelope record by its zero value (s.env = envelope{}),
// which clears the sender and the recipient list at once.
func (m *smtpModel) zeroesEnvelope(st *ssa.Store) bool {
	if m.fHolder == nil {
		return false
	}
	fa, ok := st.Addr.(*ssa.FieldAddr)
	if !ok || !eng.SameField(eng.FieldOfAddr(fa), m.fHolder) {
		return false
	}
	k, ok := st.Val.(*ssa.Const)
	return ok && k.Value == nil
}

// storesEnvelope: st assigns the whole envelope record (zero or not).
func (m *smtpModel) storesEnvelope(st *ssa.Store) bool {
	if m.fHolder == nil {
		return false
	}
	fa, ok := st.Addr.(*ssa.FieldAddr)
	return ok && eng.SameField(eng.FieldOfAddr(fa), m.fHolder)
}
